// obs-posting: the real posting-mode path of the working tree, observed as Coq cases for Posting/Model.v and
// judged by the oracle of C09 (exactly the requested postings or whole rejection) and of the pure half of C10.
//
//	script   ledger.TxToScriptData -> text -> real ANTLR parser -> AST (= model tx_to_script), vars through the real
//	         SetVarsFromJSON, then the real compiler + machine on a generated balance table (= model sem, = predict)
//	validate ledger.Postings.Validate on raw strings (= model first_invalid)
//	string   ledger.ValidateAddress / AssetIsValid on one string (= valid_address / valid_asset), short strings exhaustively
//	reverse  Postings.Reverse / TransactionData.Reverse (= reverse_postings)
//	handler  the real v1 / v2 POST /{ledger}/transactions and the bulk CREATE_TRANSACTION element with a recording
//	         backend: what RunScript the backend receives (= handler, TxToScriptData of the request) or 400 before it
package main

import (
	"bytes"
	"context"
	"encoding/hex"
	"encoding/json"
	"errors"
	"fmt"
	"math/big"
	"net/http"
	"net/http/httptest"
	"reflect"
	"regexp"
	"sort"
	"os"
	"strings"
	"syscall"
	"time"
	"unicode/utf8"

	ledger "github.com/formancehq/ledger/internal"
	v1 "github.com/formancehq/ledger/internal/api/v1"
	v2 "github.com/formancehq/ledger/internal/api/v2"
	"github.com/formancehq/ledger/internal/machine"
	"github.com/formancehq/ledger/internal/machine/script/compiler"
	"github.com/formancehq/ledger/internal/machine/vm"
	"github.com/formancehq/ledger/internal/machine/vm/program"
	"github.com/formancehq/ledger/internal/opentelemetry/metrics"
	"github.com/formancehq/ledger/verifx/fakeapi"
	"github.com/formancehq/ledger/verifx/nsx"
	"github.com/formancehq/ledger/verifx/vx"
	"github.com/formancehq/stack/libs/go-libs/auth"
	"github.com/formancehq/stack/libs/go-libs/health"
	"github.com/formancehq/stack/libs/go-libs/metadata"
)

// ---- inputs ------------------------------------------------------------------------------------------------

// bstr is a byte string that survives JSON: valid UTF-8 is a JSON string, anything else {"hex": "..."}.
type bstr string

func (b bstr) MarshalJSON() ([]byte, error) {
	if utf8.ValidString(string(b)) {
		return json.Marshal(string(b))
	}
	return json.Marshal(map[string]string{"hex": hex.EncodeToString([]byte(b))})
}
func (b *bstr) UnmarshalJSON(d []byte) error {
	var s string
	if json.Unmarshal(d, &s) == nil {
		*b = bstr(s)
		return nil
	}
	var m map[string]string
	if err := json.Unmarshal(d, &m); err != nil {
		return err
	}
	x, err := hex.DecodeString(m["hex"])
	*b = bstr(x)
	return err
}

type sPosting struct {
	Source      bstr    `json:"source"`
	Destination bstr    `json:"destination"`
	Asset       bstr    `json:"asset"`
	Amount      *string `json:"amount"` // decimal; nil = the JSON has no amount
}

type input struct {
	Kind      string                       `json:"kind"` // script validate string reverse handler bulk
	Postings  []sPosting                   `json:"postings,omitempty"`
	Unbounded bool                         `json:"unbounded,omitempty"`
	Balances  map[string]map[string]string `json:"balances,omitempty"`
	Metadata  map[string]string            `json:"metadata,omitempty"`
	Reference string                       `json:"reference,omitempty"`
	Timestamp string                       `json:"timestamp,omitempty"` // RFC3339
	API       string                       `json:"api,omitempty"`       // v1 v2 bulk
	Script    *string                      `json:"script,omitempty"`    // handler: script.plain of the request
	Elements  []input                      `json:"elements,omitempty"` // bulk: the CREATE_TRANSACTION elements, in order
	Str       bstr                         `json:"str,omitempty"`
	StrKind   string                       `json:"str_kind,omitempty"` // address asset
	Note      string                       `json:"note,omitempty"`
}

func amountOf(p sPosting) *big.Int {
	if p.Amount == nil {
		return nil
	}
	b, ok := new(big.Int).SetString(*p.Amount, 10)
	if !ok {
		return nil
	}
	return b
}

func toPostings(ps []sPosting) ledger.Postings {
	out := make(ledger.Postings, len(ps))
	for i, p := range ps {
		out[i] = ledger.Posting{Source: string(p.Source), Destination: string(p.Destination), Asset: string(p.Asset), Amount: amountOf(p)}
	}
	return out
}

func tsOf(in input) ledger.Time {
	if in.Timestamp == "" {
		return ledger.Time{}
	}
	t, err := time.Parse(time.RFC3339Nano, in.Timestamp)
	if err != nil {
		return ledger.Time{}
	}
	return ledger.Time{Time: t.UTC()}
}

// tsAsParsed is the timestamp as a controller hands it on: the real ParseTime keeps the zone offset the client wrote
// (tsOf is the harness's own reading of the instant, in UTC)
func tsAsParsed(in input) ledger.Time {
	if in.Timestamp == "" {
		return ledger.Time{}
	}
	t, err := ledger.ParseTime(in.Timestamp)
	if err != nil {
		return tsOf(in)
	}
	return t
}

func zoneClass(in input) string {
	switch {
	case in.Timestamp == "":
		return "no-timestamp"
	case strings.HasSuffix(in.Timestamp, "Z") || strings.HasSuffix(in.Timestamp, "+00:00"):
		return "utc"
	}
	return "numeric-zone-offset"
}

func metaOf(in input) metadata.Metadata {
	if in.Metadata == nil {
		return nil
	}
	m := metadata.Metadata{}
	for k, v := range in.Metadata {
		m[k] = v
	}
	return m
}

// independent statement of validity, used by the oracle only (the model has its own, compared case by case)
func validPosting(p sPosting) bool {
	a := amountOf(p)
	return a != nil && a.Sign() >= 0 && ledger.ValidateAddress(string(p.Source)) && ledger.ValidateAddress(string(p.Destination)) &&
		ledger.AssetIsValid(string(p.Asset))
}
func allValid(ps []sPosting) bool {
	for _, p := range ps {
		if !validPosting(p) {
			return false
		}
	}
	return true
}

// ---- Coq rendering -------------------------------------------------------------------------------------------

var varRe = regexp.MustCompile(`^v([am])(0|[1-9][0-9]*)$`)

// names: "world" -> 0; variable names va<i> -> 2i, vm<j> -> 2j+1 (Posting/Model.v va, vm)
func newNames(n int) *nsx.Names {
	ns := nsx.NewNames()
	for i := 0; i < 2*n+4; i++ {
		ns.Var[fmt.Sprintf("va%d", i)] = uint64(2 * i)
		ns.Var[fmt.Sprintf("vm%d", i)] = uint64(2*i + 1)
	}
	return ns
}

func coqSPosting(p sPosting) string {
	amt := "None"
	if a := amountOf(p); a != nil {
		amt = "(Some " + nsx.Z(a) + ")"
	}
	return fmt.Sprintf("{| sp_src := %s; sp_dst := %s; sp_asset := %s; sp_amount := %s |}",
		vx.CoqString(string(p.Source)), vx.CoqString(string(p.Destination)), vx.CoqString(string(p.Asset)), amt)
}
func coqSPostings(ps []sPosting) string {
	var xs []string
	for _, p := range ps {
		xs = append(xs, coqSPosting(p))
	}
	return vx.CoqList(xs)
}
func coqPosting(n *nsx.Names, src, dst, asset string, amt *big.Int) string {
	return fmt.Sprintf("{| p_src := %s; p_dst := %s; p_asset := %s; p_amount := %s |}", n.A(src), n.A(dst), n.S(asset), nsx.Z(amt))
}
func coqPostings(n *nsx.Names, ps ledger.Postings) string {
	var xs []string
	for _, p := range ps {
		xs = append(xs, coqPosting(n, p.Source, p.Destination, p.Asset, p.Amount))
	}
	return vx.CoqList(xs)
}

// ---- the real pipeline on the produced script (as obs-numscript) -------------------------------------------

type runObs struct {
	Stage    string // compile vars resolve balances run done
	Class    string
	Panic    string
	Postings []vm.Posting
	TxMeta   map[string]machine.Value
	AccMeta  map[machine.AccountAddress]map[string]machine.Value
	Printed  []machine.Value
	Vars     map[string]machine.Value
	Prog     *program.Program
	ResMeta  metadata.Metadata // vm.Run's Result.Metadata
}

func classify(stage string, err error) string {
	switch stage {
	case "vars":
		return "EInvalidVars"
	case "resolve":
		if errors.Is(err, &machine.ErrMissingMetadata{}) {
			return "EMissingMeta"
		}
		return "EResolveOther"
	case "balances":
		if errors.Is(err, &machine.ErrNegativeAmount{}) {
			return "ENegBalance"
		}
		return "EResolveOther"
	}
	switch {
	case errors.Is(err, &machine.ErrInsufficientFund{}):
		return "EInsufficient"
	case errors.Is(err, &machine.ErrInvalidScript{}):
		return "EInvalidScript"
	case errors.Is(err, machine.ErrScriptFailed):
		return "EScriptFailed"
	case errors.Is(err, machine.ErrResourceNotFound):
		return "EResNotFound"
	case errors.Is(err, &machine.ErrMetadataOverride{}):
		return "EMetaOverride"
	}
	return "EOtherRun"
}

func storeOf(bal map[string]map[string]string) vm.StaticStore {
	st := vm.StaticStore{}
	for a, m := range bal {
		for s, v := range m {
			b, ok := new(big.Int).SetString(v, 10)
			if !ok {
				continue
			}
			if st[a] == nil {
				st[a] = &vm.AccountWithBalances{Account: ledger.Account{Address: a, Metadata: metadata.Metadata{}}, Balances: map[string]*big.Int{}}
			}
			st[a].Balances[s] = b
		}
	}
	return st
}

func runScript(rs ledger.RunScript, bal map[string]map[string]string) (ob runObs) {
	stage := "compile"
	defer func() {
		if r := recover(); r != nil {
			ob.Stage, ob.Panic = stage, fmt.Sprint(r)
		}
	}()
	prog, err := compiler.Compile(rs.Script.Plain)
	if err != nil {
		ob.Stage, ob.Class = "compile", "ECompile"
		return
	}
	ob.Prog = prog
	stage = "vars"
	m := vm.NewMachine(*prog)
	done := make(chan struct{})
	m.Printer = func(c chan machine.Value) {
		for v := range c {
			ob.Printed = append(ob.Printed, v)
		}
		close(done)
	}
	vars := map[string]string{}
	for k, v := range rs.Script.Vars {
		vars[k] = v
	}
	if err := m.SetVarsFromJSON(vars); err != nil {
		ob.Stage, ob.Class = "vars", "EInvalidVars"
		return
	}
	ob.Vars = m.Vars
	st := storeOf(bal)
	stage = "resolve"
	if _, _, err := m.ResolveResources(context.Background(), st); err != nil {
		ob.Stage, ob.Class = "resolve", classify("resolve", err)
		return
	}
	stage = "balances"
	if err := m.ResolveBalances(context.Background(), st); err != nil {
		ob.Stage, ob.Class = "balances", classify("balances", err)
		return
	}
	stage = "run"
	res, err := vm.Run(m, rs)
	<-done
	if err != nil {
		ob.Stage, ob.Class = "run", classify("run", err)
		return
	}
	ob.Stage = "done"
	ob.Postings, ob.TxMeta, ob.AccMeta, ob.ResMeta = m.Postings, m.TxMeta, m.AccountsMeta, res.Metadata
	return
}

func coqRun(n *nsx.Names, ob runObs) string {
	switch {
	case ob.Panic != "":
		return "OPanic"
	case ob.Stage == "done":
		var ps, tm, am, pr []string
		for _, p := range ob.Postings {
			ps = append(ps, coqPosting(n, p.Source, p.Destination, p.Asset, (*big.Int)(p.Amount)))
		}
		for _, k := range vx.SortedKeys(ob.TxMeta) {
			tm = append(tm, "("+n.St(k)+", "+n.Value(ob.TxMeta[k])+")")
		}
		accs := map[string]map[string]machine.Value{}
		for a, m := range ob.AccMeta {
			accs[string(a)] = m
		}
		for _, a := range vx.SortedKeys(accs) {
			for _, k := range vx.SortedKeys(accs[a]) {
				am = append(am, "("+n.A(a)+", "+n.St(k)+", "+n.Value(accs[a][k])+")")
			}
		}
		for _, v := range ob.Printed {
			pr = append(pr, n.Value(v))
		}
		return fmt.Sprintf("(ODone {| res_posts := [%s]; res_txmeta := [%s]; res_accmeta := [%s]; res_printed := [%s] |})",
			strings.Join(ps, "; "), strings.Join(tm, "; "), strings.Join(am, "; "), strings.Join(pr, "; "))
	}
	return "(OErr " + ob.Class + ")"
}

// ---- kind: script ----------------------------------------------------------------------------------------------

// covered replays the request on the balance table: does every posting find its funds, earlier credits counting
func covered(ps []sPosting, bal map[string]map[string]string, unb bool) bool {
	cur := map[string]*big.Int{}
	get := func(a, s string) *big.Int {
		k := a + "\x00" + s
		if v, ok := cur[k]; ok {
			return v
		}
		b := big.NewInt(0)
		if v, ok := bal[a][s]; ok {
			if x, ok := new(big.Int).SetString(v, 10); ok {
				b = x
			}
		}
		cur[k] = b
		return b
	}
	for _, p := range ps {
		amt := amountOf(p)
		src, dst, as := string(p.Source), string(p.Destination), string(p.Asset)
		if src != "world" && !unb {
			avail := get(src, as)
			if avail.Sign() < 0 {
				avail = big.NewInt(0)
			}
			if amt.Cmp(avail) > 0 {
				return false
			}
		}
		cur[src+"\x00"+as] = new(big.Int).Sub(get(src, as), amt)
		cur[dst+"\x00"+as] = new(big.Int).Add(get(dst, as), amt)
	}
	return true
}

func samePosting(p vm.Posting, q sPosting) bool {
	return p.Source == string(q.Source) && p.Destination == string(q.Destination) && p.Asset == string(q.Asset) &&
		amountOf(q) != nil && (*big.Int)(p.Amount).Cmp(amountOf(q)) == 0
}

// how the committed postings differ from the request
func diffClass(got []vm.Posting, want []sPosting) string {
	if len(got) == len(want) {
		same := true
		for i := range got {
			same = same && samePosting(got[i], want[i])
		}
		if same {
			return ""
		}
		key := func(s, d, a string, z *big.Int) string { return s + "\x00" + d + "\x00" + a + "\x00" + z.String() }
		var g, w []string
		for _, p := range got {
			g = append(g, key(p.Source, p.Destination, p.Asset, (*big.Int)(p.Amount)))
		}
		for _, p := range want {
			w = append(w, key(string(p.Source), string(p.Destination), string(p.Asset), amountOf(p)))
		}
		sort.Strings(g)
		sort.Strings(w)
		if reflect.DeepEqual(g, w) {
			return "reordered"
		}
		return "re-attributed-or-amount"
	}
	if len(got) < len(want) {
		return "merged-or-dropped"
	}
	return "extra-postings"
}

func metaEqual(a, b metadata.Metadata) bool {
	if len(a) != len(b) {
		return false
	}
	for k, v := range a {
		if w, ok := b[k]; !ok || w != v {
			return false
		}
	}
	return true
}

func doScript(r *vx.Run, in input) {
	for _, p := range in.Postings {
		if amountOf(p) == nil {
			return // amounts are present in this kind (absent amounts: kinds validate and handler)
		}
	}
	size := len(in.Postings)
	txData := ledger.TransactionData{Postings: toPostings(in.Postings), Metadata: metaOf(in), Reference: in.Reference, Timestamp: tsAsParsed(in)}
	var rs ledger.RunScript
	pan := ""
	func() {
		defer func() {
			if x := recover(); x != nil {
				pan = fmt.Sprint(x)
			}
		}()
		rs = ledger.TxToScriptData(txData, in.Unbounded)
	}()
	if pan != "" {
		r.FailP("C09", "txtoscript:panic", in, pan, size)
		if allValid(in.Postings) && size > 0 {
			// RevertTransaction runs exactly this call on the reversed postings of the transaction (force = Unbounded)
			r.FailP("C10", "revert:panic-building-the-inverse", in, pan, size)
		}
		r.Case("", in, "", false)
		return
	}
	// glue: metadata, reference, timestamp pass through
	if rs.Reference != in.Reference || !rs.Timestamp.Equal(tsOf(in)) || !metaEqual(rs.Metadata, metaOf(in)) || rs.Metadata == nil {
		r.FailP("C09", "txtoscript:metadata-reference-timestamp-not-passed-through", in, fmt.Sprintf("%+v", rs), size)
	}
	for i, p := range txData.Postings { // the caller's slice is not modified
		if !samePostingL(p, in.Postings[i]) {
			r.FailP("C09", "txtoscript:modifies-request", in, "", size)
		}
	}
	ast := nsx.Parse(rs.Script.Plain)
	if ast == nil && len(in.Postings) > 0 {
		r.FailP("C09", "txtoscript:script-does-not-parse", in, rs.Script.Plain, size)
	}
	ob := runScript(rs, in.Balances)
	valid := allValid(in.Postings)
	r.Count("script:stage:" + ob.Stage)
	if len(in.Postings) > 0 {
		switch {
		case ob.Panic != "":
			r.FailP("C09", "run:panic:"+ob.Stage, in, ob.Panic, size)
		case ob.Stage == "done":
			if d := diffClass(ob.Postings, in.Postings); d != "" {
				r.FailP("C09", "exact:"+d, in, fmt.Sprintf("committed %v for request %v", showPostings(ob.Postings), in.Postings), size)
				if valid {
					// these postings read as the reversed postings of a committed transaction: this is the run its revert does
					r.FailP("C10", "revert:committed-postings-are-not-the-inverse:"+d, in, fmt.Sprintf("committed %v for inverse %v", showPostings(ob.Postings), in.Postings), size)
				}
			}
			if !metaEqual(ob.ResMeta, metaOf(in)) {
				r.FailP("C09", "metadata:not-passed-through", in, fmt.Sprintf("%v vs %v", ob.ResMeta, in.Metadata), size)
			}
			if diffClass(ob.Postings, in.Postings) == "" {
				committedJSON(r, in, in, rs, in.Postings, "direct")
			}
			if !valid {
				r.FailP("C09", "validation:invalid-posting-committed", in, "", size)
			} else if !covered(in.Postings, in.Balances, in.Unbounded) {
				r.FailP("C09", "funds:uncovered-posting-committed", in, "", size)
				r.FailP("C10", "revert:unforced-revert-overdraws", in, "", size)
			}
		default:
			if valid && covered(in.Postings, in.Balances, in.Unbounded) {
				r.FailP("C09", "rejection:valid-covered-request-rejected:"+ob.Stage+":"+ob.Class, in, "", size)
				r.FailP("C10", "revert:covered-inverse-refused:"+ob.Stage+":"+ob.Class, in, "", size)
			}
		}
	}
	if ast == nil {
		r.Case("", in, "", false)
		return
	}
	n := newNames(len(in.Postings))
	// intern the request first so that equal texts get equal numbers whatever the script mentions
	ps := coqPostings(n, txData.Postings)
	script := "(Some " + n.Script(ast) + ")"
	vars := "None"
	if ob.Vars != nil {
		var xs []string
		for _, k := range vx.SortedKeys(ob.Vars) {
			xs = append(xs, "("+n.V(k)+", "+n.Value(ob.Vars[k])+")")
		}
		vars = "(Some " + vx.CoqList(xs) + ")"
	}
	var bal, extra []string
	for _, a := range vx.SortedKeys(in.Balances) {
		for _, s := range vx.SortedKeys(in.Balances[a]) {
			if b, ok := new(big.Int).SetString(in.Balances[a][s], 10); ok {
				bal = append(bal, fmt.Sprintf("(%s, %s, %s)", n.A(a), n.S(s), nsx.Z(b)))
			}
		}
	}
	for _, k := range vx.SortedKeys(in.Metadata) {
		extra = append(extra, n.St(k))
	}
	prog := "None"
	if ob.Prog != nil {
		prog = "(Some " + n.Program(ob.Prog) + ")"
	}
	c := fmt.Sprintf("PCScript %s\n  %s %s\n  %s\n  %s\n  {| st_bal := %s; st_meta := []; st_parse := [] |} %s\n  %s\n  %s",
		coqSPostings(in.Postings), ps, vx.CoqBool(in.Unbounded), script, vars, vx.CoqList(bal), vx.CoqList(extra), prog, coqRun(n, ob))
	key, _ := json.Marshal(in)
	r.Case(c, in, string(key), ob.Stage == "done" || ob.Class == "EInsufficient")
}

// plenty: every ordinary source holds the sum of everything the request takes from it
func plenty(ps []sPosting) map[string]map[string]string {
	need := map[string]map[string]*big.Int{}
	for _, p := range ps {
		a := amountOf(p)
		if a == nil || string(p.Source) == "world" {
			continue
		}
		if need[string(p.Source)] == nil {
			need[string(p.Source)] = map[string]*big.Int{}
		}
		cur := need[string(p.Source)][string(p.Asset)]
		if cur == nil {
			cur = big.NewInt(0)
		}
		need[string(p.Source)][string(p.Asset)] = new(big.Int).Add(cur, new(big.Int).Abs(a))
	}
	out := map[string]map[string]string{}
	for a, m := range need {
		out[a] = map[string]string{}
		for s, v := range m {
			out[a][s] = v.String()
		}
	}
	return out
}

// committedJSON: the transaction the engine builds from a RunScript and the postings of the run (commander.exec:
// WithPostings / WithMetadata / WithDate / WithReference), through the REAL JSON encoding of the API response
// (Transaction) and of the log payload InsertLogs writes (NewTransactionLogPayload, read back with HydrateLog):
// decoded again it must carry the requested instant, reference, metadata and postings. Instants are compared with
// time.Time.Equal on parsed values, never as text.
func committedJSON(r *vx.Run, in input, req input, rs ledger.RunScript, posts []sPosting, via string) {
	ps := toPostings(posts)
	for _, p := range ps {
		if p.Amount == nil {
			return
		}
	}
	tx := ledger.NewTransaction().WithPostings(ps...).WithMetadata(rs.Metadata).WithDate(rs.Timestamp).WithIDUint64(0).WithReference(rs.Reference)
	check := func(form string, back *ledger.Transaction) {
		size := len(posts)
		if req.Timestamp != "" && !back.Timestamp.Time.Equal(tsOf(req).Time) {
			r.FailP("C09", "committed-json:"+via+":"+form+":timestamp-is-another-instant:"+zoneClass(req), in,
				fmt.Sprintf("requested %s, the encoded transaction reads %s", req.Timestamp, back.Timestamp.Time.Format(time.RFC3339Nano)), size)
		}
		if back.Reference != req.Reference {
			r.FailP("C09", "committed-json:"+form+":reference-changed:"+via, in, back.Reference, size)
		}
		if !metaEqual(back.Metadata, metaOf(req)) {
			r.FailP("C09", "committed-json:"+form+":metadata-changed:"+via, in, fmt.Sprint(back.Metadata), size)
		}
		same := len(back.Postings) == len(posts)
		for i := 0; same && i < len(posts); i++ {
			same = samePostingL(back.Postings[i], posts[i])
		}
		if !same {
			r.FailP("C09", "committed-json:"+form+":postings-changed:"+via, in, fmt.Sprint(back.Postings), size)
		}
	}
	if b, err := json.Marshal(tx); err == nil {
		var back ledger.Transaction
		if err := json.Unmarshal(b, &back); err != nil {
			r.FailP("C09", "committed-json:response:not-readable:"+zoneClass(req)+":"+via, in, err.Error()+" "+string(b), len(posts))
		} else {
			check("response", &back)
		}
	}
	log := ledger.NewTransactionLog(tx, map[string]metadata.Metadata{})
	if b, err := json.Marshal(log.Data); err == nil {
		pl, err := ledger.HydrateLog(ledger.NewTransactionLogType, b)
		if err != nil {
			r.FailP("C09", "committed-json:log-payload:not-readable:"+zoneClass(req)+":"+via, in, err.Error()+" "+string(b), len(posts))
		} else if np, ok := pl.(ledger.NewTransactionLogPayload); ok && np.Transaction != nil {
			check("log", np.Transaction)
		} else if np, ok := pl.(*ledger.NewTransactionLogPayload); ok && np.Transaction != nil {
			check("log", np.Transaction)
		}
	}
}

// backendRun: the RunScript the backend received for a valid posting request, run by the real compiler and machine on
// balances that cover it, must commit exactly the postings of the REQUEST (the handler oracle otherwise only compares
// with TxToScriptData, which is itself under test)
func backendRun(r *vx.Run, in input, req input, rs ledger.RunScript, via string) {
	if len(req.Postings) == 0 || !allValid(req.Postings) {
		return
	}
	ob := runScript(rs, plenty(req.Postings))
	size := len(req.Postings)
	switch {
	case ob.Panic != "":
		r.FailP("C09", via+":run-of-received-script:panic", in, ob.Panic, size)
	case ob.Stage != "done":
		r.FailP("C09", via+":run-of-received-script:covered-request-rejected:"+ob.Stage+":"+ob.Class, in, "", size)
	default:
		if d := diffClass(ob.Postings, req.Postings); d != "" {
			r.FailP("C09", via+":run-of-received-script:exact:"+d, in, fmt.Sprintf("committed %v for request %v", showPostings(ob.Postings), req.Postings), size)
		}
	}
}

func samePostingL(p ledger.Posting, q sPosting) bool {
	return p.Source == string(q.Source) && p.Destination == string(q.Destination) && p.Asset == string(q.Asset) &&
		(p.Amount == nil) == (amountOf(q) == nil) && (p.Amount == nil || p.Amount.Cmp(amountOf(q)) == 0)
}

func showPostings(ps []vm.Posting) string {
	var xs []string
	for _, p := range ps {
		xs = append(xs, fmt.Sprintf("%s->%s %s %s", p.Source, p.Destination, (*big.Int)(p.Amount), p.Asset))
	}
	return "[" + strings.Join(xs, ", ") + "]"
}

// ---- kind: validate / string -----------------------------------------------------------------------------------

func doValidate(r *vx.Run, in input) {
	ps := toPostings(in.Postings)
	idx, bad, pan := -1, false, ""
	func() {
		defer func() {
			if x := recover(); x != nil {
				pan = fmt.Sprint(x)
			}
		}()
		i, err := ps.Validate()
		if err != nil {
			idx, bad = i, true
		}
	}()
	if pan != "" {
		cause := "other"
		for _, p := range in.Postings {
			if p.Amount == nil {
				cause = "absent-amount"
			}
		}
		r.FailP("C09", "validate:panic:"+cause, in, pan, len(in.Postings))
		r.Case("", in, "", false)
		return
	}
	want := -1
	for i, p := range in.Postings {
		if !validPosting(p) {
			want = i
			break
		}
	}
	if want != idx {
		r.FailP("C09", "validate:first-invalid-index", in, fmt.Sprintf("Validate says %d (%v), postings say %d", idx, bad, want), len(in.Postings))
	}
	key, _ := json.Marshal(in)
	r.Case(fmt.Sprintf("PCValidate %s %s", coqSPostings(in.Postings), vx.CoqOpt(vx.CoqNat(idx), bad)), in, string(key), bad)
}

func doString(r *vx.Run, in input) {
	s := string(in.Str)
	key, _ := json.Marshal(in)
	if in.StrKind == "asset" {
		ok := ledger.AssetIsValid(s)
		if (machine.ValidateAsset(machine.Asset(s)) == nil) != ok {
			r.FailP("C09", "validate:api-and-machine-disagree:asset", in, "", len(s))
		}
		r.Case(fmt.Sprintf("PCAsset %s %s", vx.CoqString(s), vx.CoqBool(ok)), in, string(key), ok)
		return
	}
	ok := ledger.ValidateAddress(s)
	if (machine.ValidateAccountAddress(machine.AccountAddress(s)) == nil) != ok {
		r.FailP("C09", "validate:api-and-machine-disagree:address", in, "", len(s))
	}
	r.Case(fmt.Sprintf("PCAddress %s %s", vx.CoqString(s), vx.CoqBool(ok)), in, string(key), ok)
}

// ---- kind: reverse ---------------------------------------------------------------------------------------------

func doReverse(r *vx.Run, in input) {
	for _, p := range in.Postings {
		if amountOf(p) == nil {
			return
		}
	}
	orig := toPostings(in.Postings)
	td := ledger.TransactionData{Postings: orig, Metadata: metaOf(in), Reference: in.Reference, Timestamp: tsOf(in)}
	rt := td.Reverse()
	n := len(orig)
	bad := len(rt.Postings) != n
	for i := 0; !bad && i < n; i++ {
		o, v := in.Postings[n-1-i], rt.Postings[i]
		if v.Source != string(o.Destination) || v.Destination != string(o.Source) || v.Asset != string(o.Asset) || v.Amount.Cmp(amountOf(o)) != 0 {
			bad = true
		}
	}
	if bad {
		r.FailP("C09", "reverse:not-swapped-reversed", in, fmt.Sprintf("%v", rt.Postings), n)
		r.FailP("C10", "reverse:not-swapped-reversed", in, fmt.Sprintf("%v", rt.Postings), n)
	}
	for i, p := range orig {
		if !samePostingL(p, in.Postings[i]) {
			r.FailP("C09", "reverse:modifies-original", in, "", n)
			r.FailP("C10", "reverse:modifies-original", in, "", n)
			break
		}
	}
	// the in-place form
	cp := toPostings(in.Postings)
	cp.Reverse()
	if !reflect.DeepEqual(fmt.Sprint(cp), fmt.Sprint(rt.Postings)) {
		r.FailP("C09", "reverse:in-place-and-copy-differ", in, "", n)
	}
	ns := newNames(0)
	ps := coqPostings(ns, orig)
	key, _ := json.Marshal(in)
	r.Case(fmt.Sprintf("PCReverse %s %s", ps, coqPostings(ns, rt.Postings)), in, string(key), n > 1)
}

// ---- kind: handler ---------------------------------------------------------------------------------------------

// txBody is the JSON of one create-transaction request
func txBody(in input) []byte {
	body := map[string]any{}
	if in.Postings != nil {
		var ps []map[string]any
		for _, p := range in.Postings {
			m := map[string]any{"source": string(p.Source), "destination": string(p.Destination), "asset": string(p.Asset)}
			if a := amountOf(p); a != nil {
				m["amount"] = json.RawMessage(a.String())
			}
			ps = append(ps, m)
		}
		body["postings"] = ps
	}
	if in.Script != nil {
		body["script"] = map[string]any{"plain": *in.Script}
	}
	if in.Metadata != nil {
		body["metadata"] = in.Metadata
	}
	if in.Reference != "" {
		body["reference"] = in.Reference
	}
	if in.Timestamp != "" {
		body["timestamp"] = in.Timestamp
	}
	b, _ := json.Marshal(body)
	return b
}

func requestBody(in input) []byte {
	b := txBody(in)
	if in.API == "bulk" {
		b, _ = json.Marshal([]map[string]any{{"action": "CREATE_TRANSACTION", "data": json.RawMessage(b)}})
	}
	return b
}

// matchCall: is the RunScript the backend received the one this request alone defines? Returns the model's outcome
// (HPostings / HScript) or "" with the field that differs.
func matchCall(in input, got ledger.RunScript) (res, differs string) {
	if len(in.Postings) > 0 {
		want := ledger.TxToScriptData(ledger.TransactionData{Postings: toPostings(in.Postings), Metadata: metaOf(in), Reference: in.Reference, Timestamp: tsOf(in)}, false)
		switch {
		case got.Plain != want.Plain || !reflect.DeepEqual(got.Vars, want.Vars):
			return "", "postings"
		case got.Reference != want.Reference:
			return "", "reference"
		case !got.Timestamp.Equal(want.Timestamp):
			return "", "timestamp"
		case !metaEqual(got.Metadata, want.Metadata):
			return "", "metadata"
		}
		return "HPostings", ""
	}
	plain := ""
	if in.Script != nil {
		plain = *in.Script
	}
	switch {
	case got.Plain != plain || len(got.Vars) != 0:
		return "", "script"
	case got.Reference != in.Reference:
		return "", "reference"
	case !got.Timestamp.Equal(tsOf(in)):
		return "", "timestamp"
	case !metaEqual(got.Metadata, metaOf(in)):
		return "", "metadata"
	}
	return "HScript", ""
}

// ---- kind: bulk: several CREATE_TRANSACTION elements in one request; each must reach the backend as its own request ----

func doBulk(r *vx.Run, in input) {
	for _, e := range in.Elements {
		for _, p := range e.Postings {
			if !utf8.ValidString(string(p.Source)) || !utf8.ValidString(string(p.Destination)) || !utf8.ValidString(string(p.Asset)) {
				return
			}
		}
	}
	var els []map[string]any
	for _, e := range in.Elements {
		els = append(els, map[string]any{"action": "CREATE_TRANSACTION", "data": json.RawMessage(txBody(e))})
	}
	body, _ := json.Marshal(els)
	l := &fakeapi.Ledger{}
	router := v2.NewRouter(&fakeapi.Backend{L: l}, &health.HealthController{}, metrics.NewNoOpRegistry(), auth.NewNoAuth())
	req := httptest.NewRequest(http.MethodPost, "/l0/_bulk", bytes.NewReader(body))
	rec := httptest.NewRecorder()
	pan := ""
	func() {
		defer func() {
			if x := recover(); x != nil {
				pan = fmt.Sprint(x)
			}
		}()
		router.ServeHTTP(rec, req)
	}()
	size := len(in.Elements)
	if pan != "" || rec.Code >= 500 {
		r.FailP("C09", "bulk:crash", in, fmt.Sprintf("status %d panic %q", rec.Code, pan), size)
		r.Case("", in, "", false)
		return
	}
	if len(l.Writes) != len(in.Elements) {
		r.FailP("C09", "bulk:one-backend-call-per-create-element", in, fmt.Sprintf("%d calls for %d elements (status %d)", len(l.Writes), len(in.Elements), rec.Code), size)
		r.Case("", in, "", false)
		return
	}
	key, _ := json.Marshal(in)
	for i, e := range in.Elements {
		w := l.Writes[i]
		if w.Kind != "CREATE_TRANSACTION" || w.Script == nil {
			r.FailP("C09", "bulk:element-causes-another-write", in, fmt.Sprintf("element %d: %s", i, w.Kind), size)
			continue
		}
		res, differs := matchCall(e, *w.Script)
		if res == "" {
			prev := "first-element"
			if i > 0 {
				prev = "later-element"
			}
			r.FailP("C09", "bulk:element-reaches-backend-as-other-than-its-own-request:"+differs+":"+prev, in,
				fmt.Sprintf("element %d of %d: backend received %+v", i, len(in.Elements), *w.Script), size)
			continue
		}
		backendRun(r, in, e, *w.Script, "bulk")
		committedJSON(r, in, e, *w.Script, e.Postings, "bulk")
		hasScript := e.Script != nil && *e.Script != ""
		r.Case(fmt.Sprintf("PCHandler ApiBulk %s %s %s", coqSPostings(e.Postings), vx.CoqBool(hasScript), res), in,
			fmt.Sprintf("%s#%d", key, i), res == "HPostings")
	}
}

func doHandler(r *vx.Run, in input) {
	for _, p := range in.Postings {
		if !utf8.ValidString(string(p.Source)) || !utf8.ValidString(string(p.Destination)) || !utf8.ValidString(string(p.Asset)) {
			return // JSON cannot carry it unchanged
		}
	}
	l := &fakeapi.Ledger{}
	var router http.Handler
	url := "/l0/transactions"
	switch in.API {
	case "v1":
		router = v1.NewRouter(&fakeapi.Backend{L: l}, &health.HealthController{}, metrics.NewNoOpRegistry(), auth.NewNoAuth())
	case "bulk":
		url = "/l0/_bulk"
		fallthrough
	default:
		router = v2.NewRouter(&fakeapi.Backend{L: l}, &health.HealthController{}, metrics.NewNoOpRegistry(), auth.NewNoAuth())
	}
	req := httptest.NewRequest(http.MethodPost, url, bytes.NewReader(requestBody(in)))
	rec := httptest.NewRecorder()
	pan := ""
	func() {
		defer func() {
			if x := recover(); x != nil {
				pan = fmt.Sprint(x)
			}
		}()
		router.ServeHTTP(rec, req)
	}()
	size := len(in.Postings)
	hasScript := in.Script != nil && *in.Script != ""
	cause := "valid"
	if !allValid(in.Postings) {
		cause = "invalid-posting"
		for _, p := range in.Postings {
			if p.Amount == nil {
				cause = "absent-amount"
			}
		}
	}
	res := ""
	switch {
	case pan != "" || rec.Code >= 500:
		r.FailP("C09", "handler:"+in.API+":crash:"+cause, in, fmt.Sprintf("status %d panic %q", rec.Code, pan), size)
	case len(l.Writes) == 0 && rec.Code == 400:
		res = "HReject"
	case len(l.Writes) == 1 && l.Writes[0].Kind == "CREATE_TRANSACTION" && l.Writes[0].Script != nil:
		var differs string
		res, differs = matchCall(in, *l.Writes[0].Script)
		if res == "" && len(in.Postings) > 0 {
			r.FailP("C09", "handler:"+in.API+":backend-receives-other-than-TxToScriptData-of-request", in, fmt.Sprintf("%s differs: got %+v", differs, *l.Writes[0].Script), size)
		} else if res == "" {
			r.FailP("C09", "handler:"+in.API+":script-request-altered", in, fmt.Sprintf("%s differs: got %+v", differs, *l.Writes[0].Script), size)
		}
	default:
		r.FailP("C09", "handler:"+in.API+":unexpected-calls-or-status:"+cause, in, fmt.Sprintf("status %d writes %d", rec.Code, len(l.Writes)), size)
	}
	// oracle: an invalid posting never reaches the engine through v1
	if in.API == "v1" && res == "HPostings" && !allValid(in.Postings) {
		r.FailP("C09", "handler:v1:invalid-posting-reaches-backend", in, "", size)
	}
	if res == "HPostings" || res == "HScript" {
		backendRun(r, in, in, *l.Writes[0].Script, "handler:"+in.API)
		committedJSON(r, in, in, *l.Writes[0].Script, in.Postings, "handler:"+in.API)
	}
	r.Count("handler:" + in.API + ":" + res)
	if res == "" {
		r.Case("", in, "", false)
		return
	}
	api := map[string]string{"v1": "ApiV1", "v2": "ApiV2", "bulk": "ApiBulk"}[in.API]
	if api == "" {
		api = "ApiV2"
	}
	key, _ := json.Marshal(in)
	r.Case(fmt.Sprintf("PCHandler %s %s %s %s", api, coqSPostings(in.Postings), vx.CoqBool(hasScript), res), in, string(key), res == "HPostings")
}

// ---- generators --------------------------------------------------------------------------------------------------

var goodAcc = []string{"world", "world", "a", "b", "c", "users:001", "users:002", "bank", "a-b:c_d", "A_1", "x:y:z", "0", "_", "orders:1234:payment-1", "world1", "worl",
	"World", "WORLD", "wORLD", "world:x", "worldx", "xworld", "x:world"}
var nearWorld = []string{"World", "WORLD", "wORLD", "wOrld", "world:x", "worldx", "xworld", "x:world", "world_", "worlD"}
var badAcc = []string{"", "a:", ":a", "a--b", "a b", "a:-b", "a-", "-a", "é", "a::b", "wor ld", "$x", "a\nb", "a.b", "@a", "a:b:", " world", "world "}
var rawAcc = []string{"a\xffb", "\x00", "a\x80"}
var goodAsset = []string{"USD", "USD", "EUR/2", "A", "ABCDEFGHIJKLMNOPQ", "X9/123456", "COIN", "USD/0", "B2"}
var badAsset = []string{"usd", "USD/", "USD/1234567", "ABCDEFGHIJKLMNOPQR", "", "US D", "USD ", "1USD", "USD/2/3", "USD 1", " USD", "U$D", "USD/a", "É", "USD\n", "/2"}
var amtPool = []string{"0", "0", "1", "2", "3", "5", "5", "5", "10", "10", "50", "100", "100", "999", "18446744073709551616", "18446744073709551617", "340282366920938463463374607431768211456", "1000000000000000000000000000000"}

// assets that are prefixes of one another with digit tails, amounts that are short digit strings: the texts
// asset+amount, amount+asset of different (asset, amount) pairs coincide often (USD,12 / USD1,2; USD/2,10 / USD/21,0)
var prefixAssets = [][]string{{"USD", "USD1", "USD12", "USD11"}, {"USD/2", "USD/21", "USD/211", "USD/1"}, {"A", "A1", "A11", "A2", "A21"}}
var digitAmounts = []string{"0", "1", "2", "10", "11", "12", "21", "112", "110", "211"}

type gen struct{ r *vx.Rng }

// collidingPostings: every posting funded from @world or from what came before; several (asset, amount) pairs whose
// concatenated texts collide
func (g *gen) collidingPostings(n int) []sPosting {
	fam := prefixAssets[g.r.Intn(len(prefixAssets))]
	accs := []string{"world", "a", "b", "c"}
	var ps []sPosting
	for i := 0; i < n; i++ {
		amt := g.pick(digitAmounts)
		src := "world"
		if g.r.Chance(1, 4) {
			src = accs[g.r.Intn(len(accs))]
		}
		ps = append(ps, sPosting{Source: bstr(src), Destination: bstr(accs[g.r.Intn(len(accs))]), Asset: bstr(g.pick(fam)), Amount: &amt})
	}
	if g.r.Chance(2, 3) { // a pair built to collide: (base, d1 d2 ..) and (base d1, d2 ..)
		base := g.pick([]string{"USD", "USD/", "A", "EUR/1", "X9"})
		tail := g.pick([]string{"12", "21", "110", "112", "10", "205"})
		k := 1 + g.r.Intn(len(tail)-1)
		if base == "USD/" {
			base, tail = "USD/2", tail
		}
		a1, a2 := tail, tail[k:]
		if len(a2) > 1 && a2[0] == '0' {
			a2 = "0"
			a1 = tail[:k] + "0"
		}
		p1 := sPosting{Source: "world", Destination: bstr(accs[1+g.r.Intn(3)]), Asset: bstr(base), Amount: &a1}
		p2 := sPosting{Source: "world", Destination: bstr(accs[1+g.r.Intn(3)]), Asset: bstr(base + tail[:k]), Amount: &a2}
		at := g.r.Intn(len(ps) + 1)
		ps = append(ps[:at:at], append([]sPosting{p1}, ps[at:]...)...)
		at2 := at + 1 + g.r.Intn(len(ps)-at)
		ps = append(ps[:at2:at2], append([]sPosting{p2}, ps[at2:]...)...)
	}
	return ps
}

func (g *gen) pick(xs []string) string { return xs[g.r.Intn(len(xs))] }

// postings: n entries over k accounts; badRate: 1 in badRate fields malformed (0 = none); raw: allow non-UTF-8
func (g *gen) postings(n, k, badRate int, raw, allowNil bool) []sPosting {
	accs := []string{"world"}
	for len(accs) < k+1 {
		if len(accs) < 8 {
			a := g.pick(goodAcc)
			accs = append(accs, a)
		} else {
			accs = append(accs, fmt.Sprintf("acc:%d", len(accs)))
		}
	}
	assets := []string{g.pick(goodAsset)}
	if g.r.Chance(1, 3) {
		assets = append(assets, g.pick(goodAsset))
	}
	amts := []string{g.pick(amtPool), g.pick(amtPool), g.pick(amtPool)}
	var ps []sPosting
	last := ""
	for i := 0; i < n; i++ {
		var src, dst string
		switch {
		case last != "" && g.r.Chance(2, 5): // chain: spend what the previous posting delivered
			src = last
		case g.r.Chance(1, 4):
			src = "world"
		default:
			src = accs[g.r.Intn(len(accs))]
		}
		switch {
		case g.r.Chance(1, 12):
			dst = src // self-transfer
		case g.r.Chance(1, 10):
			dst = "world"
		default:
			dst = accs[g.r.Intn(len(accs))]
		}
		if k > 8 && i < k { // many distinct accounts: numbering past va9
			dst = accs[1+i%k]
		}
		// ordinary accounts whose address is "world" up to letter case, or contains it: never the world account
		if g.r.Chance(1, 8) {
			src = g.pick(nearWorld)
		}
		if g.r.Chance(1, 8) {
			dst = g.pick(nearWorld)
		}
		amt := g.pick(amts)
		if g.r.Chance(1, 4) {
			amt = g.pick(amtPool)
		}
		p := sPosting{Source: bstr(src), Destination: bstr(dst), Asset: bstr(g.pick(assets)), Amount: &amt}
		if badRate > 0 {
			if g.r.Intn(badRate) == 0 {
				p.Source = bstr(g.pick(badAcc))
			}
			if g.r.Intn(badRate) == 0 {
				p.Destination = bstr(g.pick(badAcc))
			}
			if g.r.Intn(badRate) == 0 {
				p.Asset = bstr(g.pick(badAsset))
			}
			if g.r.Intn(badRate) == 0 {
				neg := "-" + g.pick(amtPool[2:])
				p.Amount = &neg
			}
			if raw && g.r.Intn(badRate*2) == 0 {
				p.Destination = bstr(g.pick(rawAcc))
			}
			if allowNil && g.r.Intn(badRate) == 0 {
				p.Amount = nil
			}
		}
		last = string(p.Destination)
		ps = append(ps, p)
	}
	return ps
}

// a balance table that makes the outcome interesting: per (source, asset) exactly enough, one short, plenty, nothing, negative
func (g *gen) balances(ps []sPosting) map[string]map[string]string {
	need := map[string]map[string]*big.Int{}
	for _, p := range ps {
		a := amountOf(p)
		if a == nil || string(p.Source) == "world" {
			continue
		}
		if need[string(p.Source)] == nil {
			need[string(p.Source)] = map[string]*big.Int{}
		}
		cur := need[string(p.Source)][string(p.Asset)]
		if cur == nil {
			cur = big.NewInt(0)
		}
		need[string(p.Source)][string(p.Asset)] = new(big.Int).Add(cur, new(big.Int).Abs(a))
	}
	out := map[string]map[string]string{}
	set := func(a, s, v string) {
		if out[a] == nil {
			out[a] = map[string]string{}
		}
		out[a][s] = v
	}
	mode := g.r.Intn(4) // 0: all plenty, 1: mixed, 2: mixed, 3: all exact
	for _, a := range vx.SortedKeys(need) {
		for _, s := range vx.SortedKeys(need[a]) {
			tot := need[a][s]
			c := g.r.Intn(8)
			if mode == 0 {
				c = 0
			} else if mode == 3 {
				c = 1
			}
			switch c {
			case 0:
				set(a, s, new(big.Int).Add(tot, big.NewInt(int64(g.r.Intn(100)))).String())
			case 1, 2:
				set(a, s, tot.String())
			case 3:
				set(a, s, new(big.Int).Sub(tot, big.NewInt(1)).String())
			case 4: // absent
			case 5:
				set(a, s, "-"+g.pick(amtPool[2:10]))
			case 6:
				set(a, s, g.pick(amtPool))
			case 7:
				set(a, s, "0")
			}
		}
	}
	if g.r.Chance(1, 5) {
		set("world", "USD", g.pick([]string{"-1000", "7", "0"}))
	}
	if g.r.Chance(1, 6) {
		set("bystander", "USD", "42")
	}
	return out
}

func (g *gen) envelope(in *input) {
	if g.r.Chance(1, 2) {
		in.Metadata = map[string]string{}
		for i := g.r.Intn(3); i > 0; i-- {
			in.Metadata[g.pick([]string{"k", "order", "note", "a b"})] = g.pick([]string{"v", "", "42", "x y"})
		}
	}
	if g.r.Chance(1, 2) {
		in.Reference = g.pick([]string{"ref-1", "r", "order:42"})
	}
	if g.r.Chance(1, 2) {
		in.Timestamp = g.pick([]string{"2023-01-02T03:04:05Z", "2021-12-31T23:59:59.123456Z", "2024-02-29T12:00:00+02:00",
			"2023-03-04T10:00:00+02:00", "2023-03-04T10:00:00.123456+02:00", "2022-07-01T23:30:00-05:00", "2022-07-01T23:30:00.5-05:00",
			"2024-02-29T12:00:00.000001+05:30", "1999-12-31T23:59:59.999999-11:00", "2023-06-15T00:00:00+00:00", "2023-06-15T08:15:00.25Z"})
	}
}

func (g *gen) scriptCase(i int) input {
	n := 1 + g.r.Intn(6)
	k := 1 + g.r.Intn(4)
	bad := 0
	switch {
	case i%10 == 7: // long lists over many accounts: variable numbering past va9 / vm9
		k = 9 + g.r.Intn(16)
		n = k + g.r.Intn(6)
	case i%10 == 3:
		bad = 6
	case i%10 == 5:
		n = 1
	}
	in := input{Kind: "script", Postings: g.postings(n, k, bad, bad > 0, false), Unbounded: g.r.Chance(1, 4)}
	if i%10 == 1 || i%10 == 9 {
		in.Postings = g.collidingPostings(2 + g.r.Intn(4))
	}
	if i%10 == 7 && g.r.Bool() { // many distinct amounts as well
		for j := range in.Postings {
			a := fmt.Sprint(j + 1)
			in.Postings[j].Amount = &a
		}
	}
	in.Balances = g.balances(in.Postings)
	g.envelope(&in)
	return in
}

func enumerate(alpha string, maxLen int, f func(string)) {
	var rec func(prefix string)
	rec = func(prefix string) {
		f(prefix)
		if len(prefix) == maxLen {
			return
		}
		for i := 0; i < len(alpha); i++ {
			rec(prefix + alpha[i:i+1])
		}
	}
	rec("")
}

func one(r *vx.Run, in input) {
	r.Count("kind:" + in.Kind)
	switch in.Kind {
	case "script":
		doScript(r, in)
	case "validate":
		doValidate(r, in)
	case "string":
		doString(r, in)
	case "reverse":
		doReverse(r, in)
	case "handler":
		doHandler(r, in)
	case "bulk":
		doBulk(r, in)
	}
}

func main() {
	// chi's Recoverer prints a stack trace per recovered panic to file descriptor 2; the outcome is observed through the status
	if null, err := os.OpenFile(os.DevNull, os.O_WRONLY, 0); err == nil {
		_ = syscall.Dup3(int(null.Fd()), 2, 0)
	}
	r := vx.Start("C09", "posting")
	r.Sum.Shards = []string{} // a replay that only fails the oracle emits no Coq case: keep the JSON member a list
	r.Cases("From FL Require Import Numscript.Corr Posting.Model.\nClose Scope Z_scope.\nOpen Scope nat_scope.\n", "pcase", 300)
	r.Sum.Rule = "posting lists (1..30 postings over 1..25 accounts: repeated accounts and amounts, @world on either side, self-transfers, " +
		"chains spending what an earlier posting delivered, zero and >64-bit amounts, every valid address/asset form and a malformed stream) x " +
		"balance tables (exact, one short, absent, negative, plenty) x forced/unforced, through the real TxToScriptData, parser, compiler and " +
		"machine; Postings.Validate / ValidateAddress / AssetIsValid on raw strings (short strings exhaustively); Postings.Reverse; the real v1, " +
		"v2 and bulk create-transaction handlers with a recording backend; non-trivial = the run committed or ended with insufficient funds / " +
		"the string is accepted / the backend was called with postings; distinct by the JSON of the input"
	docs, replayOnly := r.Inputs()
	for _, d := range docs {
		var in input
		if err := json.Unmarshal(d, &in); err == nil && in.Kind != "" {
			one(r, in)
		}
	}
	if replayOnly {
		r.Finish()
		return
	}
	nScript, nVal, nRev, nHandler, nBulk, enumLen, nRand := 700, 300, 150, 450, 150, 3, 400
	if r.Thorough() {
		nScript, nVal, nRev, nHandler, nBulk, enumLen, nRand = 16000, 4000, 1500, 6000, 2500, 5, 6000
	}
	root := vx.NewRng(r.Seed)
	for i := 0; i < nScript; i++ {
		g := &gen{root.Fork()}
		one(r, g.scriptCase(i))
	}
	for i := 0; i < nVal; i++ {
		g := &gen{root.Fork()}
		one(r, input{Kind: "validate", Postings: g.postings(1+g.r.Intn(5), 3, 5+g.r.Intn(12), true, true)})
	}
	for i := 0; i < nRev; i++ {
		g := &gen{root.Fork()}
		n := g.r.Intn(8)
		if i%5 == 4 { // long lists: 11..40 postings over many accounts (a library sort is exact only on short slices)
			n = []int{11, 12, 13, 14, 15, 16, 20, 25, 33, 40}[(i/5)%10]
		}
		in := input{Kind: "reverse", Postings: g.postings(n, 4+n/2, 0, false, false)}
		g.envelope(&in)
		one(r, in)
	}
	for i := 0; i < nHandler; i++ {
		g := &gen{root.Fork()}
		in := input{Kind: "handler", API: []string{"v1", "v2", "bulk"}[i%3]}
		if !g.r.Chance(1, 6) {
			bad := 0
			if g.r.Chance(1, 2) {
				bad = 4 + g.r.Intn(10)
			}
			in.Postings = g.postings(1+g.r.Intn(4), 3, bad, false, true)
		} else if g.r.Bool() {
			in.Postings = []sPosting{}
		}
		if g.r.Chance(1, 4) {
			s := g.pick([]string{"send [USD 1] (\n source = @world\n destination = @a\n)", "", "vars { account $a }\nsend [USD 1] (source=@world destination=$a)"})
			in.Script = &s
		}
		g.envelope(&in)
		one(r, in)
	}
	for i := 0; i < nBulk; i++ {
		g := &gen{root.Fork()}
		in := input{Kind: "bulk"}
		for k := 2 + g.r.Intn(3); k > 0; k-- {
			e := input{}
			switch g.r.Intn(5) {
			case 0: // a script element
				sc := g.pick([]string{"send [USD 1] (\n source = @world\n destination = @a\n)", "vars { account $a }\nsend [USD 1] (source=@world destination=$a)"})
				e.Script = &sc
			case 1: // neither
			default:
				e.Postings = g.postings(1+g.r.Intn(3), 3, 0, false, false)
			}
			g.envelope(&e) // metadata, reference, timestamp independently present or absent
			in.Elements = append(in.Elements, e)
		}
		one(r, in)
	}
	// addresses and assets: every short string over the characters that matter, boundary lengths, random long ones
	enumerate("aZ0_-: ", enumLen, func(s string) { one(r, input{Kind: "string", StrKind: "address", Str: bstr(s)}) })
	enumerate("AZ09/a ", enumLen, func(s string) { one(r, input{Kind: "string", StrKind: "asset", Str: bstr(s)}) })
	for body := 0; body <= 19; body++ {
		for digits := -1; digits <= 8; digits++ {
			s := "A" + strings.Repeat("B9", body)[:body]
			if digits >= 0 {
				s += "/" + strings.Repeat("0123456789", 1)[:digits]
			}
			one(r, input{Kind: "string", StrKind: "asset", Str: bstr(s)})
		}
	}
	for _, s := range append(append(append([]string{}, goodAcc...), badAcc...), rawAcc...) {
		one(r, input{Kind: "string", StrKind: "address", Str: bstr(s)})
	}
	for _, s := range append(append([]string{}, goodAsset...), badAsset...) {
		one(r, input{Kind: "string", StrKind: "asset", Str: bstr(s)})
	}
	g := &gen{root.Fork()}
	for i := 0; i < nRand; i++ {
		n := 1 + g.r.Intn(40)
		var b []byte
		kind := []string{"address", "asset"}[i%2]
		alpha := "abzAZ059__--::"
		if kind == "asset" {
			alpha = "ABZ0199///"
		}
		for j := 0; j < n; j++ {
			if g.r.Chance(1, 30) {
				b = append(b, byte(g.r.Intn(256)))
			} else {
				b = append(b, alpha[g.r.Intn(len(alpha))])
			}
		}
		one(r, input{Kind: "string", StrKind: kind, Str: bstr(b)})
	}
	r.Finish()
}
