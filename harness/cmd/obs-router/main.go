// obs-router drives the REAL api.NewRouter of the working tree (chi mux, ReadOnly middleware, v1 and v2 routers,
// their middlewares and controllers) over a recording backend, once built with readOnly=true and once with
// readOnly=false, on every registered route x every method x variants and on seeded random requests.
//
// Oracle (C19, stated on the observables): while the router built with readOnly=true serves a request, the
// recording backend.Ledger sees no CreateTransaction / RevertTransaction / SaveMeta / DeleteMetadata call.
//
// Every request is also written as a Coq case for Router/Model.v + the regenerated Router/RoutesGen.v: the
// model's outcome (rejected by the gate / no handler / endpoint reached) must be what the real router did
// (400 READ_ONLY / 404-405 / the endpoint pattern chi recorded), the writes recorded must be among those the
// translator attributes to the reached handler, and for a well-formed request a write must be recorded exactly
// when the translator classifies the handler as a writer.
package main

import (
	"context"
	"encoding/json"
	"fmt"
	"net/http"
	"net/http/httptest"
	"os"
	"sort"
	"strconv"
	"strings"

	"github.com/formancehq/ledger/internal/api"
	apibackend "github.com/formancehq/ledger/internal/api/backend"
	"github.com/formancehq/ledger/internal/opentelemetry/metrics"
	"github.com/formancehq/ledger/internal/storage/sqlutils"
	"github.com/formancehq/ledger/internal/storage/systemstore"
	"github.com/formancehq/ledger/verifx/fakeapi"
	"github.com/formancehq/ledger/verifx/internal/routetab"
	"github.com/formancehq/ledger/verifx/vx"
	"github.com/formancehq/stack/libs/go-libs/auth"
	"github.com/formancehq/stack/libs/go-libs/health"
	"github.com/go-chi/chi/v5"
	"go.uber.org/fx"
)

type reqIn struct {
	Method  string            `json:"method"`
	Target  string            `json:"target"` // request target: path and optional ?query
	Headers map[string]string `json:"headers,omitempty"`
	Body    string            `json:"body,omitempty"`
	WF      bool              `json:"wellFormed,omitempty"` // the request is a well-formed call of a registered (method, pattern)
	Variant string            `json:"variant,omitempty"`
}

type input struct {
	ReadOnly bool `json:"readOnly"`
	// how the router is obtained: "" = api.NewRouter(..., readOnly) directly; "module" = the chi.Router that
	// api.Module(api.Config{Version, ReadOnly}) provides through fx, as `ledger serve` assembles it
	Via     string `json:"via,omitempty"`
	Version string `json:"version,omitempty"`
	Req     reqIn  `json:"request"`
}

// ledger names starting with "new" do not exist yet (v1's autoCreateMiddleware then creates them)
type backend struct{ *fakeapi.Backend }

func (b *backend) GetLedger(ctx context.Context, name string) (*systemstore.Ledger, error) {
	if strings.HasPrefix(name, "new") {
		return nil, sqlutils.ErrNotFound
	}
	return b.Backend.GetLedger(ctx, name)
}

type side struct {
	ro      bool
	router  chi.Router
	l       *fakeapi.Ledger
	b       *backend
	broken  string // api.NewRouter panicked
	routes  map[string]bool
	chiSaid int // set by the instrumented NotFound / MethodNotAllowed responders
}

func build(ro bool, via, version string) (s *side) {
	s = &side{ro: ro, l: &fakeapi.Ledger{}, routes: map[string]bool{}}
	s.b = &backend{&fakeapi.Backend{L: s.l}}
	defer func() {
		if r := recover(); r != nil {
			s.broken = fmt.Sprint(r)
		}
	}()
	if via == "module" {
		// the wiring of cmd/serve.go: api.Module provides chi.Router (and health, the meter provider, the decorated
		// metrics registry); what the rest of the application provides is supplied here; only backend.Backend, whose
		// real provider needs the storage driver, is replaced by the recording fake
		var router chi.Router
		app := fx.New(
			fx.NopLogger,
			api.Module(api.Config{Version: version, ReadOnly: ro}),
			auth.Module(auth.ModuleConfig{}),
			fx.Provide(func() metrics.GlobalRegistry { return metrics.NewNoOpRegistry() }),
			fx.Decorate(func() apibackend.Backend { return s.b }),
			fx.Populate(&router),
		)
		if err := app.Err(); err != nil {
			s.broken = "fx: " + err.Error()
			return s
		}
		s.router = router
	} else {
		s.router = api.NewRouter(s.b, &health.HealthController{}, metrics.NewNoOpRegistry(), auth.NewNoAuth(), ro)
	}
	// same answers as chi's defaults, plus a mark telling them from a 404 written by a middleware or a controller
	s.router.NotFound(func(w http.ResponseWriter, r *http.Request) {
		s.chiSaid = 404
		http.NotFound(w, r)
	})
	s.router.MethodNotAllowed(func(w http.ResponseWriter, r *http.Request) {
		s.chiSaid = 405
		w.WriteHeader(405)
	})
	_ = chi.Walk(s.router, func(method, route string, _ http.Handler, _ ...func(http.Handler) http.Handler) error {
		s.routes[method+" "+canon(route)] = true
		return nil
	})
	return s
}

// canon turns chi's concatenated route patterns ("/api/ledger/*/v2/*/{ledger}/*/_bulk") into the pattern from the
// root ("/api/ledger/v2/{ledger}/_bulk"); a trailing "/" (endpoint "/" of a mounted mux) is kept.
func canon(p string) string {
	var segs []string
	for _, s := range strings.Split(p, "/") {
		if s != "" && s != "*" {
			segs = append(segs, s)
		}
	}
	out := "/" + strings.Join(segs, "/")
	if strings.HasSuffix(p, "/") && len(segs) > 0 {
		out += "/"
	}
	return out
}

type observation struct {
	Status   int
	Rejected bool
	ChiSaid  int
	Matched  string // "" = none
	Writes   []string
	Created  int
	Panic    string
	Segs     []string
}

func (s *side) do(rq reqIn) (ob observation, ok bool) {
	if !strings.HasPrefix(rq.Target, "/") {
		return ob, false
	}
	req, err := http.NewRequest(rq.Method, "http://ledger.test"+rq.Target, strings.NewReader(rq.Body))
	if err != nil || rq.Method == "" {
		return ob, false
	}
	req.RequestURI = rq.Target
	for _, k := range vx.SortedKeys(rq.Headers) {
		req.Header.Set(k, rq.Headers[k])
	}
	// the path chi routes on (mux.go routeHTTP)
	rp := req.URL.RawPath
	if rp == "" {
		rp = req.URL.Path
	}
	if !strings.HasPrefix(rp, "/") {
		return ob, false
	}
	ob.Segs = strings.Split(rp[1:], "/")
	// our own chi routing context, so the patterns chi matched can be read back afterwards
	rctx := chi.NewRouteContext()
	req = req.WithContext(context.WithValue(req.Context(), chi.RouteCtxKey, rctx))
	s.l.Writes, s.l.Reads, s.b.Created, s.chiSaid = nil, nil, nil, 0
	rec := httptest.NewRecorder()
	func() {
		defer func() {
			if r := recover(); r != nil {
				ob.Panic = fmt.Sprint(r)
			}
		}()
		s.router.ServeHTTP(rec, req)
	}()
	ob.Status, ob.ChiSaid = rec.Code, s.chiSaid
	if ob.Panic != "" {
		ob.Status = 500
	}
	var er struct {
		ErrorCode string `json:"errorCode"`
	}
	if rec.Code == 400 && json.Unmarshal(rec.Body.Bytes(), &er) == nil && er.ErrorCode == "READ_ONLY" {
		ob.Rejected = true
	}
	if len(rctx.RoutePatterns) > 0 {
		c := canon(strings.Join(rctx.RoutePatterns, ""))
		if s.routes[rq.Method+" "+c] {
			ob.Matched = c
		}
	}
	for _, w := range s.l.Writes {
		ob.Writes = append(ob.Writes, w.Kind)
	}
	ob.Created = len(s.b.Created)
	return ob, true
}

var kindCoq = map[string]string{"CREATE_TRANSACTION": "WCreate", "REVERT_TRANSACTION": "WRevert", "ADD_METADATA": "WSaveMeta", "DELETE_METADATA": "WDeleteMeta"}

func coqCase(in input, ob observation) string {
	var segs, ws []string
	for _, s := range ob.Segs {
		segs = append(segs, vx.CoqString(s))
	}
	for _, w := range ob.Writes {
		ws = append(ws, kindCoq[w])
	}
	return fmt.Sprintf("(%s, %s, {| meth := %s; path := %s |}, {| ob_status := %d; ob_rejected := %s; ob_nohandler := %s; ob_matched := %s; ob_writes := %s |})",
		vx.CoqBool(in.ReadOnly), vx.CoqBool(in.Req.WF), vx.CoqString(in.Req.Method), vx.CoqList(segs),
		ob.Status, vx.CoqBool(ob.Rejected), vx.CoqBool(ob.ChiSaid != 0), vx.CoqOpt(vx.CoqString(ob.Matched), ob.Matched != ""), vx.CoqList(ws))
}

type runner struct {
	r        *vx.Run
	ro, rw   *side
	modules  map[string]*side // api.Module-built routers, by version and flag
	createdN int
	created  *input
	reached  map[string]bool // "METHOD pattern" reached by a well-formed request without the flag
}

// one request under one flag: oracle, then the Coq case
func (x *runner) single(in input) {
	r := x.r
	s, srw := x.sideFor(in.Via, in.Version, in.ReadOnly), x.sideFor(in.Via, in.Version, false)
	if s.broken != "" || srw.broken != "" {
		return
	}
	ob, ok := s.do(in.Req)
	if !ok {
		r.Count("skipped:not-a-valid-http-request")
		return
	}
	size := len(in.Req.Target) + len(in.Req.Body) + 20*len(in.Req.Headers)
	if in.ReadOnly && len(ob.Writes) > 0 {
		// the property itself
		sig, how := "write-in-read-only:"+ob.Writes[0]+":via-"+in.Req.Method, "router built with readOnly=true"
		if in.Via == "module" {
			sig = "write-in-read-only:" + ob.Writes[0] + ":via-module(version=" + strconv.Quote(in.Version) + ")"
			how = fmt.Sprintf("chi.Router provided by api.Module(api.Config{Version: %q, ReadOnly: true})", in.Version)
		}
		r.FailP("C19", sig, in,
			fmt.Sprintf(how+"; %s %s reached %q (status %d) and the backend recorded %v",
				in.Req.Method, in.Req.Target, ob.Matched, ob.Status, ob.Writes), size)
	}
	if ob.Panic != "" {
		r.Count("panic-while-serving")
		r.Sum.Notes = appendOnce(r.Sum.Notes, "panic while serving "+in.Req.Method+" "+in.Req.Target+": "+ob.Panic)
	}
	if in.ReadOnly && ob.Created > 0 {
		x.createdN++
		if x.created == nil {
			c := in
			x.created = &c
		}
	}
	if in.Via != "" {
		r.Count("via:" + in.Via + "(version=" + strconv.Quote(in.Version) + ")")
	}
	if !in.ReadOnly && in.Via == "" && in.Req.WF && ob.Matched != "" {
		x.reached[in.Req.Method+" "+ob.Matched] = true
	}
	// non-trivial: without the flag this request makes the backend record a write (the gate is what stops it)
	nontrivial := false
	if in.ReadOnly {
		if o2, ok := srw.do(in.Req); ok && len(o2.Writes) > 0 {
			nontrivial = true
		}
	} else {
		nontrivial = len(ob.Writes) > 0
	}
	r.Count("method:" + in.Req.Method)
	switch {
	case ob.Rejected:
		r.Count("outcome:rejected-by-gate")
	case ob.Matched != "" && len(ob.Writes) > 0:
		r.Count("outcome:endpoint-reached-and-wrote")
	case ob.Matched != "":
		r.Count("outcome:endpoint-reached")
	default:
		r.Count("outcome:no-handler")
	}
	if in.Req.Variant != "" {
		r.Count("variant:" + in.Req.Variant)
	}
	key, _ := json.Marshal(in)
	coq := coqCase(in, ob)
	if in.Req.Method == "OPTIONS" && in.Req.Headers["Access-Control-Request-Method"] != "" {
		coq = "" // a preflight: answered by the cors middleware of the mounted router, outside the model; oracle only
	}
	r.Case(coq, in, string(key), nontrivial)
}

func (x *runner) sideFor(via, version string, ro bool) *side {
	if via != "module" {
		if ro {
			return x.ro
		}
		return x.rw
	}
	k := fmt.Sprintf("%q/%v", version, ro)
	if x.modules[k] == nil {
		x.modules[k] = build(ro, "module", version)
	}
	return x.modules[k]
}

func (x *runner) bothVia(version string, rq reqIn) {
	x.single(input{ReadOnly: false, Via: "module", Version: version, Req: rq})
	x.single(input{ReadOnly: true, Via: "module", Version: version, Req: rq})
}

func (x *runner) both(rq reqIn) {
	x.single(input{ReadOnly: false, Req: rq})
	x.single(input{ReadOnly: true, Req: rq})
}

func appendOnce(l []string, s string) []string {
	for _, e := range l {
		if e == s {
			return l
		}
	}
	if len(l) > 12 {
		return l
	}
	return append(l, s)
}

// ---- request generation -------------------------------------------------------------------------------

const txBody = `{"postings":[{"source":"world","destination":"bank","amount":100,"asset":"USD"}],"metadata":{"by":"verif"}}`
const scriptBody = `{"script":{"plain":"send [USD 1] (source = @world destination = @bank)"}}`
const metaBody = `{"k":"v"}`
const bulkBody = `[{"action":"CREATE_TRANSACTION","data":{"postings":[{"source":"world","destination":"bank","amount":100,"asset":"USD"}]}},` +
	`{"action":"ADD_METADATA","data":{"targetType":"ACCOUNT","targetId":"bank","metadata":{"k":"v"}}},` +
	`{"action":"REVERT_TRANSACTION","data":{"id":7}},` +
	`{"action":"DELETE_METADATA","data":{"targetType":"TRANSACTION","targetId":7,"key":"k"}}]`

// version strings given to api.Module (the released binary's, the default of an unversioned build, none, blank)
var moduleVersions = []string{"", "develop", "v2.0.0", " "}

var methods = []string{"GET", "HEAD", "POST", "PUT", "PATCH", "DELETE", "OPTIONS", "CONNECT", "TRACE", "FOO", "PROPFIND", "get", "post", "delete", "Post"}

var paramSets = []map[string]string{
	{"ledger": "l0", "id": "7", "address": "bank", "key": "k"},
	{"ledger": "v2", "id": "abc", "address": "users:001", "key": "a%20key"},
	{"ledger": "_info", "id": "0", "address": "not%2Fan%2Faddress", "key": "k"},
	{"ledger": "newledger", "id": "7", "address": "bank", "key": "k"},
}

func instantiate(full string, set map[string]string) string {
	parts := strings.Split(full, "/")
	for i, p := range parts {
		if len(p) >= 2 && p[0] == '{' && p[len(p)-1] == '}' {
			v, ok := set[p[1:len(p)-1]]
			if !ok {
				v = "x"
			}
			parts[i] = v
		}
	}
	return strings.Join(parts, "/")
}

// the body a well-formed call of the route needs, judged by the end of the pattern
func rightBody(full string) string {
	switch {
	case strings.HasSuffix(full, "/transactions"):
		return txBody
	case strings.HasSuffix(full, "/metadata"):
		return metaBody
	case strings.HasSuffix(full, "/_bulk"):
		return bulkBody
	case strings.HasSuffix(full, "/revert"), strings.HasSuffix(full, "}"):
		return ""
	}
	return "{}"
}

func isRead(m string) bool { return m == "GET" || m == "HEAD" || m == "OPTIONS" }

func (x *runner) routeRequests(full string, registered map[string]bool, thorough bool) {
	for si, set := range paramSets {
		target := instantiate(full, set)
		for _, m := range methods {
			wf := si == 0 && registered[m]
			body := rightBody(full)
			x.both(reqIn{Method: m, Target: target, Body: body, WF: wf, Variant: "plain"})
			if si > 0 && !thorough {
				continue
			}
			over := "POST"
			if !isRead(m) {
				over = "GET"
			}
			x.both(reqIn{Method: m, Target: target, Body: body, WF: wf, Variant: "method-override-header",
				Headers: map[string]string{"X-HTTP-Method-Override": over, "X-HTTP-Method": over, "X-Method-Override": over}})
			x.both(reqIn{Method: m, Target: target + "?_method=" + over + "&method=" + over, Body: body, WF: wf, Variant: "method-override-query"})
			if !strings.HasSuffix(target, "/") {
				x.both(reqIn{Method: m, Target: target + "/", Body: body, Variant: "trailing-slash"})
			} else {
				x.both(reqIn{Method: m, Target: strings.TrimSuffix(target, "/"), Body: body, Variant: "no-trailing-slash"})
			}
			x.both(reqIn{Method: m, Target: target, Body: bulkBody, WF: wf && strings.HasSuffix(full, "/_bulk"), Variant: "bulk-body"})
			x.both(reqIn{Method: m, Target: target, Body: `{"not":`, Variant: "garbage-body"})
			if strings.HasSuffix(full, "/transactions") {
				x.both(reqIn{Method: m, Target: target, Body: scriptBody, WF: wf, Variant: "script-body"})
			}
			// CORS headers on EVERY method: a gate that lets "preflights" through must not take a POST for one
			for _, hv := range []struct {
				name string
				h    map[string]string
			}{
				{"cors-origin+request-method-POST", map[string]string{"Origin": "https://x.example", "Access-Control-Request-Method": "POST"}},
				{"cors-origin+request-method-DELETE", map[string]string{"Origin": "https://x.example", "Access-Control-Request-Method": "DELETE"}},
				{"cors-origin-only", map[string]string{"Origin": "https://x.example"}},
				{"cors-request-method-only", map[string]string{"Access-Control-Request-Method": "POST"}},
			} {
				x.both(reqIn{Method: m, Target: target, Body: body, WF: wf, Variant: hv.name, Headers: hv.h})
			}
		}
	}
}

// paramsOf lists the {parameters} of a pattern, in order.
func paramsOf(full string) []string {
	var ps []string
	for _, p := range strings.Split(full, "/") {
		if len(p) >= 2 && p[0] == '{' && p[len(p)-1] == '}' {
			ps = append(ps, p[1:len(p)-1])
		}
	}
	return ps
}

// literalsAsParameters: every literal segment of a registered route ("_info", "_healthcheck", "metadata", ...) used as the
// value of one parameter at a time, the others ordinary. A gate or a middleware that decides on the look of the path
// (suffix, prefix, a segment's name) is fooled by a caller-chosen segment. Always complete for {key} and {address} on the
// patterns that have a POST or DELETE registration; the rest is sampled from the seed in the quick tier.
func (x *runner) literalsAsParameters(g *vx.Rng, fulls []string, registered map[string]map[string]bool, literals []string, thorough bool) {
	base := paramSets[0]
	for _, full := range fulls {
		reg := registered[full]
		mutating := reg["POST"] || reg["DELETE"] || reg["PUT"] || reg["PATCH"]
		for _, p := range paramsOf(full) {
			for _, lit := range literals {
				set := map[string]string{}
				for k, v := range base {
					set[k] = v
				}
				set[p] = lit
				target := instantiate(full, set)
				must := mutating && (p == "key" || p == "address")
				var ms []string
				switch {
				case must || thorough:
					ms = methods
				case g.Chance(1, 3):
					for _, m := range methods {
						if reg[m] {
							ms = append(ms, m)
						}
					}
					ms = append(ms, pickS(g, methods), pickS(g, []string{"POST", "DELETE", "GET"}))
				}
				seen := map[string]bool{}
				for _, m := range ms {
					if seen[m] {
						continue
					}
					seen[m] = true
					// the value stays inside its own segment and is a valid key / address: still a well-formed call
					wf := reg[m] && (p == "key" || p == "address")
					x.both(reqIn{Method: m, Target: target, Body: rightBody(full), WF: wf, Variant: "literal-as-" + p})
				}
			}
		}
	}
}

func pickS(g *vx.Rng, l []string) string { return l[g.Intn(len(l))] }

func (x *runner) randomRequest(g *vx.Rng, fulls []string, vocab []string) reqIn {
	var segs []string
	if g.Chance(3, 4) {
		// a registered route, perturbed
		t := instantiate(pickS(g, fulls), paramSets[g.Intn(len(paramSets))])
		segs = strings.Split(strings.TrimPrefix(t, "/"), "/")
		for k := g.Intn(3); k > 0; k-- {
			i := g.Intn(len(segs) + 1)
			switch g.Intn(5) {
			case 0: // drop
				if i < len(segs) && len(segs) > 1 {
					segs = append(segs[:i:i], segs[i+1:]...)
				}
			case 1: // insert
				segs = append(segs[:i:i], append([]string{pickS(g, vocab)}, segs[i:]...)...)
			case 2: // replace
				if i < len(segs) {
					segs[i] = pickS(g, vocab)
				}
			case 3: // empty segment
				segs = append(segs[:i:i], append([]string{""}, segs[i:]...)...)
			case 4: // case
				if i < len(segs) {
					segs[i] = strings.ToUpper(segs[i])
				}
			}
		}
	} else {
		for n := 1 + g.Intn(8); n > 0; n-- {
			segs = append(segs, pickS(g, vocab))
		}
	}
	rq := reqIn{Target: "/" + strings.Join(segs, "/"), Variant: "random"}
	if g.Chance(1, 2) {
		rq.Method = pickS(g, []string{"POST", "DELETE", "GET", "HEAD", "PUT", "PATCH"})
	} else {
		rq.Method = pickS(g, methods)
	}
	rq.Body = pickS(g, []string{"", txBody, scriptBody, metaBody, bulkBody, "{}", "[]", `{"not":`, "null"})
	if g.Chance(1, 4) {
		rq.Target += pickS(g, []string{"?preview=true", "?force=true", "?continueOnFailure=true", "?_method=POST", "?pageSize=0", "?x=%2F"})
	}
	if g.Chance(1, 3) {
		rq.Headers = map[string]string{}
		for k := 1 + g.Intn(2); k > 0; k-- {
			switch g.Intn(5) {
			case 0:
				rq.Headers["X-HTTP-Method-Override"] = pickS(g, []string{"POST", "DELETE", "GET"})
			case 1:
				rq.Headers["Idempotency-Key"] = "ik" + fmt.Sprint(g.Intn(3))
			case 2:
				rq.Headers["Content-Type"] = pickS(g, []string{"application/json", "text/plain", "application/x-www-form-urlencoded"})
			case 3:
				rq.Headers["Origin"] = "https://x.example"
				if g.Bool() {
					rq.Headers["Access-Control-Request-Method"] = pickS(g, []string{"POST", "DELETE", "GET"})
				}
			case 4:
				rq.Headers["Authorization"] = "Bearer x"
			}
		}
	}
	return rq
}

func main() {
	r := vx.Start("C19", "router")
	r.Cases("From FL Require Import Router.Model Router.RoutesGen.\nDefinition check_case := check_case_with gen_config.\n", "case", 400)
	r.Sum.Rule = "every (method, pattern) chi.Walk reports for the real api.NewRouter, united with the translator's table, instantiated with " +
		"4 parameter sets x 15 methods (9 of chi, unknown, lower/mixed case) x variants (method-override headers and query, trailing slash, " +
		"bulk / garbage / script bodies, every literal route segment as the value of one parameter, CORS Origin / Access-Control-Request-Method headers on every method), then seeded random paths/methods/bodies/headers; each request is served by the " +
		"router built with readOnly=false and by the one built with readOnly=true; every pattern x method is also sent to the chi.Router that " +
		"api.Module(api.Config{Version, ReadOnly}) provides through fx, for 4 version strings x both flags; non-trivial = without the flag the backend records a " +
		"write for this request; distinct by the JSON of (flag, request)"
	r.Sum.Samples = []any{} // never null in summary.json, also when the router cannot even be built
	x := &runner{r: r, reached: map[string]bool{}, modules: map[string]*side{}}
	x.rw, x.ro = build(false, "", ""), build(true, "", "")
	for _, s := range []*side{x.rw, x.ro} {
		if s.broken != "" {
			// the server cannot be built in this mode at all: the mechanism of the property is gone
			r.FailP("C19", fmt.Sprintf("router-construction-panics:readOnly=%v", s.ro), map[string]any{"readOnly": s.ro, "construct": "api.NewRouter"},
				"api.NewRouter panicked: "+s.broken, 0)
		}
	}
	if x.rw.broken != "" || x.ro.broken != "" {
		r.Finish()
		return
	}

	// the translator's view of the source, for the request patterns (the Coq side reads the same thing from RoutesGen.v)
	registered := map[string]map[string]bool{} // full pattern -> methods
	add := func(full, m string) {
		if registered[full] == nil {
			registered[full] = map[string]bool{}
		}
		registered[full][m] = true
	}
	nWalk := 0
	for k := range x.rw.routes {
		i := strings.Index(k, " ")
		add(k[i+1:], k[:i])
		nWalk++
	}
	repo := os.Getenv("VERIF_REPO")
	if repo == "" {
		repo = "/repo"
	}
	nTab, onlyTab := 0, []string{}
	if tab, err := routetab.Analyze(repo); err == nil {
		for _, e := range tab.Endpoints() {
			for _, m := range e.Methods {
				nTab++
				if !x.rw.routes[m+" "+e.Full] {
					onlyTab = append(onlyTab, m+" "+e.Full)
				}
				add(e.Full, m)
			}
		}
		r.Sum.Extra = map[string]any{"chi_walk_routes": nWalk, "translator_routes": nTab, "only_in_translator": onlyTab,
			"gate_installed_per_translator": tab.GateInstalled, "gate_allowed_per_translator": tab.GateAllowed}
	} else {
		r.Sum.Notes = append(r.Sum.Notes, "translator rejects the source: "+err.Error())
	}
	fulls := vx.SortedKeys(registered)

	docs, replayOnly := r.Inputs()
	for _, d := range docs {
		var in input
		if err := json.Unmarshal(d, &in); err == nil && in.Req.Method != "" {
			x.single(in)
		}
	}
	if replayOnly {
		r.Finish()
		return
	}

	for _, full := range fulls {
		x.routeRequests(full, registered[full], r.Thorough())
	}
	// the same server assembled the way `ledger serve` does it: api.Module(api.Config{Version, ReadOnly}) through fx
	moduleBroken := ""
	for _, v := range moduleVersions {
		for _, ro := range []bool{false, true} {
			if s := x.sideFor("module", v, ro); s.broken != "" {
				moduleBroken = fmt.Sprintf("api.Module(api.Config{Version: %q, ReadOnly: %v}) could not be assembled: %s", v, ro, s.broken)
			}
		}
	}
	if moduleBroken == "" {
		for _, v := range moduleVersions {
			for _, full := range fulls {
				target := instantiate(full, paramSets[0])
				for _, m := range methods {
					x.bothVia(v, reqIn{Method: m, Target: target, Body: rightBody(full), WF: registered[full][m], Variant: "plain"})
				}
			}
			for _, d := range docs {
				var in input
				if err := json.Unmarshal(d, &in); err == nil && in.Req.Method != "" && in.Via == "" {
					x.bothVia(v, in.Req)
				}
			}
		}
	}

	// the literal segments of the routes chi.Walk reports, as parameter values
	litSet := map[string]bool{}
	for k := range x.rw.routes {
		for _, sg := range strings.Split(k[strings.Index(k, " ")+1:], "/") {
			if sg != "" && !strings.HasPrefix(sg, "{") {
				litSet[sg] = true
			}
		}
	}
	literals := vx.SortedKeys(litSet)
	x.literalsAsParameters(vx.NewRng(r.Seed).Fork().Fork(), fulls, registered, literals, r.Thorough())

	// a few requests outside every pattern
	for _, t := range []string{"/", "/api", "/api/ledger", "/api/ledger/", "/api/ledger/v2", "/api/ledger/v2/", "/api/ledger//stats", "/api/ledger/v2//stats",
		"/api/ledger/v2/l0//transactions", "/api/ledger/l0/transactions/7/revert/extra", "/api/ledger/v2/transactions/batch", "/API/LEDGER/l0/transactions",
		"/api/ledger/v2/l0/transactions%2F7%2Frevert", "/api/ledger/l0/../l0/transactions", "/api/ledger/v2x/transactions"} {
		for _, m := range methods {
			x.both(reqIn{Method: m, Target: t, Body: txBody, Variant: "off-pattern"})
		}
	}

	vocabSet := map[string]bool{"": true, "v2": true, "api": true, "ledger": true, "..": true, ".": true, "%2F": true, "l0": true, "7": true}
	for _, f := range fulls {
		for _, s := range strings.Split(f, "/") {
			if !strings.HasPrefix(s, "{") {
				vocabSet[s] = true
			}
		}
	}
	for _, set := range paramSets {
		for _, v := range set {
			vocabSet[v] = true
		}
	}
	var vocab []string
	for k, ok := range vocabSet {
		if ok {
			vocab = append(vocab, k)
		}
	}
	sort.Strings(vocab)
	// vx.NewRng(s) and vx.NewRng(s+1) are the same stream shifted by one draw: go through one mixed output first
	g := vx.NewRng(r.Seed).Fork()
	N := 1500
	if r.Thorough() {
		N = 50000
	}
	for k := 0; k < N; k++ {
		x.both(x.randomRequest(g, fulls, vocab))
	}

	var unreached []string
	for _, k := range vx.SortedKeys(x.rw.routes) {
		if !x.reached[k] {
			unreached = append(unreached, k)
		}
	}
	if r.Sum.Extra != nil {
		r.Sum.Extra["registered_routes_reached_by_a_well_formed_request"] = fmt.Sprintf("%d of %d", len(x.rw.routes)-len(unreached), len(x.rw.routes))
	}
	if len(unreached) > 0 {
		r.Sum.Notes = append(r.Sum.Notes, "registered routes no well-formed generated request arrived at: "+strings.Join(unreached, ", "))
	}
	if x.created != nil {
		js, _ := json.Marshal(x.created)
		r.Sum.Notes = append(r.Sum.Notes, fmt.Sprintf("not part of C19: %d requests made the router built with readOnly=true call backend.CreateLedger "+
			"(v1 autoCreateMiddleware runs for GET on a ledger that does not exist yet), e.g. %s", x.createdN, js))
	}
	r.Finish()
	if moduleBroken != "" {
		// the wiring can no longer be exercised: not a finding by itself, but this part of the tie does not check
		fmt.Fprintln(os.Stderr, "obs-router:", moduleBroken)
		os.Exit(3)
	}
}
