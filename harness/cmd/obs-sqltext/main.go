// obs-sqltext sends generated list filters (filter trees over every key each listing accepts, hostile string values)
// through the REAL ledgerstore query builders and the REAL v1/v2 HTTP handlers, captures the complete SQL text a
// recording database/sql driver receives (bun inlines every argument client-side, so this is what PostgreSQL would
// get), applies the C20 oracle (quote automaton: the statement has the same structure as for the harmless twin of the
// filter, and the client's text lies inside literals), and writes each (listing, filter, captured WHERE fragment) as
// a Coq case for SqlText/Model.v.
package main

import (
	"bytes"
	"context"
	"database/sql"
	"encoding/base64"
	"encoding/hex"
	"encoding/json"
	"fmt"
	"io"
	"math/big"
	"net/http"
	"net/http/httptest"
	"net/url"
	"os"
	"path/filepath"
	"regexp"
	"sort"
	"strings"
	"syscall"
	"time"
	"unicode/utf8"

	ledger "github.com/formancehq/ledger/internal"
	"github.com/formancehq/ledger/internal/api/backend"
	v1 "github.com/formancehq/ledger/internal/api/v1"
	v2 "github.com/formancehq/ledger/internal/api/v2"
	"github.com/formancehq/ledger/internal/opentelemetry/metrics"
	"github.com/formancehq/ledger/internal/storage/ledgerstore"
	"github.com/formancehq/ledger/verifx/fakeapi"
	"github.com/formancehq/ledger/verifx/fakesql/recorder"
	"github.com/formancehq/ledger/verifx/vx"
	sharedapi "github.com/formancehq/stack/libs/go-libs/api"
	"github.com/formancehq/stack/libs/go-libs/auth"
	"github.com/formancehq/stack/libs/go-libs/bun/bunpaginate"
	"github.com/formancehq/stack/libs/go-libs/health"
	"github.com/formancehq/stack/libs/go-libs/logging"
	"github.com/formancehq/stack/libs/go-libs/query"
	"github.com/go-chi/chi/v5"
	"github.com/sirupsen/logrus"
	"github.com/uptrace/bun"
	"github.com/uptrace/bun/dialect/pgdialect"
)

// ---- inputs (byte exact in JSON) ---------------------------------------------------------------------

// BStr is a byte string that survives JSON: text when it is printable valid UTF-8, {"hex": ...} otherwise.
type BStr string

func (b BStr) MarshalJSON() ([]byte, error) {
	s := string(b)
	ok := utf8.ValidString(s)
	for i := 0; ok && i < len(s); i++ {
		if s[i] < 0x20 || s[i] == 0x7f {
			ok = false
		}
	}
	if ok && !strings.Contains(s, "\u2028") && !strings.Contains(s, "\u2029") && !strings.Contains(s, "\ufffd") {
		return json.Marshal(s)
	}
	return json.Marshal(map[string]string{"hex": hex.EncodeToString([]byte(s))})
}
func (b *BStr) UnmarshalJSON(d []byte) error {
	var s string
	if json.Unmarshal(d, &s) == nil {
		*b = BStr(s)
		return nil
	}
	var m map[string]string
	if err := json.Unmarshal(d, &m); err != nil {
		return err
	}
	raw, err := hex.DecodeString(m["hex"])
	*b = BStr(raw)
	return err
}

// Val is a filter value: what json.Unmarshal into `any` can produce, or a Go string.
type Val struct {
	K string  `json:"k"` // str | int | float | bool | null | arr | obj
	S BStr    `json:"s,omitempty"`
	I int64   `json:"i,omitempty"`
	F float64 `json:"f,omitempty"`
	B bool    `json:"b,omitempty"`
	A []Val   `json:"a,omitempty"`
	O []KV    `json:"o,omitempty"`
}
type KV struct {
	K BStr `json:"k"`
	V Val  `json:"v"`
}

// Node is a filter tree.
type Node struct {
	T     string `json:"t"` // leaf | and | or | not
	Key   BStr   `json:"key,omitempty"`
	Op    string `json:"op,omitempty"` // $match $lt $lte $gt $gte
	Val   *Val   `json:"val,omitempty"`
	Items []Node `json:"items,omitempty"`
	// RawOp, when set, is the operator key written into the JSON form of this node instead of the documented one
	// ($and/$or, $not, $match...): hostile text in operator position. Such a tree exists only as JSON (ParseJSON).
	RawOp *BStr `json:"rawop,omitempty"`
	// BaseKey, on a leaf whose Key is hostile text built around a key the listing accepts (date -> "date or 1=1"),
	// is that accepted key: the harmless twin of the leaf uses it.
	BaseKey BStr `json:"basekey,omitempty"`
}

// normalize turns a raw operator key that is a documented one into the documented node, so that the twin (the same
// tree with documented operators) is well defined.
func normalize(n Node) Node {
	out := n
	out.Items = nil
	for _, it := range n.Items {
		out.Items = append(out.Items, normalize(it))
	}
	if out.RawOp == nil {
		return out
	}
	o := string(*out.RawOp)
	switch out.T {
	case "and", "or":
		if o == "$and" || o == "$or" {
			out.T, out.RawOp = o[1:], nil
		}
	case "not":
		if o == "$not" {
			out.RawOp = nil
		}
	case "leaf":
		switch o {
		case "$match", "$lt", "$lte", "$gt", "$gte":
			out.Op, out.RawOp = o, nil
		}
	}
	return out
}

func (n Node) hasRawOp() bool {
	if n.RawOp != nil {
		return true
	}
	for _, it := range n.Items {
		if it.hasRawOp() {
			return true
		}
	}
	return false
}

func (n Node) rawOps(f func(string)) {
	if n.RawOp != nil {
		f(string(*n.RawOp))
	}
	for _, it := range n.Items {
		it.rawOps(f)
	}
}

type Input struct {
	Listing string `json:"listing"` // accounts | transactions | balances | logs
	PIT     string `json:"pit"`     // nil | zero | set
	Expand  bool   `json:"expand,omitempty"`
	Tree    Node   `json:"tree"`
	// Cursor, when set, sends the filter inside a pagination cursor (HTTP) resp. with these paging fields (store)
	Cursor *CursorSpec `json:"cursor,omitempty"`
}

// CursorSpec holds the paging fields of bunpaginate's OffsetPaginatedQuery / ColumnPaginatedQuery a client controls.
type CursorSpec struct {
	Offset       uint64 `json:"offset"`                 // accounts, balances
	PaginationID *int64 `json:"paginationID,omitempty"` // transactions, logs
	Reverse      bool   `json:"reverse,omitempty"`
	Order        int    `json:"order"` // 0 asc, 1 desc
}

func (v Val) goValue() any {
	switch v.K {
	case "str":
		return string(v.S)
	case "int":
		return float64(v.I)
	case "float":
		return v.F
	case "bool":
		return v.B
	case "null":
		return nil
	case "arr":
		out := make([]any, 0, len(v.A))
		for _, x := range v.A {
			out = append(out, x.goValue())
		}
		return out
	case "obj":
		out := map[string]any{}
		for _, kv := range v.O {
			out[string(kv.K)] = kv.V.goValue()
		}
		return out
	}
	return nil
}

func (n Node) builder() query.Builder {
	switch n.T {
	case "leaf":
		var v any
		if n.Val != nil {
			v = n.Val.goValue()
		}
		k := string(n.Key)
		switch n.Op {
		case "$lt":
			return query.Lt(k, v)
		case "$lte":
			return query.Lte(k, v)
		case "$gt":
			return query.Gt(k, v)
		case "$gte":
			return query.Gte(k, v)
		}
		return query.Match(k, v)
	case "not":
		if len(n.Items) == 1 {
			return query.Not(n.Items[0].builder())
		}
		return query.Not(query.And())
	}
	items := make([]query.Builder, 0, len(n.Items))
	for _, it := range n.Items {
		items = append(items, it.builder())
	}
	if n.T == "or" {
		return query.Or(items...)
	}
	return query.And(items...)
}

func (n Node) leaves(f func(*Node)) {
	if n.T == "leaf" {
		f(&n)
		return
	}
	for i := range n.Items {
		n.Items[i].leaves(f)
	}
}

// ---- key classes and the harmless twin (mirrors harmless of SqlText/Model.v; tied by the Coq cases) ---------

var metaRe = regexp.MustCompile("metadata\\[(.+)\\]")
var balRe = regexp.MustCompile("balance\\[(.*)\\]")

func keyClass(listing, key string) string {
	switch listing {
	case "accounts":
		switch {
		case key == "address":
			return "addr"
		case metaRe.MatchString(key):
			return "meta"
		case balRe.MatchString(key):
			return "bal"
		}
	case "transactions":
		switch {
		case key == "reference" || key == "timestamp":
			return "other"
		case key == "account" || key == "source" || key == "destination":
			return "addr"
		case metaRe.MatchString(key):
			return "meta"
		}
	case "balances":
		switch {
		case key == "address":
			return "addr"
		case metaRe.MatchString(key):
			return "meta"
		}
	}
	return "other"
}

func harmlessAddr(a string) string {
	b := []byte(a)
	for i := range b {
		if b[i] != ':' {
			b[i] = 'x'
		}
	}
	return string(b)
}

func harmlessVal(v *Val) *Val {
	if v == nil {
		return nil
	}
	switch v.K {
	case "str":
		return &Val{K: "str", S: "abc"}
	case "arr":
		return &Val{K: "arr", A: []Val{{K: "str", S: "abc"}}}
	case "obj":
		return &Val{K: "obj", O: []KV{{K: "abc", V: Val{K: "str", S: "abc"}}}}
	}
	c := *v
	return &c
}

func twinModel(listing string, n Node) Node {
	if n.T == "leaf" {
		out := Node{T: "leaf", Key: n.Key, Op: n.Op}
		switch keyClass(listing, string(n.Key)) {
		case "addr":
			if n.Val != nil && n.Val.K == "str" {
				out.Val = &Val{K: "str", S: BStr(harmlessAddr(string(n.Val.S)))}
			} else {
				out.Val = harmlessVal(n.Val)
			}
		case "meta":
			out.Key, out.Val = "metadata[abc]", harmlessVal(n.Val)
		case "bal":
			out.Key, out.Val = "balance[abc]", harmlessVal(n.Val)
		default:
			out.Val = harmlessVal(n.Val)
		}
		return out
	}
	out := Node{T: n.T}
	for _, it := range n.Items {
		out.Items = append(out.Items, twinModel(listing, it))
	}
	return out
}

// twin is the harmless twin used by the oracle: as twinModel (which mirrors `harmless` of the Coq model), except
// that a leaf whose hostile key the listing does not know as such takes the accepted key it was derived from.
func twin(listing string, n Node) Node {
	if n.T == "leaf" {
		if n.BaseKey != "" && keyClass(listing, string(n.Key)) == "other" {
			b := n
			b.Key, b.BaseKey = n.BaseKey, ""
			return twinModel(listing, b)
		}
		return twinModel(listing, n)
	}
	out := Node{T: n.T}
	for _, it := range n.Items {
		out.Items = append(out.Items, twin(listing, it))
	}
	return out
}

// ---- the quote automaton, blanking and tokens (port of scan / blank / tokens of SqlText/Model.v) -----------------

type qs struct {
	k int // state
	d int // comment depth
}

const (
	sCode = iota
	sCodeE
	sCodeDash
	sCodeSlash
	sInLit
	sInLitQ
	sInIdent
	sInIdentQ
	sLineC
	sBlockC
	sBlockCStar
	sBlockCSlash
	sBad
)

func stepCode(c byte) qs {
	switch {
	case c == '\'':
		return qs{k: sInLit}
	case c == '"':
		return qs{k: sInIdent}
	case c == '-':
		return qs{k: sCodeDash}
	case c == '/':
		return qs{k: sCodeSlash}
	case c == 'e' || c == 'E':
		return qs{k: sCodeE}
	case c == '$':
		return qs{k: sBad}
	}
	return qs{k: sCode}
}

func step(q qs, c byte) qs {
	switch q.k {
	case sCode:
		return stepCode(c)
	case sCodeE:
		if c == '\'' {
			return qs{k: sBad}
		}
		return stepCode(c)
	case sCodeDash:
		if c == '-' {
			return qs{k: sLineC}
		}
		return stepCode(c)
	case sCodeSlash:
		if c == '*' {
			return qs{k: sBlockC}
		}
		return stepCode(c)
	case sInLit:
		if c == '\'' {
			return qs{k: sInLitQ}
		}
		return q
	case sInLitQ:
		if c == '\'' {
			return qs{k: sInLit}
		}
		return stepCode(c)
	case sInIdent:
		if c == '"' {
			return qs{k: sInIdentQ}
		}
		return q
	case sInIdentQ:
		if c == '"' {
			return qs{k: sInIdent}
		}
		return stepCode(c)
	case sLineC:
		if c == '\n' || c == '\r' {
			return qs{k: sCode}
		}
		return q
	case sBlockC:
		if c == '*' {
			return qs{sBlockCStar, q.d}
		}
		if c == '/' {
			return qs{sBlockCSlash, q.d}
		}
		return q
	case sBlockCStar:
		if c == '/' {
			if q.d == 0 {
				return qs{k: sCode}
			}
			return qs{sBlockC, q.d - 1}
		}
		if c == '*' {
			return q
		}
		return qs{sBlockC, q.d}
	case sBlockCSlash:
		if c == '*' {
			return qs{sBlockC, q.d + 1}
		}
		if c == '/' {
			return q
		}
		return qs{sBlockC, q.d}
	}
	return qs{k: sBad}
}

type scanResult struct {
	final   qs
	comment bool   // a comment state was entered
	bad     bool   // the absorbing state was entered
	states  []int8 // state in which byte i is consumed (before the step)
	blank   string
}

func scanSQL(s string) scanResult {
	q := qs{k: sCode}
	r := scanResult{states: make([]int8, len(s))}
	var b strings.Builder
	for i := 0; i < len(s); i++ {
		c := s[i]
		r.states[i] = int8(q.k)
		switch q.k {
		case sInLit:
		case sInLitQ:
			if c != '\'' {
				b.WriteByte(c)
			}
		default:
			b.WriteByte(c)
		}
		q = step(q, c)
		if q.k == sLineC || q.k == sBlockC {
			r.comment = true
		}
		if q.k == sBad {
			r.bad = true
		}
	}
	r.final, r.blank = q, b.String()
	return r
}

func isWordChar(c byte) bool {
	return c >= '0' && c <= '9' || c >= 'a' && c <= 'z' || c >= 'A' && c <= 'Z' || c == '_' || c == '.' || c == '"'
}

// tokens of a blanked text (a literal is the single character '), as tokens of the model
func tokenCount(blank string) int {
	n, inWord := 0, false
	for i := 0; i < len(blank); i++ {
		c := blank[i]
		if isWordChar(c) {
			if !inWord {
				n++
				inWord = true
			}
			continue
		}
		inWord = false
		if c == ' ' || c == '\n' || c == '\r' || c == '\t' {
			continue
		}
		n++
	}
	return n
}

// ---- running the real store -----------------------------------------------------------------------------------

type harness struct {
	rec   *recorder.Recorder
	store *ledgerstore.Store
	v1r   chi.Router
	v2r   chi.Router
}

const ledgerName = "ledger0"

var pitTime = ledger.Time{Time: time.Date(2023, 6, 1, 12, 0, 0, 0, time.UTC)}

func newHarness() *harness {
	rec := recorder.New()
	db := bun.NewDB(sql.OpenDB(rec), pgdialect.New(), bun.WithDiscardUnknownColumns())
	st := ledgerstore.NewStoreForVerif(db, "bucket0", ledgerName)
	h := &harness{rec: rec, store: st}
	b := &storeBackend{Backend: &fakeapi.Backend{L: &fakeapi.Ledger{}}, l: &storeLedger{Ledger: &fakeapi.Ledger{}, st: st}}
	h.v1r = v1.NewRouter(b, &health.HealthController{}, metrics.NewNoOpRegistry(), auth.NewNoAuth())
	h.v2r = v2.NewRouter(b, &health.HealthController{}, metrics.NewNoOpRegistry(), auth.NewNoAuth())
	return h
}

// storeLedger answers the list/count reads of backend.Ledger with the real store (everything else is scripted).
type storeLedger struct {
	*fakeapi.Ledger
	st *ledgerstore.Store
}

func (l *storeLedger) GetAccountsWithVolumes(ctx context.Context, q ledgerstore.GetAccountsQuery) (*sharedapi.Cursor[ledger.ExpandedAccount], error) {
	return l.st.GetAccountsWithVolumes(ctx, q)
}
func (l *storeLedger) CountAccounts(ctx context.Context, q ledgerstore.GetAccountsQuery) (int, error) {
	return l.st.CountAccounts(ctx, q)
}
func (l *storeLedger) GetAggregatedBalances(ctx context.Context, q ledgerstore.GetAggregatedBalanceQuery) (ledger.BalancesByAssets, error) {
	return l.st.GetAggregatedBalances(ctx, q)
}
func (l *storeLedger) GetLogs(ctx context.Context, q ledgerstore.GetLogsQuery) (*sharedapi.Cursor[ledger.ChainedLog], error) {
	return l.st.GetLogs(ctx, q)
}
func (l *storeLedger) CountTransactions(ctx context.Context, q ledgerstore.GetTransactionsQuery) (int, error) {
	return l.st.CountTransactions(ctx, q)
}
func (l *storeLedger) GetTransactions(ctx context.Context, q ledgerstore.GetTransactionsQuery) (*sharedapi.Cursor[ledger.ExpandedTransaction], error) {
	return l.st.GetTransactions(ctx, q)
}

type storeBackend struct {
	*fakeapi.Backend
	l backend.Ledger
}

func (b *storeBackend) GetLedgerEngine(ctx context.Context, name string) (backend.Ledger, error) {
	return b.l, nil
}

// outcome of one call: the statements the driver received, and the error class of a rejected filter
type outcome struct {
	SQL []string
	Err string // "" | invalid | other | panic
}

func (o outcome) one() string {
	if len(o.SQL) == 1 {
		return o.SQL[0]
	}
	return strings.Join(o.SQL, "\n;;\n")
}
func (o outcome) rejected() bool { return len(o.SQL) == 0 }

func (h *harness) pit(p string) *ledger.Time {
	switch p {
	case "zero":
		return &ledger.Time{}
	case "set":
		t := pitTime
		return &t
	}
	return nil
}

func (h *harness) runStore(in Input, count bool, qb query.Builder) (out outcome) {
	h.rec.Take()
	ctx := context.Background()
	var err error
	func() {
		defer func() {
			if r := recover(); r != nil {
				out.Err = "panic"
			}
		}()
		pv := ledgerstore.PITFilterWithVolumes{PITFilter: ledgerstore.PITFilter{PIT: h.pit(in.PIT)}, ExpandVolumes: in.Expand, ExpandEffectiveVolumes: in.Expand}
		switch in.Listing {
		case "accounts":
			q := ledgerstore.NewGetAccountsQuery(ledgerstore.NewPaginatedQueryOptions(pv).WithQueryBuilder(qb))
			if c := in.Cursor; c != nil {
				q.Offset, q.Order = c.Offset, bunpaginate.Order(c.Order)
			}
			if count {
				_, err = h.store.CountAccounts(ctx, q)
			} else {
				_, err = h.store.GetAccountsWithVolumes(ctx, q)
			}
		case "transactions":
			q := ledgerstore.NewGetTransactionsQuery(ledgerstore.NewPaginatedQueryOptions(pv).WithQueryBuilder(qb))
			if c := in.Cursor; c != nil {
				q.Reverse, q.Order = c.Reverse, bunpaginate.Order(c.Order)
				if c.PaginationID != nil {
					q.PaginationID = big.NewInt(*c.PaginationID)
				}
			}
			if count {
				_, err = h.store.CountTransactions(ctx, q)
			} else {
				_, err = h.store.GetTransactions(ctx, q)
			}
		case "balances":
			q := ledgerstore.NewGetAggregatedBalancesQuery(ledgerstore.NewPaginatedQueryOptions(ledgerstore.PITFilter{PIT: h.pit(in.PIT)}).WithQueryBuilder(qb))
			if c := in.Cursor; c != nil {
				q.Offset, q.Order = c.Offset, bunpaginate.Order(c.Order)
			}
			_, err = h.store.GetAggregatedBalances(ctx, q)
		case "logs":
			q := ledgerstore.NewGetLogsQuery(ledgerstore.NewPaginatedQueryOptions[any](nil).WithQueryBuilder(qb))
			if c := in.Cursor; c != nil {
				q.Reverse, q.Order = c.Reverse, bunpaginate.Order(c.Order)
				if c.PaginationID != nil {
					q.PaginationID = big.NewInt(*c.PaginationID)
				}
			}
			_, err = h.store.GetLogs(ctx, q)
		}
	}()
	for _, s := range h.rec.Take() {
		if s.Kind == "query" || s.Kind == "exec" {
			out.SQL = append(out.SQL, s.SQL)
		}
	}
	if len(out.SQL) == 0 && out.Err == "" {
		switch {
		case err == nil:
			out.Err = "none"
		case ledgerstore.IsErrInvalidQuery(err):
			out.Err = "invalid"
		default:
			out.Err = "other"
		}
	}
	return out
}

// runTree runs the listing with the filter tree. A tree with hostile operator keys exists only as JSON: it goes
// through the real query.ParseJSON first (Err "parse" when that rejects it, "panic-parse" when it panics).
func (h *harness) runTree(in Input, count bool, tree Node) (out outcome) {
	if !tree.hasRawOp() {
		return h.runStore(in, count, tree.builder())
	}
	body, ok := tree.v2Body()
	if !ok {
		return outcome{Err: "parse"}
	}
	var qb query.Builder
	var err error
	func() {
		defer func() {
			if r := recover(); r != nil {
				out.Err = "panic-parse"
			}
		}()
		qb, err = query.ParseJSON(body)
	}()
	if out.Err != "" {
		return out
	}
	if err != nil || qb == nil {
		return outcome{Err: "parse"}
	}
	return h.runStore(in, count, qb)
}

func hasCount(listing string) bool { return listing == "accounts" || listing == "transactions" }

// the fragment of the WHERE clause that renders `tree`, cut out between two harmless sentinel clauses
func (h *harness) fragment(in Input, count bool, tree Node) (frag string, o outcome, ok bool) {
	var l, r query.Builder
	if in.Listing == "logs" {
		l, r = query.Lt("date", "verifL0"), query.Lt("date", "verifR0")
	} else {
		l, r = query.Match("metadata[verifL0]", "x"), query.Match("metadata[verifR0]", "y")
	}
	o = h.runStore(in, count, query.And(l, tree.builder(), r))
	if o.rejected() || len(o.SQL) != 1 {
		return "", o, false
	}
	s := o.SQL[0]
	i := strings.Index(s, "verifL0")
	j := strings.LastIndex(s, "verifR0")
	if i < 0 || j < 0 {
		return "", o, false
	}
	a := strings.Index(s[i:], ") and (")
	if a < 0 {
		return "", o, false
	}
	start := i + a + len(") and (")
	b := strings.LastIndex(s[:j], ") and (")
	if b < start {
		return "", o, false
	}
	return s[start:b], o, true
}

// ---- HTTP -----------------------------------------------------------------------------------------------------

func jsonStrRaw(s string) string { // a JSON string that keeps the bytes of s (only the mandatory escapes)
	var b strings.Builder
	b.WriteByte('"')
	for i := 0; i < len(s); i++ {
		c := s[i]
		switch {
		case c == '"' || c == '\\':
			b.WriteByte('\\')
			b.WriteByte(c)
		case c < 0x20:
			fmt.Fprintf(&b, "\\u%04x", c)
		default:
			b.WriteByte(c)
		}
	}
	b.WriteByte('"')
	return b.String()
}

func (v Val) jsonText() (string, bool) {
	switch v.K {
	case "str":
		return jsonStrRaw(string(v.S)), true
	case "int":
		return fmt.Sprint(v.I), true
	case "float":
		b, err := json.Marshal(v.F)
		return string(b), err == nil
	case "bool":
		return fmt.Sprint(v.B), true
	case "null":
		return "null", true
	case "arr":
		var parts []string
		for _, x := range v.A {
			t, ok := x.jsonText()
			if !ok {
				return "", false
			}
			parts = append(parts, t)
		}
		return "[" + strings.Join(parts, ",") + "]", true
	case "obj":
		var parts []string
		seen := map[string]bool{}
		for _, kv := range v.O {
			if seen[string(kv.K)] {
				return "", false
			}
			seen[string(kv.K)] = true
			t, ok := kv.V.jsonText()
			if !ok {
				return "", false
			}
			parts = append(parts, jsonStrRaw(string(kv.K))+":"+t)
		}
		return "{" + strings.Join(parts, ",") + "}", true
	}
	return "", false
}

// v2 body; not every tree can be written (no `not` in the JSON syntax)
func (n Node) v2Body() (string, bool) {
	switch n.T {
	case "leaf":
		if n.Val == nil {
			return "", false
		}
		v, ok := n.Val.jsonText()
		if !ok {
			return "", false
		}
		op := n.Op
		if n.RawOp != nil {
			op = string(*n.RawOp)
		}
		return fmt.Sprintf(`{%s:{%s:%s}}`, jsonStrRaw(op), jsonStrRaw(string(n.Key)), v), true
	case "and", "or":
		var parts []string
		for _, it := range n.Items {
			t, ok := it.v2Body()
			if !ok {
				return "", false
			}
			parts = append(parts, t)
		}
		op := "$" + n.T
		if n.RawOp != nil {
			op = string(*n.RawOp)
		}
		return fmt.Sprintf(`{%s:[%s]}`, jsonStrRaw(op), strings.Join(parts, ",")), true
	case "not":
		if len(n.Items) == 1 {
			if t, ok := n.Items[0].v2Body(); ok {
				op := "$not"
				if n.RawOp != nil {
					op = string(*n.RawOp)
				}
				return `{` + jsonStrRaw(op) + `:` + t + `}`, true
			}
		}
	}
	return "", false
}

// cursorText builds the cursor a client would send for the listing: the JSON bunpaginate encodes for the real query
// type (so the layout follows the code), with the filter `body` put in the place of a placeholder filter.
func (h *harness) cursorText(in Input, body string) (string, bool) {
	const ph = "verifQBplaceholder"
	qb := query.Match(ph, "x")
	c := in.Cursor
	pv := ledgerstore.PITFilterWithVolumes{PITFilter: ledgerstore.PITFilter{PIT: h.pit(in.PIT)}, ExpandVolumes: in.Expand, ExpandEffectiveVolumes: in.Expand}
	var enc string
	switch in.Listing {
	case "accounts":
		q := ledgerstore.NewGetAccountsQuery(ledgerstore.NewPaginatedQueryOptions(pv).WithQueryBuilder(qb))
		q.Offset, q.Order = c.Offset, bunpaginate.Order(c.Order)
		enc = bunpaginate.EncodeCursor(q)
	case "transactions":
		q := ledgerstore.NewGetTransactionsQuery(ledgerstore.NewPaginatedQueryOptions(pv).WithQueryBuilder(qb))
		q.Reverse, q.Order = c.Reverse, bunpaginate.Order(c.Order)
		if c.PaginationID != nil {
			q.PaginationID = big.NewInt(*c.PaginationID)
		}
		enc = bunpaginate.EncodeCursor(q)
	case "logs":
		q := ledgerstore.NewGetLogsQuery(ledgerstore.NewPaginatedQueryOptions[any](nil).WithQueryBuilder(qb))
		q.Reverse, q.Order = c.Reverse, bunpaginate.Order(c.Order)
		if c.PaginationID != nil {
			q.PaginationID = big.NewInt(*c.PaginationID)
		}
		enc = bunpaginate.EncodeCursor(q)
	default:
		return "", false
	}
	raw, err := base64.RawURLEncoding.DecodeString(enc)
	if err != nil {
		return "", false
	}
	phJSON := `{"$match":{"` + ph + `":"x"}}`
	if strings.Count(string(raw), phJSON) != 1 {
		return "", false // the cursor does not carry the filter in the ParseJSON syntax
	}
	return base64.RawURLEncoding.EncodeToString([]byte(strings.Replace(string(raw), phJSON, body, 1))), true
}

// v1 query parameters derivable from the leaves (at most one metadata parameter: the handler iterates a Go map),
// together with the parameters of the harmless twin request
func v1Params(in Input) (url.Values, url.Values, bool) {
	q, t := url.Values{}, url.Values{}
	meta := false
	in.Tree.leaves(func(n *Node) {
		if n.Val == nil || n.Val.K != "str" || len(n.Val.S) == 0 {
			return
		}
		k, v := string(n.Key), string(n.Val.S)
		set := func(param string) {
			if q.Get(param) != "" {
				return
			}
			q.Set(param, v)
			switch keyClass(in.Listing, k) {
			case "addr":
				t.Set(param, harmlessAddr(v))
			case "meta":
				t.Set("metadata[abc]", "abc")
			default:
				t.Set(param, "abc")
			}
		}
		switch in.Listing {
		case "accounts", "balances":
			if k == "address" {
				set("address")
			}
			if in.Listing == "accounts" && strings.HasPrefix(k, "metadata") && !meta {
				meta = true
				set(k)
			}
		case "transactions":
			for _, p := range []string{"reference", "account", "source", "destination"} {
				if k == p {
					set(p)
				}
			}
			if strings.HasPrefix(k, "metadata") && !meta {
				meta = true
				set(k)
			}
		case "logs":
			if k == "date" && n.Op == "$gte" {
				set("start_time")
			}
			if k == "date" && n.Op == "$lt" {
				set("end_time")
			}
		}
	})
	return q, t, len(q) > 0
}

func (h *harness) runHTTP(router chi.Router, method, path string, q url.Values, body string) outcome {
	h.rec.Take()
	u := "/" + ledgerName + path
	if len(q) > 0 {
		u += "?" + q.Encode()
	}
	req := httptest.NewRequest(method, u, bytes.NewBufferString(body))
	req = req.WithContext(logging.ContextWithLogger(req.Context(), quiet))
	rec := httptest.NewRecorder()
	router.ServeHTTP(rec, req)
	var out outcome
	for _, s := range h.rec.Take() {
		if s.Kind == "query" || s.Kind == "exec" {
			out.SQL = append(out.SQL, s.SQL)
		}
	}
	if len(out.SQL) == 0 {
		out.Err = fmt.Sprint(rec.Code)
	}
	return out
}

var quiet = func() logging.Logger {
	l := logrus.New()
	l.SetOutput(io.Discard)
	return logging.NewLogrus(l)
}()

type httpCall struct {
	via, method, path string
	q                 url.Values
	body              string
	tq                url.Values // the twin request
	tbody             string
}

func (h *harness) httpCalls(in Input, tw Node) []httpCall {
	var calls []httpCall
	paths := map[string][]string{"accounts": {"/accounts"}, "transactions": {"/transactions"}, "balances": {"/aggregate/balances"}, "logs": {"/logs"}}[in.Listing]
	logsOK := true
	if in.Listing == "logs" { // an unknown key makes the log listing panic (recovered by chi, printed on stderr): keep to `date`
		in.Tree.leaves(func(n *Node) {
			if n.Key != "date" && n.BaseKey == "" {
				logsOK = false
			}
		})
	}
	body, ok := in.Tree.v2Body()
	tbody, tok := tw.v2Body()
	if in.Cursor != nil {
		if !ok || !tok || !logsOK {
			return nil
		}
		cur, ok1 := h.cursorText(in, body)
		tcur, ok2 := h.cursorText(in, tbody)
		if !ok1 || !ok2 {
			return nil
		}
		q, t := url.Values{}, url.Values{}
		q.Set("cursor", cur)
		t.Set("cursor", tcur)
		for _, p := range paths {
			calls = append(calls, httpCall{"v1-cursor", http.MethodGet, p, q, "", t, ""}, httpCall{"v2-cursor", http.MethodGet, p, q, "", t, ""})
		}
		if in.Listing == "accounts" {
			calls = append(calls, httpCall{"v1-cursor", http.MethodGet, "/balances", q, "", t, ""})
		}
		return calls
	}
	if ok && tok && logsOK {
		q := url.Values{}
		if in.PIT == "set" || in.Listing != "logs" {
			q.Set("pit", pitTime.Format(time.RFC3339Nano))
		}
		if in.Expand {
			q.Add("expand", "volumes")
		}
		for _, p := range paths {
			calls = append(calls, httpCall{"v2", http.MethodGet, p, q, body, q, tbody})
			if hasCount(in.Listing) {
				calls = append(calls, httpCall{"v2", http.MethodHead, p, q, body, q, tbody})
			}
			// the v1 count of accounts takes the same JSON in the `query` parameter
			if in.Listing == "accounts" {
				q1, t1 := url.Values{}, url.Values{}
				q1.Set("query", body)
				t1.Set("query", tbody)
				calls = append(calls, httpCall{"v1", http.MethodHead, p, q1, "", t1, ""})
			}
		}
	}
	if q, t, ok := v1Params(in); ok && !in.Tree.hasRawOp() {
		if in.PIT == "set" {
			q.Set("pit", pitTime.Format(time.RFC3339Nano))
			t.Set("pit", pitTime.Format(time.RFC3339Nano))
		}
		for _, p := range paths {
			calls = append(calls, httpCall{"v1", http.MethodGet, p, q, "", t, ""})
			if in.Listing == "transactions" {
				calls = append(calls, httpCall{"v1", http.MethodHead, p, q, "", t, ""})
			}
		}
		if in.Listing == "accounts" {
			calls = append(calls, httpCall{"v1", http.MethodGet, "/balances", q, "", t, ""})
		}
	}
	return calls
}

func (h *harness) router(via string) chi.Router {
	if strings.HasPrefix(via, "v1") {
		return h.v1r
	}
	return h.v2r
}

// ---- oracle ---------------------------------------------------------------------------------------------------

const marker = "zq1"

func clientStrings(n Node) []string {
	var out []string
	var val func(v *Val)
	val = func(v *Val) {
		if v == nil {
			return
		}
		switch v.K {
		case "str":
			out = append(out, string(v.S))
		case "arr":
			for i := range v.A {
				val(&v.A[i])
			}
		case "obj":
			for i := range v.O {
				out = append(out, string(v.O[i].K))
				val(&v.O[i].V)
			}
		}
	}
	n.leaves(func(l *Node) {
		out = append(out, string(l.Key))
		val(l.Val)
	})
	n.rawOps(func(o string) { out = append(out, o) })
	return out
}

func charClass(ss []string) string {
	all := strings.Join(ss, "\x01")
	switch {
	case strings.Contains(all, "'"):
		return "quote"
	case strings.Contains(all, "?"):
		return "placeholder"
	case strings.Contains(all, "\\"):
		return "backslash"
	}
	return "other"
}

func size(in Input) int {
	n := 0
	for _, s := range clientStrings(in.Tree) {
		n += 4 + len(s)
	}
	return n
}

// check one captured statement list against the twin's; returns the failing clause or ""
func judge(hostile, harmless outcome) (clause, detail string) {
	if hostile.rejected() {
		return "", ""
	}
	if harmless.rejected() {
		return "accepted-but-twin-rejected", fmt.Sprintf("the filter was accepted (%q) but its harmless twin was rejected (%s)", hostile.one(), harmless.Err)
	}
	if len(hostile.SQL) != len(harmless.SQL) {
		return "structure-differs", fmt.Sprintf("%d statements, the twin caused %d", len(hostile.SQL), len(harmless.SQL))
	}
	for i := range hostile.SQL {
		a, b := scanSQL(hostile.SQL[i]), scanSQL(harmless.SQL[i])
		if a.bad || a.comment {
			return "comment-or-estring", fmt.Sprintf("the statement contains a comment, an E'' string or a $ in code position: %q", hostile.SQL[i])
		}
		switch a.final.k {
		case sCode, sCodeE, sCodeDash, sCodeSlash, sInLitQ, sInIdentQ:
		default:
			return "unterminated", fmt.Sprintf("the statement ends inside a literal, identifier or comment: %q", hostile.SQL[i])
		}
		if a.blank != b.blank {
			return "structure-differs", fmt.Sprintf("statement %q has another structure than the twin's %q", hostile.SQL[i], harmless.SQL[i])
		}
		s := hostile.SQL[i]
		for off := 0; ; {
			k := strings.Index(s[off:], marker)
			if k < 0 {
				break
			}
			for p := off + k; p < off+k+len(marker); p++ {
				if a.states[p] != sInLit {
					return "text-outside-literal", fmt.Sprintf("client text %q at offset %d of %q is not inside a literal", marker, p, s)
				}
			}
			off += k + len(marker)
		}
	}
	return "", ""
}

// ---- Coq printing ---------------------------------------------------------------------------------------------

// coqStr writes a byte string as a Coq term: printable runs (LF and TAB included) as literals, other bytes as hx "..".
func coqStr(s string) string {
	var segs []string
	i := 0
	for i < len(s) {
		j := i
		plain := func(c byte) bool { return c >= 0x20 && c < 0x7f || c == '\n' || c == '\t' }
		if plain(s[i]) {
			for j < len(s) && plain(s[j]) {
				j++
			}
			segs = append(segs, "\""+strings.ReplaceAll(s[i:j], "\"", "\"\"")+"\"%string")
		} else {
			for j < len(s) && !plain(s[j]) {
				j++
			}
			segs = append(segs, "(hx \""+hex.EncodeToString([]byte(s[i:j]))+"\")")
		}
		i = j
	}
	switch len(segs) {
	case 0:
		return "\"\"%string"
	case 1:
		return segs[0]
	}
	return "(sconcat [" + strings.Join(segs, "; ") + "])"
}

func coqVal(v *Val) (string, bool) {
	if v == nil {
		return "JNull", true
	}
	switch v.K {
	case "str":
		return "(JStr " + coqStr(string(v.S)) + ")", true
	case "int":
		return "(JInt " + vx.CoqZ(fmt.Sprint(v.I)) + ")", true
	case "bool":
		return "(JBool " + vx.CoqBool(v.B) + ")", true
	case "null":
		return "JNull", true
	case "arr":
		var xs []string
		for i := range v.A {
			t, ok := coqVal(&v.A[i])
			if !ok {
				return "", false
			}
			xs = append(xs, t)
		}
		return "(JArr " + vx.CoqList(xs) + ")", true
	case "obj":
		var xs []string
		seen := map[string]bool{}
		for i := range v.O {
			if seen[string(v.O[i].K)] {
				return "", false
			}
			seen[string(v.O[i].K)] = true
			t, ok := coqVal(&v.O[i].V)
			if !ok {
				return "", false
			}
			xs = append(xs, "("+coqStr(string(v.O[i].K))+", "+t+")")
		}
		return "(JObj " + vx.CoqList(xs) + ")", true
	}
	return "", false // floats: strconv formatting is not modelled
}

func coqOp(o string) string {
	return map[string]string{"$match": "OMatch", "$lt": "OLt", "$lte": "OLte", "$gt": "OGt", "$gte": "OGte"}[o]
}

func coqTree(n Node) (string, bool) {
	switch n.T {
	case "leaf":
		v, ok := coqVal(n.Val)
		if !ok || coqOp(n.Op) == "" {
			return "", false
		}
		return "(QLeaf " + coqStr(string(n.Key)) + " " + coqOp(n.Op) + " " + v + ")", true
	case "not":
		if len(n.Items) != 1 {
			return "", false
		}
		t, ok := coqTree(n.Items[0])
		return "(QNot " + t + ")", ok
	}
	var xs []string
	for _, it := range n.Items {
		t, ok := coqTree(it)
		if !ok {
			return "", false
		}
		xs = append(xs, t)
	}
	if n.T == "or" {
		return "(QOr " + vx.CoqList(xs) + ")", true
	}
	return "(QAnd " + vx.CoqList(xs) + ")", true
}

func coqObs(frag string, o outcome, ok bool) (string, bool) {
	if ok {
		return "(ObsSQL " + coqStr(frag) + ")", true
	}
	switch o.Err {
	case "invalid":
		return "(ObsErr true)", true
	case "other", "panic":
		return "(ObsErr false)", true
	}
	return "", false
}

func (h *harness) coqCase(r *vx.Run, in Input, tw Node, count bool, variant, cc string, emit bool) string {
	if !emit {
		return ""
	}
	ct, ok := coqTree(in.Tree)
	if !ok || size(in) > maxCoqLen || in.Tree.hasRawOp() {
		r.Count("coq:skipped")
		return ""
	}
	frag, fo, fok := h.fragment(in, count, in.Tree)
	if !fok && !fo.rejected() {
		r.FailSized("fragment-not-delimited:"+in.Listing+":"+variant+":"+cc, in, "the WHERE fragment of the filter could not be found between the sentinel clauses: "+fo.one(), size(in))
		return ""
	}
	tfrag, tfo, tfok := h.fragment(in, count, tw)
	o1, ok1 := coqObs(frag, fo, fok)
	o2, ok2 := coqObs(tfrag, tfo, tfok)
	if !ok1 || !ok2 {
		return ""
	}
	bl, ntok := "", 0
	if fok {
		sr := scanSQL("(" + frag + ")")
		bl, ntok = sr.blank, tokenCount(sr.blank)
	}
	listing := map[string]string{"accounts": "LAccounts", "transactions": "LTransactions", "balances": "LBalances", "logs": "LLogs"}[in.Listing]
	pit := map[string]string{"nil": "PNil", "zero": "PZero", "set": "PSet"}[in.PIT]
	return fmt.Sprintf("{| c_listing := %s; c_pit := %s; c_ledger := %s; c_tree := %s; c_obs := %s; c_twin := %s; c_blank := %s; c_tokens := %d |}",
		listing, pit, coqStr(ledgerName), ct, o1, o2, coqStr(bl), ntok)
}

// ---- one input ------------------------------------------------------------------------------------------------

var maxCoqLen = 1500

func (h *harness) one(r *vx.Run, in Input, emit bool) {
	in.Tree = normalize(in.Tree)
	tw := twin(in.Listing, in.Tree)
	strs := clientStrings(in.Tree)
	cc := charClass(strs)
	nontrivial := false
	variants := []bool{false}
	if hasCount(in.Listing) {
		variants = append(variants, true)
	}
	fail := func(clause, variant, via, detail string, rerun func(Input) (outcome, outcome, bool)) {
		// shrink: give leaves their harmless value one at a time while the failure persists
		cur := in
		curTree := in.Tree
		var idx int
		var walk func(n Node) Node
		target := -1
		walk = func(n Node) Node {
			if n.T == "leaf" {
				me := idx
				idx++
				if me == target {
					return twin(in.Listing, n)
				}
				return n
			}
			out := Node{T: n.T, RawOp: n.RawOp}
			for _, it := range n.Items {
				out.Items = append(out.Items, walk(it))
			}
			return out
		}
		nLeaves := 0
		in.Tree.leaves(func(*Node) { nLeaves++ })
		if nLeaves <= 12 {
			for t := 0; t < nLeaves; t++ {
				idx, target = 0, t
				cand := walk(curTree)
				ci := cur
				ci.Tree = cand
				a, b, ok := rerun(ci)
				if !ok {
					continue
				}
				if c, d := judge(a, b); c == clause {
					curTree, detail = cand, d
				}
			}
			cur.Tree = curTree
		}
		classes := map[string]bool{}
		ctw := twin(in.Listing, cur.Tree)
		var twLeaves []Node
		ctw.leaves(func(n *Node) { twLeaves = append(twLeaves, *n) })
		li := 0
		cur.Tree.leaves(func(n *Node) {
			a, _ := json.Marshal(*n)
			b, _ := json.Marshal(twLeaves[li])
			li++
			if !bytes.Equal(a, b) {
				if n.BaseKey != "" && n.BaseKey != n.Key && keyClass(in.Listing, string(n.Key)) == "other" {
					classes["key"] = true
				} else {
					classes[keyClass(in.Listing, string(n.Key))] = true
				}
			}
		})
		if cur.Tree.hasRawOp() {
			classes["operator"] = true
		}
		var cl []string
		for k := range classes {
			cl = append(cl, k)
		}
		sort.Strings(cl)
		sig := fmt.Sprintf("%s:%s:%s:%s:%s:%s", clause, in.Listing, variant, via, strings.Join(cl, "+"), charClass(clientStrings(cur.Tree)))
		r.FailSized(sig, cur, detail, size(cur))
	}
	for _, count := range variants {
		variant := "list"
		if count {
			variant = "count"
		}
		a := h.runTree(in, count, in.Tree)
		b := h.runTree(in, count, tw)
		if a.Err == "panic-parse" {
			r.FailSized("panic:ParseJSON:"+cc, in, "query.ParseJSON panicked on the filter", size(in))
			continue
		}
		if a.Err == "panic" && !a.rejected() {
			// after the statement was sent: bunpaginate on the empty result set (a paginationID with no row), not C20
			r.Count("panic-after-statement")
		}
		if a.Err == "panic" && a.rejected() {
			known := false // the log listing panics on an unknown key on the unchanged tree (not C20's business)
			if in.Listing == "logs" {
				in.Tree.leaves(func(n *Node) {
					if n.Key != "date" {
						known = true
					}
				})
			}
			if !known {
				r.FailSized("panic:store:"+in.Listing+":"+variant+":"+cc, in, "the store call panicked on the filter", size(in))
				continue
			}
		}
		if a.Err == "none" {
			r.FailSized("harness:no-statement:"+in.Listing, in, "the call returned no error and sent no statement", size(in))
			continue
		}
		if len(a.SQL) > 1 {
			r.FailSized("harness:several-statements:"+in.Listing, in, a.one(), size(in))
			continue
		}
		if !a.rejected() && cc != "other" {
			nontrivial = true
		}
		if a.rejected() {
			r.Count("outcome:rejected:" + a.Err)
		} else {
			r.Count("outcome:accepted")
		}
		if clause, detail := judge(a, b); clause != "" {
			count := count
			via := "store"
			if in.Cursor != nil {
				via = "store-cursor"
			}
			fail(clause, variant, via, detail, func(ci Input) (outcome, outcome, bool) {
				return h.runTree(ci, count, ci.Tree), h.runTree(ci, count, twin(ci.Listing, ci.Tree)), true
			})
		}
		// Coq case
		key, _ := json.Marshal(in)
		r.Case(h.coqCase(r, in, twinModel(in.Listing, in.Tree), count, variant, cc, emit), map[string]any{"input": in, "variant": variant}, string(key)+variant, nontrivial)
	}
	// through the HTTP handlers
	for _, c := range h.httpCalls(in, tw) {
		a := h.runHTTP(h.router(c.via), c.method, c.path, c.q, c.body)
		b := h.runHTTP(h.router(c.via), c.method, c.path, c.tq, c.tbody)
		r.Count("http:" + c.via)
		r.Sum.Evaluations++
		if clause, detail := judge(a, b); clause != "" {
			variant := "list"
			if c.method == http.MethodHead {
				variant = "count"
			}
			c := c
			fail(clause, variant, c.via, detail+fmt.Sprintf(" [%s %s?%s body=%q]", c.method, c.path, c.q.Encode(), c.body), func(ci Input) (outcome, outcome, bool) {
				for _, x := range h.httpCalls(ci, twin(ci.Listing, ci.Tree)) {
					if x.via == c.via && x.method == c.method && x.path == c.path && (x.body == "") == (c.body == "") && (x.q.Get("query") == "") == (c.q.Get("query") == "") {
						return h.runHTTP(h.router(x.via), x.method, x.path, x.q, x.body), h.runHTTP(h.router(x.via), x.method, x.path, x.tq, x.tbody), true
					}
				}
				return outcome{}, outcome{}, false
			})
		}
	}
	r.Count("listing:" + in.Listing)
	r.Count("chars:" + cc)
	in.Tree.leaves(func(n *Node) { r.Count("key:" + keyClass(in.Listing, string(n.Key))) })
}

// ---- generation -----------------------------------------------------------------------------------------------

var hostile = []string{
	"a' or zq1=1 --", "x:'); drop table zq1;--", "'", "''", "a''b", "'; select zq1 --", "' or 'zq1'='zq1",
	"\\", "\\'", "\\' or zq1=1 --", "a\\?b", "\\\\?", "?", "??", "x?(", "?(", "?)", "?()", "x?(zq1)y", "?0", "?1", "?2 zq1", "?TableName", "?TableAlias zq1",
	"?ledger", "$1", "$$", "$zq1$", "/*", "*/", "/* zq1 */", "*/ zq1 /*", "--", "-- zq1", "a\n-- zq1", "a\r\n zq1", "\x00", "a\x00'b zq1", "zq1\x00",
	"\n", "\t", "é zq1", "日本 zq1'", "\xff", "\xc3'", "\xe2\x80'", "\xf0\x9f\x98\x80'", "\xe2\x80\xa8", "\xe2\x80\xa9'", "\xed\xa0\x80'", "<script>&'", "\\u0000", "\\u0000'", "\"", "\\\"",
	"\"}') or zq1=1 --", "\"]') or zq1=1 --", "E'zq1'", "e'\\'", "a b", "a;b", "%", "_", "[", "]", "a]b", "metadata[x]", "{}", "{\"a\":1}", "null", "true", "1", "-1", "1e9",
	"users:001", "users:", ":001", "::", ":", "a:b:c:d:e:f:g:h:i:j:k:l", "a::b:c:d:e:f:g:h:i:j:k:l", "users:zq1' or '1'='1", "a-b:c_d", "a-:b", "-a", "a--b", "users:\\?", "u:?(", "u'::x",
	"world", "abc", "",
}

func genString(g *vx.Rng, long bool) string {
	switch g.Intn(10) {
	case 0, 1, 2, 3, 4:
		return hostile[g.Intn(len(hostile))]
	case 5:
		return hostile[g.Intn(len(hostile))] + hostile[g.Intn(len(hostile))]
	case 6:
		alpha := "'\\?()-/*$\"\x00\n:ab1_ \xc3\xa9"
		n := 1 + g.Intn(12)
		b := make([]byte, n)
		for i := range b {
			b[i] = alpha[g.Intn(len(alpha))]
		}
		return string(b)
	case 7:
		n := 1 + g.Intn(6)
		b := make([]byte, n)
		for i := range b {
			b[i] = byte(g.Intn(256))
		}
		return string(b)
	case 8:
		if long {
			n := 200 + g.Intn(900)
			return strings.Repeat("a", n) + hostile[g.Intn(len(hostile))] + strings.Repeat("'", g.Intn(3))
		}
		return "abc"
	}
	// a valid address pattern
	segs := []string{"users", "001", "", "a-b", "x_1", "world", "", "ZZ9"}
	n := 1 + g.Intn(4)
	var parts []string
	for i := 0; i < n; i++ {
		parts = append(parts, segs[g.Intn(len(segs))])
	}
	return strings.Join(parts, ":")
}

func genVal(g *vx.Rng, depth int, long bool) Val {
	switch g.Intn(14) {
	case 0:
		return Val{K: "int", I: int64(g.Intn(2000)) - 1000}
	case 1:
		return Val{K: "int", I: int64(g.U64()>>11) - (1 << 52)}
	case 2:
		return Val{K: "bool", B: g.Bool()}
	case 3:
		return Val{K: "null"}
	case 4:
		if depth < 2 {
			n := g.Intn(3)
			v := Val{K: "arr"}
			for i := 0; i < n; i++ {
				v.A = append(v.A, genVal(g, depth+1, false))
			}
			return v
		}
	case 5:
		if depth < 2 {
			n := g.Intn(3)
			v := Val{K: "obj"}
			seen := map[string]bool{}
			for i := 0; i < n; i++ {
				k := genString(g, false)
				if seen[k] {
					continue
				}
				seen[k] = true
				v.O = append(v.O, KV{BStr(k), genVal(g, depth+1, false)})
			}
			return v
		}
	case 6:
		return Val{K: "float", F: []float64{1.5, -0.25, 1e21, 1e-7, 123456.789}[g.Intn(5)]}
	}
	return Val{K: "str", S: BStr(genString(g, long))}
}

var ops = []string{"$match", "$match", "$match", "$lt", "$lte", "$gt", "$gte"}

func genKey(g *vx.Rng, listing string) string {
	var keys []string
	switch listing {
	case "accounts":
		keys = []string{"address", "address", "address", "metadata[@]", "metadata[@]", "balance[@]", "balance", "xmetadata[@]y", "metadata[]", "metadata", "balance[", "balance[]", "foo", "", "address ", "balance[metadata[@]]"}
	case "transactions":
		keys = []string{"reference", "reference", "timestamp", "account", "account", "source", "destination", "metadata[@]", "metadata[@]", "id", "date", "foo", "xmetadata[@]", "metadata[]"}
	case "balances":
		keys = []string{"address", "address", "address", "metadata[@]", "metadata[@]", "balance", "foo", "metadata[]"}
	default:
		keys = []string{"date", "date", "date", "date", "id", "foo", "metadata[@]"}
	}
	k := keys[g.Intn(len(keys))]
	if strings.Contains(k, "@") {
		inner := "k1"
		if g.Chance(2, 3) {
			inner = genString(g, false)
		}
		k = strings.Replace(k, "@", inner, 1)
	}
	return k
}

func genTree(g *vx.Rng, listing string, depth int, long bool) Node {
	n := genTree0(g, listing, depth, long)
	if g.Chance(1, 12) {
		forms := opForms(genString(g, false))
		o := BStr(forms[g.Intn(len(forms))])
		n.RawOp = &o
	}
	return n
}

func genTree0(g *vx.Rng, listing string, depth int, long bool) Node {
	if depth >= 3 || g.Chance(3, 5) {
		v := genVal(g, 0, long)
		return Node{T: "leaf", Key: BStr(genKey(g, listing)), Op: ops[g.Intn(len(ops))], Val: &v}
	}
	switch g.Intn(5) {
	case 0:
		return Node{T: "not", Items: []Node{genTree(g, listing, depth+1, long)}}
	case 1, 2:
		n := Node{T: "or"}
		for i, k := 0, g.Intn(4); i < k; i++ {
			n.Items = append(n.Items, genTree(g, listing, depth+1, long))
		}
		return n
	}
	n := Node{T: "and"}
	for i, k := 0, g.Intn(4); i < k; i++ {
		n.Items = append(n.Items, genTree(g, listing, depth+1, long))
	}
	return n
}

var listings = []string{"accounts", "transactions", "balances", "logs"}

// valid leaves of a listing, used as children of nodes whose operator key is hostile
func validLeaves(listing string) []Node {
	leaf := func(k, op, v string) Node {
		return Node{T: "leaf", Key: BStr(k), Op: op, Val: &Val{K: "str", S: BStr(v)}}
	}
	switch listing {
	case "accounts":
		return []Node{leaf("address", "$match", "users:"), leaf("metadata[k1]", "$match", "v"), leaf("balance[USD]", "$lt", "5")}
	case "transactions":
		return []Node{leaf("reference", "$match", "a"), leaf("reference", "$match", "b"), leaf("account", "$match", "users:001")}
	case "balances":
		return []Node{leaf("address", "$match", "users:"), leaf("metadata[k1]", "$match", "v"), leaf("address", "$match", "bank")}
	}
	return []Node{leaf("date", "$lt", "2023-01-01T00:00:00Z"), leaf("date", "$gte", "2022-01-01T00:00:00Z"), leaf("date", "$lt", "x")}
}

// operator keys made from a hostile string
func opForms(s string) []string {
	return []string{"$" + s, s, "$or" + s, "$and " + s + " and", "$or " + s + " or"}
}

// a tree with the hostile operator key `op` at position pos (0..4), for the listing
func opTree(listing, op string, pos, width int) Node {
	o := BStr(op)
	kids := validLeaves(listing)[:width]
	set := Node{T: []string{"or", "and"}[pos%2], Items: kids, RawOp: &o}
	switch pos % 5 {
	case 0: // set at the top
		return set
	case 1: // set inside a documented $and
		return Node{T: "and", Items: []Node{kids[0], set}}
	case 2: // set inside $not inside $or
		return Node{T: "or", Items: []Node{{T: "not", Items: []Node{set}}, kids[0]}}
	case 3: // comparison node
		l := kids[0]
		l.RawOp = &o
		return Node{T: "and", Items: []Node{l, kids[1]}}
	}
	// $not wrapper
	return Node{T: "and", Items: []Node{{T: "not", Items: []Node{kids[0]}, RawOp: &o}, kids[1]}}
}

// the keys each listing accepts, with a valid value (read from the query contexts of ledgerstore)
var acceptedKeys = map[string][][2]string{
	"accounts":     {{"address", "users:"}, {"metadata[k1]", "v"}, {"balance[USD]", "5"}, {"balance", "5"}},
	"transactions": {{"reference", "ref1"}, {"timestamp", "2023-01-01T00:00:00Z"}, {"account", "users:001"}, {"source", "world"}, {"destination", "bank"}, {"metadata[k1]", "v"}},
	"balances":     {{"address", "users:"}, {"metadata[k1]", "v"}},
	"logs":         {{"date", "2023-01-01T00:00:00Z"}},
}

var tablePrefix = map[string][]string{
	"accounts": {"accounts.", "accounts_metadata."}, "transactions": {"transactions.", "transactions_metadata."},
	"balances": {"moves.", "accounts."}, "logs": {"logs.", "\"logs\"."},
}

// keys derived from the accepted key v: hostile text around it, other letter case, blanks, qualified
func keyForms(listing, v, hs string, k int) []string {
	switch k % 3 {
	case 0:
		return []string{v + hs}
	case 1:
		return []string{hs + v}
	}
	return []string{v + " " + hs + " " + v}
}

func keyVariants(listing, v string) []string {
	out := []string{strings.ToUpper(v), strings.ToUpper(v[:1]) + v[1:], " " + v, v + " ", "\t" + v + "\n", v + " is not null or " + v, v + " = " + v + " or " + v, v + "::text", v + ")", "(" + v, v + "--", v + "/**/"}
	for _, p := range tablePrefix[listing] {
		out = append(out, p+v)
	}
	return out
}

// cursorVariants: the paging fields a forged cursor can carry, for the listing's pagination kind
func cursorVariants(listing string) []CursorSpec {
	var out []CursorSpec
	if listing == "accounts" || listing == "balances" {
		for _, off := range []uint64{0, 1, 15, 1000} {
			for _, ord := range []int{0, 1} {
				out = append(out, CursorSpec{Offset: off, Order: ord})
			}
		}
		return out
	}
	ids := []*int64{nil}
	for _, v := range []int64{0, 1, 15, 1000} {
		v := v
		ids = append(ids, &v)
	}
	for _, id := range ids {
		for _, rev := range []bool{false, true} {
			for _, ord := range []int{0, 1} {
				out = append(out, CursorSpec{PaginationID: id, Reverse: rev, Order: ord})
			}
		}
	}
	return out
}

// the same input carried by a cursor; k selects the variant
func withCursor(in Input, k int) Input {
	vs := cursorVariants(in.Listing)
	c := vs[k%len(vs)]
	in.Cursor = &c
	return in
}

// probeColumn records (without judging: the column of a cursor is not a list filter) what a forged `column` of a
// column-paginated cursor does to the statement.
func (h *harness) probeColumn(r *vx.Run) {
	q := ledgerstore.NewGetTransactionsQuery(ledgerstore.NewPaginatedQueryOptions(ledgerstore.PITFilterWithVolumes{}))
	q.Column = "id desc, (select zq1) --"
	u := url.Values{}
	u.Set("cursor", bunpaginate.EncodeCursor(q))
	for _, via := range []string{"v1", "v2"} {
		o := h.runHTTP(h.router(via), http.MethodGet, "/transactions", u, "")
		if o.rejected() {
			r.Sum.Notes = append(r.Sum.Notes, "observation (not judged under C20): "+via+" /transactions with a forged cursor column is rejected: "+o.Err)
			continue
		}
		sr := scanSQL(o.one())
		r.Sum.Notes = append(r.Sum.Notes, fmt.Sprintf("observation (not judged under C20): %s /transactions?cursor= with column %q sends %q (comment reached: %v)", via, q.Column, o.one(), sr.comment))
	}
}

func main() {
	r := vx.Start("C20", "sqltext")
	if f, err := os.Create(filepath.Join(r.Out, "stderr.log")); err == nil { // bun and logrus write warnings to stderr
		_ = syscall.Dup2(int(f.Fd()), 2)
	}
	r.Cases("From FL Require Import SqlText.Model.\n", "case", 300)
	r.Sum.Rule = "filter trees ($match/$lt/$lte/$gt/$gte/and/or/not) over every key of each listing (address, account, source, destination, metadata[..], balance[..], balance, reference, timestamp, date, unknown keys) with hostile values (quotes, backslashes, ?, ?(, \\?, $1, --, /* */, NUL, newlines, invalid UTF-8, non-ASCII, long, nested JSON) sent through GetAccountsWithVolumes, CountAccounts, GetTransactions, CountTransactions, GetAggregatedBalances, GetLogs of the real store over a recording driver and through the real v1/v2 handlers; non-trivial = accepted by the store and some client string contains a quote, backslash or ?; distinct by the JSON of the input and list/count"
	h := newHarness()
	h.probeColumn(r)
	docs, replayOnly := r.Inputs()
	for _, d := range docs {
		var in Input
		if err := json.Unmarshal(d, &in); err == nil && in.Listing != "" {
			if in.PIT == "" {
				in.PIT = "nil"
			}
			h.one(r, in, true)
		}
	}
	if replayOnly {
		r.Finish()
		return
	}
	// systematic part: every key of every listing x every operator x every hostile string, as a single leaf
	sysKeys := map[string][]string{
		"accounts":     {"address", "metadata[k1]", "balance[USD]", "balance"},
		"transactions": {"reference", "timestamp", "account", "source", "destination", "metadata[k1]"},
		"balances":     {"address", "metadata[k1]"},
		"logs":         {"date"},
	}
	nsys := 0
	for _, l := range listings {
		for _, k := range sysKeys[l] {
			for hi, s := range hostile {
				for oi, op := range []string{"$match", "$lt"} {
					if oi == 1 && (hi%7 != 0 || keyClass(l, k) == "addr") {
						continue
					}
					in := Input{Listing: l, PIT: []string{"nil", "set", "zero"}[(hi+oi)%3], Tree: Node{T: "leaf", Key: BStr(k), Op: op, Val: &Val{K: "str", S: BStr(s)}}}
					h.one(r, in, r.Thorough() || nsys%2 == 0)
					nsys++
					// the same filter carried by a pagination cursor: one paging variant per input, all of them for
					// the keys whose value is formatted into the statement
					if keyClass(l, k) == "addr" && oi == 0 {
						for v := range cursorVariants(l) {
							h.one(r, withCursor(in, v), (r.Thorough() || nsys%2 == 0) && v%8 == 3)
						}
					} else {
						h.one(r, withCursor(in, nsys), r.Thorough() && nsys%4 == 0)
					}
					// the same string as a metadata key / asset
					if hi%3 == 0 && strings.Contains(k, "[") && oi == 0 {
						kk := k[:strings.Index(k, "[")] + "[" + s + "]"
						ik := Input{Listing: l, PIT: "nil", Tree: Node{T: "leaf", Key: BStr(kk), Op: op, Val: &Val{K: "str", S: "v"}}}
						h.one(r, ik, r.Thorough() || nsys%2 == 0)
						h.one(r, withCursor(ik, nsys), false)
					}
				}
			}
		}
	}
	// hostile text in OPERATOR position (exists only in the JSON syntax: ParseJSON + store call, v2 body, v1 `query`,
	// cursors), at every kind of node and nesting, with 2-3 valid children
	nop := 0
	extra := []string{"", "$", "$AND", "$or ", "$nor", "$and", "$ or", "$or zq1injected = 1 or", "$and zq1 = 1 and", "$or\n--", "$or/*", "$or' or '"}
	for _, l := range listings {
		var opsList []string
		for hi, s := range hostile {
			forms := opForms(s)
			opsList = append(opsList, forms[hi%len(forms)], forms[(hi+3)%len(forms)])
		}
		opsList = append(opsList, extra...)
		for oi, op := range opsList {
			for pos := 0; pos < 5; pos++ {
				if !r.Thorough() && pos != (oi+nop)%5 && pos != 0 {
					continue
				}
				in := Input{Listing: l, PIT: []string{"nil", "set"}[oi%2], Tree: opTree(l, op, pos, 2+(oi+pos)%2)}
				h.one(r, in, false)
				h.one(r, withCursor(in, oi+pos), false)
				nop++
			}
		}
	}
	// hostile text in KEY position of comparison nodes: around every key a listing accepts, all operators
	allOps := []string{"$match", "$lt", "$lte", "$gt", "$gte"}
	nkey := 0
	keyLeaf := func(l, key, base, val, op string) {
		in := Input{Listing: l, PIT: []string{"nil", "set"}[nkey%2], Tree: Node{T: "leaf", Key: BStr(key), BaseKey: BStr(base), Op: op, Val: &Val{K: "str", S: BStr(val)}}}
		if nkey%3 == 1 { // nested
			in.Tree = Node{T: "and", Items: []Node{in.Tree, {T: "not", Items: []Node{in.Tree}}}}
		}
		h.one(r, in, false)
		if r.Thorough() || nkey%2 == 0 {
			h.one(r, withCursor(in, nkey), false)
		}
		nkey++
	}
	for _, l := range listings {
		for ki, kv := range acceptedKeys[l] {
			for _, kk := range keyVariants(l, kv[0]) {
				for _, op := range allOps {
					keyLeaf(l, kk, kv[0], kv[1], op)
				}
			}
			for hi, hs := range hostile {
				if hs == "" {
					continue
				}
				forms := []int{hi + ki}
				if r.Thorough() {
					forms = []int{0, 1, 2}
				}
				for _, f := range forms {
					for _, kk := range keyForms(l, kv[0], hs, f) {
						keyLeaf(l, kk, kv[0], kv[1], allOps[(hi+f)%5])
					}
				}
			}
		}
		for hi, hs := range hostile { // pure hostile keys
			keyLeaf(l, hs, "", acceptedKeys[l][0][1], allOps[hi%5])
		}
	}
	// random trees
	g := vx.NewRng(r.Seed)
	N := 1500
	if r.Thorough() {
		N = 300000
		maxCoqLen = 4000
	}
	for i := 0; i < N; i++ {
		l := listings[g.Intn(len(listings))]
		in := Input{Listing: l, PIT: []string{"nil", "nil", "set", "zero"}[g.Intn(4)], Expand: g.Chance(1, 5), Tree: genTree(g, l, 0, g.Chance(1, 20))}
		emit := true
		if r.Thorough() {
			emit = i%8 == 0
		}
		h.one(r, in, emit)
		h.one(r, withCursor(in, i), emit && i%4 == 0)
	}
	r.Finish()
}
