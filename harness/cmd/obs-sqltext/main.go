package main

import (
	"context"
	"database/sql"
	"fmt"

	"github.com/formancehq/ledger/internal/storage/ledgerstore"
	"github.com/formancehq/ledger/verifx/fakesql/recorder"
	"github.com/formancehq/stack/libs/go-libs/query"
	"github.com/uptrace/bun"
	"github.com/uptrace/bun/dialect/pgdialect"
)

func main() {
	rec := recorder.New()
	db := bun.NewDB(sql.OpenDB(rec), pgdialect.New(), bun.WithDiscardUnknownColumns())
	st := ledgerstore.NewStoreForVerif(db, "bucket0", "ledger0")
	ctx := context.Background()
	show := func(name string, f func() error) {
		func() {
			defer func() {
				if r := recover(); r != nil {
					fmt.Println(name, "PANIC", r)
				}
			}()
			err := f()
			fmt.Println("==", name, "err=", err)
		}()
		for _, s := range rec.Take() {
			fmt.Printf("   [%s args=%d] %s\n", s.Kind, s.Args, s.SQL)
		}
	}
	for _, v := range []any{"abc", "a' or 1=1 --", "a:", "x?(", `a\?b`, "?TableName ?0 ?", 1.5, map[string]any{"a": "x'y"}} {
		v := v
		show(fmt.Sprint("acc address ", v), func() error {
			_, err := st.GetAccountsWithVolumes(ctx, ledgerstore.NewGetAccountsQuery(ledgerstore.NewPaginatedQueryOptions(ledgerstore.PITFilterWithVolumes{}).WithQueryBuilder(query.Match("address", v))))
			return err
		})
		show(fmt.Sprint("acc meta ", v), func() error {
			_, err := st.GetAccountsWithVolumes(ctx, ledgerstore.NewGetAccountsQuery(ledgerstore.NewPaginatedQueryOptions(ledgerstore.PITFilterWithVolumes{}).WithQueryBuilder(query.Match("metadata[k'?]", v))))
			return err
		})
		show(fmt.Sprint("count acc meta ", v), func() error {
			_, err := st.CountAccounts(ctx, ledgerstore.NewGetAccountsQuery(ledgerstore.NewPaginatedQueryOptions(ledgerstore.PITFilterWithVolumes{}).WithQueryBuilder(query.Match("metadata[k]", v))))
			return err
		})
		show(fmt.Sprint("tx ref ", v), func() error {
			_, err := st.GetTransactions(ctx, ledgerstore.NewGetTransactionsQuery(ledgerstore.NewPaginatedQueryOptions(ledgerstore.PITFilterWithVolumes{}).WithQueryBuilder(query.Match("reference", v))))
			return err
		})
		show(fmt.Sprint("count tx ref ", v), func() error {
			_, err := st.CountTransactions(ctx, ledgerstore.NewGetTransactionsQuery(ledgerstore.NewPaginatedQueryOptions(ledgerstore.PITFilterWithVolumes{}).WithQueryBuilder(query.Match("reference", v))))
			return err
		})
		show(fmt.Sprint("tx account ", v), func() error {
			_, err := st.GetTransactions(ctx, ledgerstore.NewGetTransactionsQuery(ledgerstore.NewPaginatedQueryOptions(ledgerstore.PITFilterWithVolumes{}).WithQueryBuilder(query.Match("account", v))))
			return err
		})
		show(fmt.Sprint("bal address ", v), func() error {
			_, err := st.GetAggregatedBalances(ctx, ledgerstore.NewGetAggregatedBalancesQuery(ledgerstore.NewPaginatedQueryOptions(ledgerstore.PITFilter{}).WithQueryBuilder(query.Match("address", v))))
			return err
		})
		show(fmt.Sprint("logs date ", v), func() error {
			_, err := st.GetLogs(ctx, ledgerstore.NewGetLogsQuery(ledgerstore.NewPaginatedQueryOptions[any](nil).WithQueryBuilder(query.Lt("date", v))))
			return err
		})
	}
}
