package main

import (
	"fmt"
	"sort"
	"strings"

	"github.com/formancehq/ledger/verifx/vx"
)

func (nm names) coqMeta(m map[string]string) string {
	type kv struct{ k, v uint64 }
	var l []kv
	for k, v := range m {
		l = append(l, kv{nm.key[k], nm.value[v]})
	}
	sort.Slice(l, func(i, j int) bool { return l[i].k < l[j].k })
	var xs []string
	for _, e := range l {
		xs = append(xs, fmt.Sprintf("(%d%%N, %d%%N)", e.k, e.v))
	}
	return "[" + strings.Join(xs, "; ") + "]"
}

func (nm names) coqTx(t *Tx) string {
	var ps []string
	for _, p := range t.Postings {
		ps = append(ps, fmt.Sprintf("{| p_src := %d%%N; p_dst := %d%%N; p_asset := %d%%N; p_amt := %s |}",
			nm.account[p.Src], nm.account[p.Dst], nm.asset[p.Asset], zc(p.Amount)))
	}
	ref := "None"
	if t.Ref != "" {
		ref = fmt.Sprintf("(Some %d%%N)", nm.ref[t.Ref])
	}
	return fmt.Sprintf("{| t_id := %s; t_ts := %s; t_off := %s; t_ref := %s; t_postings := [%s]; t_meta := %s |}",
		zc(t.ID), zc(t.TS), zc(t.Off*sec), ref, strings.Join(ps, "; "), nm.coqMeta(t.Meta))
}

func (nm names) coqLog(e LogIn) string {
	var data string
	switch e.Kind {
	case "new":
		// accountMetadata is iterated by jsonb_each_text in jsonb key order (shorter keys first, then bytewise)
		var am []string
		for _, a := range jsonbKeys(e.AccMeta) {
			am = append(am, fmt.Sprintf("(%d%%N, %s)", nm.account[a], nm.coqMeta(e.AccMeta[a])))
		}
		data = fmt.Sprintf("PNew %s [%s]", nm.coqTx(e.Tx), strings.Join(am, "; "))
	case "revert":
		data = fmt.Sprintf("PRevert %s %s", nm.coqTx(e.Tx), zc(e.Reverted))
	case "set":
		if e.TxTarget != nil {
			data = fmt.Sprintf("PSet (TTx %s) %s", zc(*e.TxTarget), nm.coqMeta(e.Meta))
		} else {
			data = fmt.Sprintf("PSet (TAccount %d%%N) %s", nm.account[e.Account], nm.coqMeta(e.Meta))
		}
	case "del":
		if e.TxTarget != nil {
			data = fmt.Sprintf("PDel (TTx %s) %d%%N", zc(*e.TxTarget), nm.key[e.Key])
		} else {
			data = fmt.Sprintf("PDel (TAccount %d%%N) %d%%N", nm.account[e.Account], nm.key[e.Key])
		}
	}
	return fmt.Sprintf("{| l_ledger := %d%%N; l_id := %s; l_date := %s; l_data := %s |}", nm.ledger[e.Ledger], zc(e.ID), zc(e.Date), data)
}

func coqCase(h History, nm names, failed bool, reads []read) string {
	var ls []string
	for _, e := range h.Logs {
		ls = append(ls, nm.coqLog(e))
	}
	var rs []string
	for _, rd := range reads {
		if rd.Q == "" {
			continue // checked by the oracle only (Go row hydration, listings)
		}
		rs = append(rs, fmt.Sprintf("(%s, %s)", rd.Q, rd.Cell))
	}
	return fmt.Sprintf("{| c_logs := [%s];\n   c_err := %s;\n   c_reads := [%s] |}", strings.Join(ls, ";\n     "), vx.CoqBool(failed),
		strings.Join(rs, ";\n     "))
}
