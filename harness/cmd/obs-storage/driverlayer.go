package main

import (
	"context"
	"database/sql"
	"fmt"
	"os"
	"reflect"
	"unsafe"

	"github.com/formancehq/ledger/internal/storage/driver"
	"github.com/formancehq/ledger/internal/storage/ledgerstore"
	"github.com/formancehq/ledger/internal/storage/systemstore"
	"github.com/formancehq/ledger/verifx/minipg"
	"github.com/formancehq/stack/libs/go-libs/bun/bunconnect"
	"github.com/uptrace/bun"
	"github.com/uptrace/bun/dialect/pgdialect"
)

// The driver layer (internal/storage/driver, systemstore, ledgerstore.Bucket) inside the tie.
//
// The real driver.Driver opens its connections with sql.Open("postgres", dsn) (lib/pq over TCP), which cannot be pointed at an
// in-process database, and CreateLedgerStore runs the migrations library (schemas, information_schema, version tables, bind
// arguments) which minipg does not serve. So: a Driver value is assembled over minipg-backed bun.DBs by setting its unexported
// fields (systemStore, db, buckets) — a renamed field is reported as a broken tie — the `_system.ledgers` table is declared by
// hand from the bun tags of systemstore.Ledger, ledgers are registered with the real systemstore.RegisterLedger and their
// write-side stores taken the way CreateLedgerStore does (bucket.GetLedgerStore(name)); then a SECOND Driver over the same
// databases stands for the restart, and every read-side store comes from the real Driver.GetLedgerStore(ctx, name)
// (systemStore.GetLedger -> OpenBucket -> Bucket.GetLedgerStore).
//
// All ledgers of a history live in ONE bucket, named like the second ledger ("l1"): "l0" is a ledger whose name differs from
// its bucket's, "l1" is a ledger named like its bucket, and they share the tables.

const sharedBucket = "l1"

const systemSchemaSQL = `create table ledgers (ledger varchar(255) primary key, addedat timestamp, bucket varchar(255));`

var systemEngine *minipg.Engine

func loadSystemSchema() {
	e, err := minipg.Load(systemSchemaSQL)
	if err != nil {
		fmt.Fprintln(os.Stderr, "cannot declare the _system.ledgers table:", err)
		os.Exit(3)
	}
	systemEngine = e
}

func setUnexported(ptr any, field string, val any) error {
	v := reflect.ValueOf(ptr).Elem().FieldByName(field)
	if !v.IsValid() {
		return fmt.Errorf("%T has no field %q any more", ptr, field)
	}
	if !reflect.TypeOf(val).AssignableTo(v.Type()) {
		return fmt.Errorf("%T.%s is a %s, not a %T", ptr, field, v.Type(), val)
	}
	reflect.NewAt(v.Type(), unsafe.Pointer(v.UnsafeAddr())).Elem().Set(reflect.ValueOf(val))
	return nil
}

// newDriver assembles a driver.Driver over the system database and the bucket database
func newDriver(sysDB, bucketDB *minipg.DB) (*driver.Driver, error) {
	open := func(d *minipg.DB) *bun.DB {
		return bun.NewDB(sql.OpenDB(minipg.Connector(d)), pgdialect.New(), bun.WithDiscardUnknownColumns())
	}
	ss := &systemstore.Store{}
	if err := setUnexported(ss, "db", open(sysDB)); err != nil {
		return nil, err
	}
	b := &ledgerstore.Bucket{}
	if err := setUnexported(b, "db", open(bucketDB)); err != nil {
		return nil, err
	}
	if err := setUnexported(b, "name", sharedBucket); err != nil {
		return nil, err
	}
	d := driver.New(bunconnect.ConnectionOptions{})
	if err := setUnexported(d, "systemStore", ss); err != nil {
		return nil, err
	}
	if err := setUnexported(d, "db", open(sysDB)); err != nil {
		return nil, err
	}
	if err := setUnexported(d, "buckets", map[string]*ledgerstore.Bucket{sharedBucket: b}); err != nil {
		return nil, err
	}
	return d, nil
}

// createLedgers: what CreateLedgerStore does apart from the migrations: register the ledger, hand out bucket.GetLedgerStore(name)
func createLedgers(ctx context.Context, d *driver.Driver, names []string) (map[string]*ledgerstore.Store, error) {
	out := map[string]*ledgerstore.Store{}
	for _, n := range names {
		if _, err := d.GetSystemStore().RegisterLedger(ctx, &systemstore.Ledger{Name: n, AddedAt: toTime(0), Bucket: sharedBucket}); err != nil {
			return nil, fmt.Errorf("RegisterLedger(%s): %w", n, err)
		}
		b, err := d.OpenBucket(sharedBucket)
		if err != nil {
			return nil, err
		}
		st, err := b.GetLedgerStore(n)
		if err != nil {
			return nil, err
		}
		out[n] = st
	}
	return out, nil
}
