package main

import (
	"context"
	"encoding/json"
	"fmt"
	"math/big"
	"os"
	"sort"
	"strings"
	"time"

	ledger "github.com/formancehq/ledger/internal"
	"github.com/formancehq/ledger/internal/storage/ledgerstore"
	"github.com/formancehq/ledger/verifx/minipg"
	"github.com/formancehq/ledger/verifx/vx"
	"github.com/formancehq/stack/libs/go-libs/metadata"
	"github.com/formancehq/stack/libs/go-libs/query"
)

// ---- interning: order-preserving within each class, so that ORDER BY / GROUP BY / jsonb key order of the text values
// and the order of the interned numbers agree ----------------------------------------------------------------------------
type names struct {
	ledger, account, asset, key, value, ref map[string]uint64
}

func internSorted(set map[string]bool, jsonbOrder bool) map[string]uint64 {
	ks := make([]string, 0, len(set))
	for k := range set {
		ks = append(ks, k)
	}
	sort.Strings(ks)
	if jsonbOrder {
		sort.SliceStable(ks, func(i, j int) bool {
			if len(ks[i]) != len(ks[j]) {
				return len(ks[i]) < len(ks[j])
			}
			return ks[i] < ks[j]
		})
	}
	m := map[string]uint64{}
	for i, k := range ks {
		m[k] = uint64(i)
	}
	return m
}

func collectNames(h History) names {
	led, acc, ass, key, val, ref := map[string]bool{}, map[string]bool{}, map[string]bool{}, map[string]bool{}, map[string]bool{}, map[string]bool{}
	for _, a := range uAccounts {
		acc[a] = true
	}
	addMeta := func(m map[string]string) {
		for k, v := range m {
			key[k] = true
			val[v] = true
		}
	}
	for _, e := range h.Logs {
		led[e.Ledger] = true
		if e.Tx != nil {
			for _, p := range e.Tx.Postings {
				acc[p.Src], acc[p.Dst], ass[p.Asset] = true, true, true
			}
			addMeta(e.Tx.Meta)
			if e.Tx.Ref != "" {
				ref[e.Tx.Ref] = true
			}
		}
		for a, m := range e.AccMeta {
			acc[a] = true
			addMeta(m)
		}
		if e.Account != "" {
			acc[e.Account] = true
		}
		addMeta(e.Meta)
		if e.Key != "" {
			key[e.Key] = true
		}
	}
	return names{internSorted(led, false), internSorted(acc, false), internSorted(ass, false), internSorted(key, true),
		internSorted(val, false), internSorted(ref, false)}
}

// ---- cells (Coq terms of type cell) -----------------------------------------------------------------------------------------
func cz(n int64) string {
	if n < 0 {
		return fmt.Sprintf("CZ (%d)", n)
	}
	return fmt.Sprintf("CZ %d", n)
}
func czBig(n *big.Int) string {
	if n.Sign() < 0 {
		return "CZ (" + n.String() + ")"
	}
	return "CZ " + n.String()
}
func cn(n uint64) string     { return fmt.Sprintf("CN %d%%N", n) }
func cb(b bool) string       { return "CB " + vx.CoqBool(b) }
func cl(xs ...string) string { return "CL [" + strings.Join(xs, "; ") + "]" }
func cls(xs []string) string { return "CL [" + strings.Join(xs, "; ") + "]" }
func par(s string) string    { return "(" + s + ")" }

const cnull = "CNull"

func (nm names) cmeta(m map[string]string) string {
	type kv struct{ k, v uint64 }
	var l []kv
	for k, v := range m {
		l = append(l, kv{nm.key[k], nm.value[v]})
	}
	sort.Slice(l, func(i, j int) bool { return l[i].k < l[j].k })
	var xs []string
	for _, e := range l {
		xs = append(xs, cl(cn(e.k), cn(e.v)))
	}
	return cls(xs)
}

func (nm names) cposting(p Posting) string {
	return cl(cn(nm.account[p.Src]), cn(nm.account[p.Dst]), cn(nm.asset[p.Asset]), cz(p.Amount))
}

// ---- running one history ----------------------------------------------------------------------------------------------------
type read struct {
	Q    string // Coq term of type query
	Cell string // observed
	Kind string
	// for the oracle
	Ledger  string
	Account string
	Asset   string
	Pit     *int64
	TxID    int64
	// oracle-only reads (Q == ""): the expanded transaction after toCore, the listings filtered by address
	Expanded *ledger.ExpandedTransaction
	Panic    string
	Pattern  string
	Key      string
	IDs      []string
	Count    int
	Value    string                 // metadata filter: Key = Value
	RowVols  []map[string][2]string // volumes of the returned rows (asset -> input, output), nil when null
	RowEff   []map[string][2]string
	RowNull  []bool              // the row's metadata is NULL
	RowMeta  []map[string]string // metadata of the returned rows, in the order of IDs
}

func toTime(us int64) ledger.Time {
	return ledger.Time{Time: time.Unix(baseEpoch, 0).Add(time.Duration(us) * time.Microsecond).UTC()}
}

func txToCore(t *Tx) *ledger.Transaction {
	var ps []ledger.Posting
	for _, p := range t.Postings {
		ps = append(ps, ledger.NewPosting(p.Src, p.Dst, p.Asset, big.NewInt(p.Amount)))
	}
	// the timestamp text carries the zone offset: wall-clock fields TS, offset Off
	ts := ledger.Time{Time: toTime(t.TS - t.Off*sec).In(time.FixedZone("", int(t.Off)))}
	if t.Off == 0 {
		ts = toTime(t.TS)
	}
	md := metadata.Metadata{}
	for k, v := range t.Meta {
		md[k] = v
	}
	tx := ledger.NewTransaction().WithID(big.NewInt(t.ID)).WithDate(ts).WithPostings(ps...).WithMetadata(md)
	if t.Ref != "" {
		tx = tx.WithReference(t.Ref)
	}
	return tx
}

func buildLog(e LogIn) *ledger.ChainedLog {
	at := toTime(e.Date)
	var l *ledger.Log
	md := metadata.Metadata{}
	for k, v := range e.Meta {
		md[k] = v
	}
	switch e.Kind {
	case "new":
		am := map[string]metadata.Metadata{}
		for a, m := range e.AccMeta {
			mm := metadata.Metadata{}
			for k, v := range m {
				mm[k] = v
			}
			am[a] = mm
		}
		l = ledger.NewTransactionLogWithDate(txToCore(e.Tx), am, at)
	case "revert":
		l = ledger.NewRevertedTransactionLog(at, big.NewInt(e.Reverted), txToCore(e.Tx))
	case "set":
		if e.TxTarget != nil {
			l = ledger.NewSetMetadataOnTransactionLog(at, big.NewInt(*e.TxTarget), md)
		} else {
			l = ledger.NewSetMetadataOnAccountLog(at, e.Account, md)
		}
	case "del":
		if e.TxTarget != nil {
			l = ledger.NewDeleteMetadataLog(at, ledger.DeleteMetadataLogPayload{TargetType: ledger.MetaTargetTypeTransaction, TargetID: big.NewInt(*e.TxTarget), Key: e.Key})
		} else {
			l = ledger.NewDeleteMetadataLog(at, ledger.DeleteMetadataLogPayload{TargetType: ledger.MetaTargetTypeAccount, TargetID: e.Account, Key: e.Key})
		}
	}
	return &ledger.ChainedLog{Log: *l, ID: big.NewInt(e.ID), Hash: []byte{1, 2, 3}}
}

type runner struct {
	r      *vx.Run
	h      History
	nm     names
	db     *minipg.DB
	stores map[string]*ledgerstore.Store
	ctx    context.Context
	reads  []read
	fault  string
}

func (x *runner) query(sqlText string) [][]minipg.Value {
	res, err := x.db.Query(sqlText)
	if err != nil {
		if x.fault == "" {
			x.fault = fmt.Sprintf("%s: %v", short(sqlText, 120), err)
		}
		return nil
	}
	return res.Rows
}

func secOf(v minipg.Value) (int64, bool) {
	t, ok := v.(minipg.Timestamp)
	if !ok {
		return 0, false
	}
	us := int64(t)
	return us - baseEpoch*sec, true
}

func (x *runner) ctime(v minipg.Value) string {
	if v == nil {
		return cnull
	}
	s, ok := secOf(v)
	if !ok {
		x.fault = fmt.Sprintf("not a timestamp: %v", v)
		return cnull
	}
	return cz(s)
}

func (x *runner) cnum(v minipg.Value) string {
	if v == nil {
		return cnull
	}
	if b, ok := v.(*big.Int); ok {
		return czBig(b)
	}
	x.fault = fmt.Sprintf("not a number: %T %v", v, v)
	return cnull
}

func (x *runner) cname(m map[string]uint64, v minipg.Value) string {
	if v == nil {
		return cnull
	}
	s, ok := v.(string)
	if !ok {
		x.fault = fmt.Sprintf("not a string: %T %v", v, v)
		return cnull
	}
	id, ok := m[s]
	if !ok {
		x.fault = fmt.Sprintf("unknown name %q", s)
		return cnull
	}
	return cn(id)
}

func (x *runner) cjsonMeta(v minipg.Value) string {
	if v == nil {
		return cnull
	}
	var m map[string]string
	if err := json.Unmarshal([]byte(minipg.Text(v)), &m); err != nil {
		x.fault = fmt.Sprintf("metadata is not an object of strings: %s", minipg.Text(v))
		return cnull
	}
	return x.nm.cmeta(m)
}

func (x *runner) cvolPair(in, out minipg.Value) string { return cl(x.cnum(in), x.cnum(out)) }

func pitSQL(p *int64) string {
	if p == nil {
		return "NULL"
	}
	return "'" + toTime(*p).Format("2006-01-02 15:04:05.000000") + "'::timestamp"
}

func pitCoq(p *int64) string {
	if p == nil {
		return "None"
	}
	if *p < 0 {
		return fmt.Sprintf("(Some (%d))", *p)
	}
	return fmt.Sprintf("(Some %d)", *p)
}

func zc(n int64) string {
	if n < 0 {
		return fmt.Sprintf("(%d)", n)
	}
	return fmt.Sprintf("%d", n)
}

func (x *runner) dumpTables() map[[2]string]int64 {
	nm := x.nm
	var rows []string
	for _, r := range x.query(`select seq, ledger, transactions_seq, accounts_seq, account_address, asset, amount, insertion_date, effective_date,
		(post_commit_volumes).inputs, (post_commit_volumes).outputs, (post_commit_effective_volumes).inputs,
		(post_commit_effective_volumes).outputs, is_source from moves order by seq`) {
		b, _ := r[13].(bool)
		rows = append(rows, cl(x.cnum(r[0]), x.cname(nm.ledger, r[1]), x.cnum(r[2]), x.cnum(r[3]), x.cname(nm.account, r[4]),
			x.cname(nm.asset, r[5]), x.cnum(r[6]), x.ctime(r[7]), x.ctime(r[8]), x.cvolPair(r[9], r[10]), x.cvolPair(r[11], r[12]), cb(b)))
	}
	x.reads = append(x.reads, read{Q: "QMoves", Cell: cls(rows), Kind: "table"})
	rows = nil
	for _, r := range x.query(`select seq, ledger, address, insertion_date, updated_at, metadata from accounts order by seq`) {
		rows = append(rows, cl(x.cnum(r[0]), x.cname(nm.ledger, r[1]), x.cname(nm.account, r[2]), x.ctime(r[3]), x.ctime(r[4]), x.cjsonMeta(r[5])))
	}
	x.reads = append(x.reads, read{Q: "QAccounts", Cell: cls(rows), Kind: "table"})
	rows = nil
	for _, r := range x.query(`select seq, ledger, accounts_seq, metadata, revision, date from accounts_metadata order by seq`) {
		rows = append(rows, cl(x.cnum(r[0]), x.cname(nm.ledger, r[1]), x.cnum(r[2]), x.cjsonMeta(r[3]), x.cnum(r[4]), x.ctime(r[5])))
	}
	x.reads = append(x.reads, read{Q: "QAccountsMetadata", Cell: cls(rows), Kind: "table"})
	rows = nil
	txSeq := map[[2]string]int64{}
	for _, r := range x.query(`select seq, ledger, id, timestamp, reference, reverted_at, updated_at, postings, metadata from transactions order by seq`) {
		var ps []struct {
			Source, Destination, Asset string
			Amount                     *big.Int
		}
		if s, ok := r[7].(string); !ok || json.Unmarshal([]byte(s), &ps) != nil {
			x.fault = fmt.Sprintf("transactions.postings is not the JSON text of the postings: %v", r[7])
		}
		var pcs []string
		for _, p := range ps {
			if p.Amount == nil {
				p.Amount = big.NewInt(0)
			}
			pcs = append(pcs, cl(cn(nm.account[p.Source]), cn(nm.account[p.Destination]), cn(nm.asset[p.Asset]), czBig(p.Amount)))
		}
		rows = append(rows, cl(x.cnum(r[0]), x.cname(nm.ledger, r[1]), x.cnum(r[2]), x.ctime(r[3]), x.cname(nm.ref, r[4]), x.ctime(r[5]),
			x.ctime(r[6]), cls(pcs), x.cjsonMeta(r[8])))
		if l, ok := r[1].(string); ok {
			if id, ok := r[2].(*big.Int); ok {
				if s, ok := r[0].(*big.Int); ok {
					txSeq[[2]string{l, id.String()}] = s.Int64()
				}
			}
		}
	}
	x.reads = append(x.reads, read{Q: "QTransactions", Cell: cls(rows), Kind: "table"})
	rows = nil
	for _, r := range x.query(`select seq, ledger, transactions_seq, revision, date, metadata from transactions_metadata order by seq`) {
		rows = append(rows, cl(x.cnum(r[0]), x.cname(nm.ledger, r[1]), x.cnum(r[2]), x.cnum(r[3]), x.ctime(r[4]), x.cjsonMeta(r[5])))
	}
	x.reads = append(x.reads, read{Q: "QTransactionsMetadata", Cell: cls(rows), Kind: "table"})
	rows = nil
	for _, r := range x.query(`select seq, ledger, id, date from logs order by seq`) {
		rows = append(rows, cl(x.cnum(r[0]), x.cname(nm.ledger, r[1]), x.cnum(r[2]), x.ctime(r[3])))
	}
	x.reads = append(x.reads, read{Q: "QLogs", Cell: cls(rows), Kind: "table"})
	return txSeq
}

func sqlStr(s string) string { return "'" + strings.ReplaceAll(s, "'", "''") + "'" }

// rows (asset, inputs, outputs) -> cell list sorted by interned asset
func (x *runner) volsCell(rows [][]minipg.Value) string {
	type e struct {
		k uint64
		c string
	}
	var l []e
	for _, r := range rows {
		s, _ := r[0].(string)
		l = append(l, e{x.nm.asset[s], cl(x.cname(x.nm.asset, r[0]), x.cvolPair(r[1], r[2]))})
	}
	sort.SliceStable(l, func(i, j int) bool { return l[i].k < l[j].k })
	var xs []string
	for _, v := range l {
		xs = append(xs, v.c)
	}
	return cls(xs)
}

// jsonb {account: {asset: {input, output}} | null} -> cell list sorted by (account, asset)
func (x *runner) txVolsCell(v minipg.Value) string {
	if v == nil {
		return cls(nil)
	}
	var m map[string]map[string]struct{ Input, Output *big.Int }
	if err := json.Unmarshal([]byte(minipg.Text(v)), &m); err != nil {
		x.fault = "transaction volumes are not {account: {asset: {input, output}}}: " + minipg.Text(v)
		return cls(nil)
	}
	type e struct {
		a, s uint64
		c    string
	}
	var l []e
	for a, per := range m {
		if per == nil {
			l = append(l, e{x.nm.account[a], 0, cl(cn(x.nm.account[a]), cnull)})
			continue
		}
		for s, vol := range per {
			l = append(l, e{x.nm.account[a], x.nm.asset[s], cl(cn(x.nm.account[a]), cn(x.nm.asset[s]), cl(czBig(vol.Input), czBig(vol.Output)))})
		}
	}
	sort.Slice(l, func(i, j int) bool { return l[i].a < l[j].a || l[i].a == l[j].a && l[i].s < l[j].s })
	var xs []string
	for _, v := range l {
		xs = append(xs, v.c)
	}
	return cls(xs)
}

func (x *runner) observe(accepted []LogIn) {
	nm := x.nm
	txSeq := x.dumpTables()
	ledgers := map[string]bool{}
	accounts := map[string]map[string]bool{}
	assets := map[string]map[string]bool{}
	txids := map[string]map[int64]bool{}
	for _, e := range accepted {
		l := e.Ledger
		if !ledgers[l] {
			ledgers[l] = true
			accounts[l], assets[l], txids[l] = map[string]bool{}, map[string]bool{}, map[int64]bool{}
		}
		if e.Tx != nil {
			for _, p := range e.Tx.Postings {
				accounts[l][p.Src], accounts[l][p.Dst], assets[l][p.Asset] = true, true, true
			}
			txids[l][e.Tx.ID] = true
		}
		for a := range e.AccMeta {
			accounts[l][a] = true
		}
		if e.Account != "" {
			accounts[l][e.Account] = true
		}
		if e.TxTarget != nil {
			txids[l][*e.TxTarget] = true
		}
		if e.Kind == "revert" {
			txids[l][e.Reverted] = true
		}
	}
	var pits []*int64
	pits = append(pits, nil)
	for i := range x.h.Pits {
		pits = append(pits, &x.h.Pits[i])
	}
	for _, l := range sortedKeys(ledgers) {
		ln := nm.ledger[l]
		st := x.stores[l]
		// get_all_assets
		var as []string
		{
			var ids []uint64
			for _, r := range x.query("select * from get_all_assets(" + sqlStr(l) + ")") {
				s, _ := r[0].(string)
				ids = append(ids, nm.asset[s])
			}
			sort.Slice(ids, func(i, j int) bool { return ids[i] < ids[j] })
			for _, id := range ids {
				as = append(as, cn(id))
			}
		}
		x.reads = append(x.reads, read{Q: fmt.Sprintf("QAssets %d%%N", ln), Cell: cls(as), Kind: "assets", Ledger: l})
		for _, a := range sortedKeys(accounts[l]) {
			an := nm.account[a]
			for _, p := range pits {
				rows := x.query(fmt.Sprintf("select asset, (volumes).inputs, (volumes).outputs from get_all_account_volumes(%s, %s, %s)", sqlStr(l), sqlStr(a), pitSQL(p)))
				x.reads = append(x.reads, read{Q: fmt.Sprintf("QVolumes %d%%N %d%%N %s", ln, an, pitCoq(p)), Cell: x.volsCell(rows), Kind: "volumes", Ledger: l, Account: a, Pit: p})
				rows = x.query(fmt.Sprintf("select asset, (volumes).inputs, (volumes).outputs from get_all_account_effective_volumes(%s, %s, %s)", sqlStr(l), sqlStr(a), pitSQL(p)))
				x.reads = append(x.reads, read{Q: fmt.Sprintf("QEffVolumes %d%%N %d%%N %s", ln, an, pitCoq(p)), Cell: x.volsCell(rows), Kind: "effective-volumes", Ledger: l, Account: a, Pit: p})
			}
			// GetBalance (real store)
			for _, s := range sortedKeys(assets[l]) {
				b, err := st.GetBalance(x.ctx, a, s)
				c := cnull
				if err != nil {
					x.fault = "GetBalance: " + err.Error()
				} else if b != nil {
					c = czBig(b)
				}
				x.reads = append(x.reads, read{Q: fmt.Sprintf("QBalance %d%%N %d%%N %d%%N None", ln, an, nm.asset[s]), Cell: c, Kind: "balance", Ledger: l, Account: a, Asset: s})
			}
			// GetAccount / GetAccountWithVolumes at a point in time (real store)
			acc, err := st.GetAccount(x.ctx, a)
			if err != nil {
				x.fault = "GetAccount: " + err.Error()
			} else {
				x.reads = append(x.reads, read{Q: fmt.Sprintf("QAccount %d%%N %d%%N", ln, an), Cell: nm.cmeta(acc.Metadata), Kind: "account", Ledger: l, Account: a})
			}
			for _, p := range pits[1:] {
				q := ledgerstore.NewGetAccountQuery(a).WithPIT(toTime(*p))
				ea, err := st.GetAccountWithVolumes(x.ctx, q)
				if err != nil {
					x.fault = "GetAccountWithVolumes: " + err.Error()
					continue
				}
				x.reads = append(x.reads, read{Q: fmt.Sprintf("QAccountPit %d%%N %d%%N %s", ln, an, zc(*p)), Cell: nm.cmeta(ea.Metadata), Kind: "account-pit", Ledger: l, Account: a, Pit: p})
			}
		}
		for _, p := range pits {
			// GetAggregatedBalances (real store)
			opts := ledgerstore.NewPaginatedQueryOptions(ledgerstore.PITFilter{})
			if p != nil {
				t := toTime(*p)
				opts = ledgerstore.NewPaginatedQueryOptions(ledgerstore.PITFilter{PIT: &t})
			}
			bal, err := st.GetAggregatedBalances(x.ctx, ledgerstore.NewGetAggregatedBalancesQuery(opts))
			if err != nil {
				x.fault = "GetAggregatedBalances: " + err.Error()
			} else {
				type e struct {
					k uint64
					c string
				}
				var le []e
				for s, b := range bal {
					c := cnull
					if b != nil {
						c = czBig(b)
					}
					le = append(le, e{nm.asset[s], cl(cn(nm.asset[s]), c)})
				}
				sort.Slice(le, func(i, j int) bool { return le[i].k < le[j].k })
				var xs []string
				for _, v := range le {
					xs = append(xs, v.c)
				}
				x.reads = append(x.reads, read{Q: fmt.Sprintf("QAggBalances %d%%N %s", ln, pitCoq(p)), Cell: cls(xs), Kind: "aggregated-balances", Ledger: l, Pit: p})
			}
			rows := x.query(fmt.Sprintf("select asset, (volumes).inputs, (volumes).outputs from aggregate_ledger_volumes(%s, %s)", sqlStr(l), pitSQL(p)))
			x.reads = append(x.reads, read{Q: fmt.Sprintf("QAggLedger %d%%N %s", ln, pitCoq(p)), Cell: x.volsCell(rows), Kind: "aggregate-ledger-volumes", Ledger: l, Pit: p})
		}
		var ids []int64
		for id := range txids[l] {
			ids = append(ids, id)
		}
		sort.Slice(ids, func(i, j int) bool { return ids[i] < ids[j] })
		for _, id := range ids {
			tx, err := st.GetTransaction(x.ctx, big.NewInt(id))
			x.reads = append(x.reads, read{Q: fmt.Sprintf("QTx %d%%N %s", ln, zc(id)), Cell: x.txCell(tx, err, "GetTransaction"), Kind: "tx", Ledger: l, TxID: id})
			for _, p := range pits[1:] {
				q := ledgerstore.NewGetTransactionQuery(big.NewInt(id))
				t := toTime(*p)
				q.PIT = &t
				etx, err := st.GetTransactionWithVolumes(x.ctx, q)
				var txp *ledger.Transaction
				if etx != nil {
					txp = &etx.Transaction
				}
				x.reads = append(x.reads, read{Q: fmt.Sprintf("QTxPit %d%%N %s %s", ln, zc(id), zc(*p)), Cell: x.txCell(txp, err, "GetTransactionWithVolumes"), Kind: "tx-pit", Ledger: l, TxID: id, Pit: p})
			}
			if _, ok := txSeq[[2]string{l, fmt.Sprint(id)}]; ok {
				// the transaction with its four volume maps, as the real Store returns it (row hydration toCore included)
				rd := read{Kind: "tx-expanded", Ledger: l, TxID: id}
				func() {
					defer func() {
						if p := recover(); p != nil {
							rd.Panic = fmt.Sprint(p)
						}
					}()
					etx, err := st.GetTransactionWithVolumes(x.ctx, ledgerstore.NewGetTransactionQuery(big.NewInt(id)).WithExpandVolumes().WithExpandEffectiveVolumes())
					if err != nil {
						x.fault = "GetTransactionWithVolumes(expand): " + err.Error()
						return
					}
					rd.Expanded = etx
				}()
				x.reads = append(x.reads, rd)
			}
			if seq, ok := txSeq[[2]string{l, fmt.Sprint(id)}]; ok {
				rows := x.query(fmt.Sprintf("select get_aggregated_volumes_for_transaction(%s, %d)", sqlStr(l), seq))
				if len(rows) == 1 {
					x.reads = append(x.reads, read{Q: fmt.Sprintf("QTxVolumes %d%%N %d", ln, seq), Cell: x.txVolsCell(rows[0][0]), Kind: "tx-volumes", Ledger: l, TxID: id})
				}
				rows = x.query(fmt.Sprintf("select get_aggregated_effective_volumes_for_transaction(%s, %d)", sqlStr(l), seq))
				if len(rows) == 1 {
					x.reads = append(x.reads, read{Q: fmt.Sprintf("QTxEffVolumes %d%%N %d", ln, seq), Cell: x.txVolsCell(rows[0][0]), Kind: "tx-effective-volumes", Ledger: l, TxID: id})
				}
			}
		}
		x.listings(l, st)
	}
}

func isNotFound(err error) bool {
	return err != nil && (strings.Contains(err.Error(), "not found") || strings.Contains(err.Error(), "no rows"))
}

func (x *runner) txCell(tx *ledger.Transaction, err error, what string) string {
	if err != nil {
		if !isNotFound(err) {
			x.fault = what + ": " + err.Error()
		}
		return cnull
	}
	nm := x.nm
	var ps []string
	for _, p := range tx.Postings {
		ps = append(ps, cl(cn(nm.account[p.Source]), cn(nm.account[p.Destination]), cn(nm.asset[p.Asset]), czBig(p.Amount)))
	}
	ref := cnull
	if tx.Reference != "" {
		ref = cn(nm.ref[tx.Reference])
	}
	md := cnull
	if tx.Metadata != nil {
		md = nm.cmeta(tx.Metadata)
	}
	return cl(czBig(tx.ID), cz(tx.Timestamp.UnixMicro()-baseEpoch*sec), ref, cls(ps), md, cb(tx.Reverted))
}

func isUniqueViolation(err error) bool {
	return err != nil && (strings.Contains(err.Error(), "unique") || strings.Contains(err.Error(), "duplicate key"))
}

func runHistory(r *vx.Run, eng *minipg.Engine, h History, origin string) {
	nm := collectNames(h)
	db := eng.NewDB()
	x := &runner{r: r, h: h, nm: nm, db: db, stores: map[string]*ledgerstore.Store{}, ctx: context.Background()}
	// the driver layer: the ledgers are created on one Driver, written through the stores it hands out ...
	sysDB := systemEngine.NewDB()
	d1, err := newDriver(sysDB, db)
	if err != nil {
		fmt.Fprintln(os.Stderr, "cannot assemble a driver.Driver over minipg (broken tie):", err)
		os.Exit(3)
	}
	wstores, err := createLedgers(x.ctx, d1, sortedKeys(nm.ledger))
	if err != nil {
		r.FailSized("run:driver-layer:create-ledgers", h, err.Error(), len(h.Logs))
		return
	}
	failed := false
	var accepted []LogIn
	var used []LogIn
	for _, e := range h.Logs {
		used = append(used, e)
		err := wstores[e.Ledger].InsertLogs(x.ctx, buildLog(e))
		if err != nil {
			if isUniqueViolation(err) {
				failed = true
				r.Count("rejected:unique-violation")
				break
			}
			r.FailSized("run:sql-error-while-inserting-a-log", h, err.Error(), len(h.Logs))
			return
		}
		accepted = append(accepted, e)
	}
	h.Logs = used
	x.h = h
	// ... and read, after a "restart", through the stores a second Driver resolves by name (the real Driver.GetLedgerStore)
	d2, err := newDriver(sysDB, db)
	if err != nil {
		fmt.Fprintln(os.Stderr, "cannot assemble a driver.Driver over minipg (broken tie):", err)
		os.Exit(3)
	}
	for _, l := range sortedKeys(nm.ledger) {
		st, err := d2.GetLedgerStore(x.ctx, l)
		if err != nil {
			r.FailSized("run:driver-layer:GetLedgerStore", h, fmt.Sprintf("GetLedgerStore(%q): %v", l, err), len(h.Logs))
			return
		}
		if st.Name() != l {
			r.FailSized("isolation:driver:GetLedgerStore-hands-back-the-store-of-another-ledger", h,
				fmt.Sprintf("after a restart Driver.GetLedgerStore(%q) (bucket %q) returns a store whose queries use ledger = %q", l, sharedBucket, st.Name()), len(h.Logs))
		}
		x.stores[l] = st
	}
	if !failed {
		x.observe(accepted)
	}
	if x.fault != "" {
		r.FailSized("run:read-error", h, x.fault, len(h.Logs))
		return
	}
	nonEmptyVolumes := false
	if !failed {
		nonEmptyVolumes = oracle(r, h, nm, x.reads)
	}
	// statistics
	r.Count("origin:" + origin)
	r.Count(fmt.Sprintf("entries:%02d", len(h.Logs)))
	ntx := 0
	for _, e := range accepted {
		r.Count("kind:" + e.Kind)
		if e.Tx != nil {
			ntx++
		}
	}
	key, _ := json.Marshal(h)
	r.Case(coqCase(h, nm, failed, x.reads), h, string(key), len(accepted) >= 3 && ntx >= 2 && nonEmptyVolumes)
}

var defaultPatterns = []string{"users::wallet", ":001:wallet", "users:001:wallet", "users:", "world", "::"}

// listings filtered by an address pattern, through the real query builders and the real Store, executed by minipg
func (x *runner) listings(l string, st *ledgerstore.Store) {
	pats := x.h.Patterns
	if len(pats) == 0 {
		pats = defaultPatterns
	}
	for _, pat := range pats {
		for _, key := range []string{"account", "source", "destination"} {
			opts := ledgerstore.NewPaginatedQueryOptions(ledgerstore.PITFilterWithVolumes{}).WithPageSize(1000).WithQueryBuilder(query.Match(key, pat))
			q := ledgerstore.NewGetTransactionsQuery(opts)
			cur, err := st.GetTransactions(x.ctx, q)
			if err != nil {
				x.fault = fmt.Sprintf("GetTransactions(%s ~ %q): %v", key, pat, err)
				return
			}
			rd := read{Kind: "list-transactions-by-address", Ledger: l, Pattern: pat, Key: key}
			for _, t := range cur.Data {
				rd.IDs = append(rd.IDs, t.ID.String())
			}
			n, err := st.CountTransactions(x.ctx, q)
			if err != nil {
				x.fault = fmt.Sprintf("CountTransactions(%s ~ %q): %v", key, pat, err)
				return
			}
			rd.Count = n
			x.reads = append(x.reads, rd)
		}
		opts := ledgerstore.NewPaginatedQueryOptions(ledgerstore.PITFilterWithVolumes{}).WithPageSize(1000).WithQueryBuilder(query.Match("address", pat))
		cur, err := st.GetAccountsWithVolumes(x.ctx, ledgerstore.NewGetAccountsQuery(opts))
		if err != nil {
			x.fault = fmt.Sprintf("GetAccountsWithVolumes(address ~ %q): %v", pat, err)
			return
		}
		rd := read{Kind: "list-accounts-by-address", Ledger: l, Pattern: pat, Key: "address"}
		for _, a := range cur.Data {
			rd.IDs = append(rd.IDs, a.Address)
		}
		x.reads = append(x.reads, rd)
	}
	// the accounts listing as of every point in time: unfiltered (with volumes), by address pattern, by metadata
	for i := range x.h.Pits {
		p := &x.h.Pits[i]
		t := toTime(*p)
		type variant struct {
			kind string
			qb   query.Builder
			pat  string
			kv   [2]string
		}
		vs := []variant{{kind: "list-accounts-pit"}}
		if len(pats) > 0 {
			vs = append(vs, variant{kind: "list-accounts-pit-by-address", qb: query.Match("address", pats[0]), pat: pats[0]})
		}
		mf := x.h.MetaFilters
		if len(mf) > 0 {
			vs = append(vs, variant{kind: "list-accounts-pit-by-metadata", qb: query.Match("metadata["+mf[0][0]+"]", mf[0][1]), kv: mf[0]})
		}
		for _, v := range vs {
			fo := ledgerstore.PITFilterWithVolumes{PITFilter: ledgerstore.PITFilter{PIT: &t}, ExpandVolumes: v.kind == "list-accounts-pit", ExpandEffectiveVolumes: v.kind == "list-accounts-pit"}
			opts := ledgerstore.NewPaginatedQueryOptions(fo).WithPageSize(1000)
			if v.qb != nil {
				opts = opts.WithQueryBuilder(v.qb)
			}
			q := ledgerstore.NewGetAccountsQuery(opts)
			cur, err := st.GetAccountsWithVolumes(x.ctx, q)
			if err != nil {
				x.fault = fmt.Sprintf("GetAccountsWithVolumes(%s, pit): %v", v.kind, err)
				return
			}
			rd := read{Kind: v.kind, Ledger: l, Pit: p, Pattern: v.pat, Key: v.kv[0], Value: v.kv[1]}
			var cells []string
			for _, a := range cur.Data {
				rd.IDs = append(rd.IDs, a.Address)
				m := map[string]string{}
				for k, vv := range a.Metadata {
					m[k] = vv
				}
				rd.RowMeta = append(rd.RowMeta, m)
				rd.RowNull = append(rd.RowNull, a.Metadata == nil)
				conv := func(vb ledger.VolumesByAssets) map[string][2]string {
					if vb == nil {
						return nil
					}
					o := map[string][2]string{}
					for s, vol := range vb {
						if vol == nil || vol.Input == nil || vol.Output == nil {
							o[s] = [2]string{"null", "null"}
							continue
						}
						o[s] = [2]string{vol.Input.String(), vol.Output.String()}
					}
					return o
				}
				rd.RowVols = append(rd.RowVols, conv(a.Volumes))
				rd.RowEff = append(rd.RowEff, conv(a.EffectiveVolumes))
				mc := cnull
				if a.Metadata != nil {
					mc = x.nm.cmeta(a.Metadata)
				}
				cells = append(cells, cl(cn(x.nm.account[a.Address]), mc))
			}
			n, err := st.CountAccounts(x.ctx, q)
			if err != nil {
				x.fault = fmt.Sprintf("CountAccounts(%s, pit): %v", v.kind, err)
				return
			}
			rd.Count = n
			if v.kind == "list-accounts-pit" {
				rd.Q = fmt.Sprintf("QAccountsPit %d%%N %s", x.nm.ledger[l], zc(*p))
				rd.Cell = cls(cells)
			}
			x.reads = append(x.reads, rd)
		}
	}
	// $match metadata[k] = v: transactions now and as of every point in time of the history; accounts now
	filters := x.h.MetaFilters
	if len(filters) == 0 {
		seen := map[[2]string]bool{}
		add := func(m map[string]string) {
			for _, k := range sortedKeys(m) {
				if f := [2]string{k, m[k]}; !seen[f] && len(filters) < 4 {
					seen[f] = true
					filters = append(filters, f)
				}
			}
		}
		for _, e := range x.h.Logs {
			if e.Tx != nil {
				add(e.Tx.Meta)
			}
			add(e.Meta)
		}
	}
	var pits []*int64
	pits = append(pits, nil)
	for i := range x.h.Pits {
		pits = append(pits, &x.h.Pits[i])
	}
	for _, f := range filters {
		for _, p := range pits {
			fo := ledgerstore.PITFilterWithVolumes{}
			if p != nil {
				t := toTime(*p)
				fo.PIT = &t
			}
			opts := ledgerstore.NewPaginatedQueryOptions(fo).WithPageSize(1000).WithQueryBuilder(query.Match("metadata["+f[0]+"]", f[1]))
			q := ledgerstore.NewGetTransactionsQuery(opts)
			cur, err := st.GetTransactions(x.ctx, q)
			if err != nil {
				x.fault = fmt.Sprintf("GetTransactions(metadata[%s] = %q, pit %v): %v", f[0], f[1], p != nil, err)
				return
			}
			rd := read{Kind: "list-transactions-by-metadata", Ledger: l, Key: f[0], Value: f[1], Pit: p}
			for _, t := range cur.Data {
				rd.IDs = append(rd.IDs, t.ID.String())
				m := map[string]string{}
				for k, v := range t.Metadata {
					m[k] = v
				}
				rd.RowMeta = append(rd.RowMeta, m)
			}
			n, err := st.CountTransactions(x.ctx, q)
			if err != nil {
				x.fault = fmt.Sprintf("CountTransactions(metadata[%s] = %q, pit %v): %v", f[0], f[1], p != nil, err)
				return
			}
			rd.Count = n
			x.reads = append(x.reads, rd)
		}
		opts := ledgerstore.NewPaginatedQueryOptions(ledgerstore.PITFilterWithVolumes{}).WithPageSize(1000).WithQueryBuilder(query.Match("metadata["+f[0]+"]", f[1]))
		q := ledgerstore.NewGetAccountsQuery(opts)
		cur, err := st.GetAccountsWithVolumes(x.ctx, q)
		if err != nil {
			x.fault = fmt.Sprintf("GetAccountsWithVolumes(metadata[%s] = %q): %v", f[0], f[1], err)
			return
		}
		rd := read{Kind: "list-accounts-by-metadata", Ledger: l, Key: f[0], Value: f[1]}
		for _, a := range cur.Data {
			rd.IDs = append(rd.IDs, a.Address)
			m := map[string]string{}
			for k, v := range a.Metadata {
				m[k] = v
			}
			rd.RowMeta = append(rd.RowMeta, m)
		}
		n, err := st.CountAccounts(x.ctx, q)
		if err != nil {
			x.fault = fmt.Sprintf("CountAccounts(metadata[%s] = %q): %v", f[0], f[1], err)
			return
		}
		rd.Count = n
		x.reads = append(x.reads, rd)
	}
}
