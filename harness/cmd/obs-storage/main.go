// obs-storage — C04: what the read API reports is the replay of the log.
//
// Every run: the CURRENT text of internal/storage/ledgerstore/migrations/0-init-schema.sql (from $VERIF_REPO) is
// parsed by harness/minipg (the stand-in for PostgreSQL; a parse failure is a broken tie: exit 3); generated log
// histories (two ledgers in one bucket, past/future effective dates, zone offsets, reverts, metadata set/delete on
// accounts and transactions, script account metadata, duplicate ids) are written through the REAL
// ledgerstore.Store.InsertLogs (COPY ... FROM STDIN, one SQL transaction per entry) onto minipg, which executes the
// parsed triggers; everything is read back — table dumps, the SQL read functions, and the Go-built single-row reads
// (GetAccount, GetAccountWithVolumes, GetTransaction, GetTransactionWithVolumes, GetBalance, GetAggregatedBalances);
// an independent Go fold over the log (the oracle, written from Storage/Replay.v) states what each read must give;
// every case is emitted for check_case (the Coq model M4 must agree with every observation).
// Separately the SQL text of every list/aggregate query builder is captured from the real Store (recording driver)
// and every table reference must be restricted to the store's ledger.
package main

import (
	"encoding/json"
	"fmt"
	"os"
	"path/filepath"
	"sort"
	"strings"

	"github.com/formancehq/ledger/internal/storage/ledgerstore"
	"github.com/formancehq/ledger/verifx/minipg"
	"github.com/formancehq/ledger/verifx/vx"
)

// ---- input ---------------------------------------------------------------------------------------------------------

// times are MICROSECONDS since 2023-01-01T00:00:00Z (the store's precision); zone offsets are whole seconds
const baseEpoch = int64(1672531200)
const sec = int64(1000000)

type Posting struct {
	Src    string `json:"src"`
	Dst    string `json:"dst"`
	Asset  string `json:"asset"`
	Amount int64  `json:"amount"`
}

type Tx struct {
	ID       int64             `json:"id"`
	TS       int64             `json:"ts"`  // wall-clock fields of the timestamp text
	Off      int64             `json:"off"` // zone offset of the text, seconds east of UTC
	Ref      string            `json:"ref,omitempty"`
	Postings []Posting         `json:"postings"`
	Meta     map[string]string `json:"meta"`
}

type LogIn struct {
	Ledger   string                       `json:"ledger"`
	ID       int64                        `json:"id"`
	Date     int64                        `json:"date"`
	Kind     string                       `json:"kind"` // new | revert | set | del
	Tx       *Tx                          `json:"tx,omitempty"`
	AccMeta  map[string]map[string]string `json:"accountMetadata,omitempty"`
	Reverted int64                        `json:"reverted,omitempty"`
	Account  string                       `json:"account,omitempty"` // target account of set/del
	TxTarget *int64                       `json:"txTarget,omitempty"`
	Meta     map[string]string            `json:"meta,omitempty"`
	Key      string                       `json:"key,omitempty"`
}

type History struct {
	Logs []LogIn `json:"logs"`
	Pits []int64 `json:"pits"`
	// address patterns for the listings filtered by account / source / destination / address (empty segment = any)
	Patterns []string `json:"patterns,omitempty"`
	// metadata filters (key, value) for the listings, with and without a point in time
	MetaFilters [][2]string `json:"metaFilters,omitempty"`
}

// ---- generator ---------------------------------------------------------------------------------------------------------

var (
	uLedgers  = []string{"l0", "l1"}
	uAccounts = []string{"world", "users:001:wallet", "users:002:wallet", "bank:fees", "users:001"}
	uAssets   = []string{"COIN", "EUR/2", "USD"}
	uKeys     = []string{"k", "role", "tag"}
	uValues   = []string{"a", "b", "c"}
)

type genState struct {
	nextLog map[string]int64
	nextTx  map[string]int64
	txs     map[string][]int64
	now     int64
}

func genMeta(g *vx.Rng, max int) map[string]string {
	m := map[string]string{}
	n := g.Intn(max + 1)
	for i := 0; i < n; i++ {
		m[uKeys[g.Intn(len(uKeys))]] = uValues[g.Intn(len(uValues))]
	}
	return m
}

func genHistory(g *vx.Rng, maxLogs int) History {
	st := genState{nextLog: map[string]int64{}, nextTx: map[string]int64{}, txs: map[string][]int64{}, now: int64(10+g.Intn(20)) * sec}
	// sub-second style: whole seconds only / a few fixed fractions (several dates inside one second) / arbitrary microseconds
	fracStyle := g.Intn(3)
	frac := func() int64 {
		switch fracStyle {
		case 0:
			return 0
		case 1:
			return []int64{0, 1, 250000, 500000, 900000, 999999}[g.Intn(6)]
		}
		return int64(g.Intn(1000000))
	}
	n := 1 + g.Intn(maxLogs)
	// per-history style: most histories stay outside the known-finding classes so that the oracle is decisive
	selfTransfers := g.Chance(1, 6)
	backdating := g.Chance(1, 3)
	zones := g.Chance(1, 8)
	nLedgers := 1 + g.Intn(2)
	var h History
	for i := 0; i < n; i++ {
		l := uLedgers[g.Intn(nLedgers)]
		if g.Chance(2, 3) {
			// equal dates happen; so do several dates within one second
			switch g.Intn(3) {
			case 0:
				st.now += int64(g.Intn(4)) * sec
			case 1:
				st.now = st.now - st.now%sec + int64(g.Intn(3))*sec + frac()
				if len(h.Logs) > 0 && st.now < h.Logs[len(h.Logs)-1].Date {
					st.now = h.Logs[len(h.Logs)-1].Date
				}
			default:
				if fracStyle != 0 {
					st.now += int64(g.Intn(700000))
				}
			}
		}
		e := LogIn{Ledger: l, ID: st.nextLog[l], Date: st.now}
		st.nextLog[l]++
		if g.Chance(1, 60) && e.ID > 0 { // duplicate log id: rejected by the unique index
			e.ID--
		}
		mkTx := func() *Tx {
			t := &Tx{ID: st.nextTx[l], TS: st.now, Meta: genMeta(g, 1)}
			st.nextTx[l]++
			if g.Chance(1, 50) && t.ID > 0 { // duplicate transaction id
				t.ID--
			}
			if backdating && g.Chance(1, 2) {
				t.TS = st.now - 8*sec + int64(g.Intn(17))*sec
				if fracStyle != 0 {
					t.TS = t.TS - t.TS%sec + frac()
				}
				if t.TS < sec {
					t.TS = sec
				}
			}
			if zones && g.Chance(1, 2) {
				t.Off = []int64{7200, -18000, 3600}[g.Intn(3)]
			}
			if g.Chance(1, 4) {
				t.Ref = fmt.Sprintf("ref%d", g.Intn(3))
			}
			return t
		}
		switch k := g.Intn(100); {
		case k < 58:
			e.Kind = "new"
			e.Tx = mkTx()
			np := 1 + g.Intn(3)
			for j := 0; j < np; j++ {
				p := Posting{Src: uAccounts[g.Intn(len(uAccounts))], Dst: uAccounts[g.Intn(len(uAccounts))],
					Asset: uAssets[g.Intn(len(uAssets))], Amount: int64(g.Intn(120))}
				if p.Src == p.Dst && !selfTransfers {
					p.Dst = uAccounts[(g.Intn(len(uAccounts)-1)+1+indexOf(uAccounts, p.Src))%len(uAccounts)]
				}
				e.Tx.Postings = append(e.Tx.Postings, p)
			}
			e.AccMeta = map[string]map[string]string{}
			if g.Chance(1, 3) {
				na := 1 + g.Intn(2)
				for j := 0; j < na; j++ {
					var a string
					if g.Chance(3, 4) {
						p := e.Tx.Postings[g.Intn(len(e.Tx.Postings))]
						a = []string{p.Src, p.Dst}[g.Intn(2)]
					} else {
						a = uAccounts[g.Intn(len(uAccounts))]
					}
					m := genMeta(g, 2)
					if len(m) == 0 {
						m["k"] = "a"
					}
					e.AccMeta[a] = m
				}
			}
			st.txs[l] = append(st.txs[l], e.Tx.ID)
		case k < 68:
			e.Kind = "revert"
			e.Tx = mkTx()
			if len(st.txs[l]) > 0 && g.Chance(9, 10) {
				e.Reverted = st.txs[l][g.Intn(len(st.txs[l]))]
			} else {
				e.Reverted = int64(g.Intn(5))
			}
			e.Tx.Postings = []Posting{{Src: uAccounts[g.Intn(len(uAccounts))], Dst: uAccounts[g.Intn(len(uAccounts))],
				Asset: uAssets[g.Intn(len(uAssets))], Amount: int64(g.Intn(50))}}
			if e.Tx.Postings[0].Src == e.Tx.Postings[0].Dst && !selfTransfers {
				e.Tx.Postings[0].Dst = uAccounts[(1+indexOf(uAccounts, e.Tx.Postings[0].Src))%len(uAccounts)]
			}
			st.txs[l] = append(st.txs[l], e.Tx.ID)
		case k < 80:
			e.Kind = "set"
			e.Account = uAccounts[g.Intn(len(uAccounts))]
			e.Meta = genMeta(g, 2)
		case k < 88:
			e.Kind = "set"
			id := int64(g.Intn(4))
			if len(st.txs[l]) > 0 && g.Chance(4, 5) {
				id = st.txs[l][g.Intn(len(st.txs[l]))]
			}
			e.TxTarget = &id
			e.Meta = genMeta(g, 2)
		case k < 94:
			e.Kind = "del"
			e.Account = uAccounts[g.Intn(len(uAccounts))]
			e.Key = uKeys[g.Intn(len(uKeys))]
		default:
			e.Kind = "del"
			id := int64(g.Intn(4))
			if len(st.txs[l]) > 0 && g.Chance(4, 5) {
				id = st.txs[l][g.Intn(len(st.txs[l]))]
			}
			e.TxTarget = &id
			e.Key = uKeys[g.Intn(len(uKeys))]
		}
		h.Logs = append(h.Logs, e)
	}
	// points in time: dates that occur in the history (boundary cases), and dates in between
	var ts []int64
	for _, e := range h.Logs {
		ts = append(ts, e.Date)
		if e.Tx != nil {
			ts = append(ts, e.Tx.TS-e.Tx.Off*sec)
		}
	}
	// exactly a date of the history, one microsecond / a fraction of a second / a second before or after it
	np := 1 + g.Intn(2)
	for i := 0; i < np; i++ {
		t := ts[g.Intn(len(ts))]
		switch g.Intn(6) {
		case 0, 1:
		case 2:
			t += int64(g.Intn(3)) - 1
		case 3:
			t += []int64{-400000, 400000, -999999, 999999}[g.Intn(4)]
		case 4:
			t = t - t%sec + []int64{0, 900000, 999999}[g.Intn(3)]
		default:
			t += (int64(g.Intn(3)) - 1) * sec
		}
		h.Pits = append(h.Pits, t)
	}
	// address patterns: an address of the universe with some segments made wildcards, sometimes a segment more or less
	pg := g.Fork()
	for i := 0; i < 3; i++ {
		segs := strings.Split(uAccounts[pg.Intn(len(uAccounts))], ":")
		for j := range segs {
			if pg.Chance(2, 5) {
				segs[j] = ""
			}
		}
		switch pg.Intn(8) {
		case 0:
			segs = append(segs, "")
		case 1:
			if len(segs) > 1 {
				segs = segs[:len(segs)-1]
			}
		case 2:
			segs = append([]string{""}, segs...)
		case 3:
			segs = append(segs, "wallet")
		}
		h.Patterns = append(h.Patterns, strings.Join(segs, ":"))
	}
	for i := 0; i < 2; i++ {
		h.MetaFilters = append(h.MetaFilters, [2]string{uKeys[pg.Intn(len(uKeys))], uValues[pg.Intn(len(uValues))]})
	}
	return h
}

func indexOf(l []string, s string) int {
	for i, x := range l {
		if x == s {
			return i
		}
	}
	return 0
}

// ---- main -----------------------------------------------------------------------------------------------------------------

func loadSchema() (*minipg.Engine, string) {
	repo := os.Getenv("VERIF_REPO")
	if repo == "" {
		repo = "/repo"
	}
	path := filepath.Join(repo, "internal/storage/ledgerstore/migrations/0-init-schema.sql")
	text, err := os.ReadFile(path)
	if err != nil {
		fmt.Fprintln(os.Stderr, "cannot read the schema of the working tree:", err)
		os.Exit(3)
	}
	note := ""
	if string(text) != ledgerstore.VerifInitSchema() {
		// the binary is rebuilt against the working tree on every check, so this cannot happen unless the embed changes
		note = "schema file differs from the text embedded in the ledgerstore package; the embedded text (what the store installs) is used"
		text = []byte(ledgerstore.VerifInitSchema())
	}
	eng, err := minipg.Load(string(text))
	if err != nil {
		fmt.Fprintln(os.Stderr, "sql2ast: the schema of the working tree no longer parses (broken tie):", err)
		os.Exit(3)
	}
	pl, sqlf, trg := eng.FunctionNames()
	need := []string{"handle_log", "insert_transaction", "insert_posting", "insert_move", "upsert_account",
		"update_transaction_metadata", "delete_transaction_metadata", "delete_account_metadata",
		"update_account_metadata_history", "insert_account_metadata_history", "update_transaction_metadata_history",
		"insert_transaction_metadata_history", "revert_transaction", "get_account_balance", "get_all_account_volumes",
		"get_all_account_effective_volumes", "get_all_assets", "aggregate_ledger_volumes",
		"get_aggregated_volumes_for_transaction", "get_aggregated_effective_volumes_for_transaction"}
	have := map[string]bool{}
	for _, n := range append(append(pl, sqlf...), trg...) {
		have[n] = true
	}
	for _, n := range need {
		if !have[n] {
			fmt.Fprintf(os.Stderr, "sql2ast: function %s, which the model M4 is written against, is not in the schema (broken tie)\n", n)
			os.Exit(3)
		}
	}
	return eng, note
}

func main() {
	r := vx.Start("C04", "storage")
	r.Cases("From FL Require Import Storage.Model.\nLocal Open Scope Z_scope.\n", "case", 40)
	r.Sum.Rule = "log histories (<=12 entries quick, <=24 thorough; 1-2 ledgers in one bucket; new/reverted transactions with 1-3 postings, " +
		"past/future effective dates, zone offsets, self transfers, script account metadata, metadata set/delete on accounts and " +
		"transactions, duplicate ids) written through the real Store.InsertLogs onto minipg executing the current schema text; " +
		"non-trivial = at least 3 accepted entries, at least 2 transactions and some non-empty volumes read; distinct by the JSON of the history"
	eng, note := loadSchema()
	loadSystemSchema()
	if note != "" {
		r.Sum.Notes = append(r.Sum.Notes, note)
	}
	pl, sqlf, trg := eng.FunctionNames()
	r.Sum.Extra = map[string]any{"plpgsql_functions_parsed": len(pl), "sql_functions_parsed": len(sqlf), "triggers_parsed": len(trg),
		"schema_statements": len(eng.Statements())}

	checkSQLScope(r)

	docs, replayOnly := r.Inputs()
	for _, d := range docs {
		var h History
		if err := json.Unmarshal(d, &h); err != nil || len(h.Logs) == 0 {
			// a replay of a listing difference wraps the history and names the pattern; one of the SQL-text check has no history
			var w struct {
				History    History    `json:"history"`
				Pattern    string     `json:"pattern"`
				MetaFilter *[2]string `json:"metaFilter"`
				Pit        *int64     `json:"pit"`
			}
			if json.Unmarshal(d, &w) != nil || len(w.History.Logs) == 0 {
				continue
			}
			h = w.History
			if w.MetaFilter != nil {
				h.MetaFilters = append([][2]string{*w.MetaFilter}, h.MetaFilters...)
				if w.Pit != nil {
					h.Pits = append([]int64{*w.Pit}, h.Pits...)
				}
			} else {
				h.Patterns = append([]string{w.Pattern}, h.Patterns...)
			}
		}
		runHistory(r, eng, h, "corpus")
	}
	if replayOnly {
		r.Finish()
		return
	}
	n, maxLogs := 600, 12
	if r.Thorough() {
		n, maxLogs = 6000, 24
	}
	g := vx.NewRng(r.Seed)
	for i := 0; i < n; i++ {
		h := genHistory(g.Fork(), maxLogs)
		runHistory(r, eng, h, "gen")
	}
	r.Finish()
}

// ---- helpers shared by the files ---------------------------------------------------------------------------------------------

func sortedKeys[V any](m map[string]V) []string {
	ks := make([]string, 0, len(m))
	for k := range m {
		ks = append(ks, k)
	}
	sort.Strings(ks)
	return ks
}

// jsonb key order: shorter keys first, then bytewise
func jsonbKeys[V any](m map[string]V) []string {
	ks := sortedKeys(m)
	sort.SliceStable(ks, func(i, j int) bool {
		if len(ks[i]) != len(ks[j]) {
			return len(ks[i]) < len(ks[j])
		}
		return ks[i] < ks[j]
	})
	return ks
}

func short(s string, n int) string {
	s = strings.ReplaceAll(s, "\n", " ")
	if len(s) > n {
		return s[:n] + "..."
	}
	return s
}
