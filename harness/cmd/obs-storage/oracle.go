package main

import (
	"fmt"
	"sort"
	"strings"

	ledger "github.com/formancehq/ledger/internal"

	"github.com/formancehq/ledger/verifx/vx"
)

// The oracle: an independent fold over ONE ledger's log entries (written from coq/theories/Storage/Replay.v, sharing
// nothing with minipg or with the Coq model): volumes are sums over the postings of the log, metadata is the fold of the
// metadata-affecting entries, a transaction is reverted when a REVERTED_TRANSACTION entry names it.

type rmove struct {
	acct, asset string
	amt         int64
	src         bool
	ins, eff    int64
	txid        int64
}

func instant(t *Tx) int64 { return t.TS - t.Off*sec }

func replayMoves(ls []LogIn) []rmove {
	var ms []rmove
	for _, e := range ls {
		if e.Tx == nil {
			continue
		}
		for _, p := range e.Tx.Postings {
			ms = append(ms, rmove{p.Src, p.Asset, p.Amount, true, e.Date, instant(e.Tx), e.Tx.ID})
			ms = append(ms, rmove{p.Dst, p.Asset, p.Amount, false, e.Date, instant(e.Tx), e.Tx.ID})
		}
	}
	return ms
}

func rvol(ms []rmove, ok func(rmove) bool) (in, out int64, any bool) {
	for _, m := range ms {
		if !ok(m) {
			continue
		}
		any = true
		if m.src {
			out += m.amt
		} else {
			in += m.amt
		}
	}
	return
}

func before(p *int64, t int64) bool { return p == nil || t <= *p }

func ledgerLogs(h History, l string) []LogIn {
	var ls []LogIn
	for _, e := range h.Logs {
		if e.Ledger == l {
			ls = append(ls, e)
		}
	}
	return ls
}

// ---- executable classes (Replay.v) ---------------------------------------------------------------------------------------
func allUTC(ls []LogIn) bool {
	for _, e := range ls {
		if e.Tx != nil && e.Tx.Off != 0 {
			return false
		}
	}
	return true
}

func datesMonotone(ls []LogIn) bool {
	for i := 1; i < len(ls); i++ {
		if ls[i].Date < ls[i-1].Date {
			return false
		}
	}
	return true
}

func logAccounts(e LogIn) []string {
	var as []string
	if e.Tx != nil {
		for _, p := range e.Tx.Postings {
			as = append(as, p.Src, p.Dst)
		}
	}
	if e.Kind == "new" {
		as = append(as, sortedKeys(e.AccMeta)...)
	}
	if e.Kind == "set" && e.TxTarget == nil {
		as = append(as, e.Account)
	}
	return as
}

func noSelfTransferOnNewAccount(ls []LogIn) bool {
	known := map[string]bool{}
	for _, e := range ls {
		if e.Tx != nil {
			k := map[string]bool{}
			for a := range known {
				k[a] = true
			}
			for _, p := range e.Tx.Postings {
				if p.Src == p.Dst && !k[p.Src] {
					return false
				}
				k[p.Src], k[p.Dst] = true, true
			}
		}
		for _, a := range logAccounts(e) {
			known[a] = true
		}
	}
	return true
}

func noBackdatingBeforeFirst(ls []LogIn) bool {
	var seen []rmove
	for _, m := range replayMoves(ls) {
		same, ok := false, false
		for _, s := range seen {
			if s.acct == m.acct && s.asset == m.asset {
				same = true
				if s.eff <= m.eff {
					ok = true
				}
			}
		}
		if same && !ok {
			return false
		}
		seen = append(seen, m)
	}
	return true
}

// ---- account metadata ---------------------------------------------------------------------------------------------------------
func replayAccountMeta(ls []LogIn, a string, pit *int64) (map[string]string, bool) {
	var st map[string]string
	exists := false
	set := func(m map[string]string) {
		if !exists {
			exists, st = true, map[string]string{}
		}
		for k, v := range m {
			st[k] = v
		}
	}
	for _, e := range ls {
		if !before(pit, e.Date) {
			continue
		}
		switch e.Kind {
		case "new", "revert":
			for _, p := range e.Tx.Postings {
				for _, x := range []string{p.Src, p.Dst} {
					if x == a {
						set(e.AccMeta[a])
					}
				}
			}
			if e.Kind == "new" {
				if m, ok := e.AccMeta[a]; ok {
					set(m)
				}
			}
		case "set":
			if e.TxTarget == nil && e.Account == a {
				set(e.Meta)
			}
		case "del":
			if e.TxTarget == nil && e.Account == a && exists {
				delete(st, e.Key)
			}
		}
	}
	return st, exists
}

// ---- transactions -----------------------------------------------------------------------------------------------------------------
type rtx struct {
	tx       *Tx
	meta     map[string]string
	reverted bool
}

func replayTx(ls []LogIn, id int64, pit *int64) *rtx {
	var st *rtx
	for _, e := range ls {
		if e.Tx != nil && st == nil && e.Tx.ID == id {
			st = &rtx{tx: e.Tx, meta: map[string]string{}}
			for k, v := range e.Tx.Meta {
				st.meta[k] = v
			}
		}
		if e.Kind == "revert" && e.Reverted == id && st != nil && before(pit, instant(e.Tx)) {
			st.reverted = true
		}
		if e.TxTarget != nil && *e.TxTarget == id && st != nil && before(pit, e.Date) {
			if e.Kind == "set" {
				for k, v := range e.Meta {
					st.meta[k] = v
				}
			} else if e.Kind == "del" {
				delete(st.meta, e.Key)
			}
		}
	}
	if st != nil && !before(pit, instant(st.tx)) {
		return nil
	}
	return st
}

// ---- expected cells --------------------------------------------------------------------------------------------------------------
func distinctSorted(xs []string) []string {
	m := map[string]bool{}
	for _, x := range xs {
		m[x] = true
	}
	return sortedKeys(m)
}

func (nm names) sortAssets(as []string) []string {
	sort.Slice(as, func(i, j int) bool { return nm.asset[as[i]] < nm.asset[as[j]] })
	return as
}

// oracle compares every ledger-scoped read with the replay; returns whether some volumes read was non-empty
func oracle(r *vx.Run, h History, nm names, reads []read) bool {
	nonEmpty := false
	cache := map[string][]LogIn{}
	for _, rd := range reads {
		if rd.Kind == "table" || rd.Kind == "aggregate-ledger-volumes" {
			continue
		}
		ls, ok := cache[rd.Ledger]
		if !ok {
			ls = ledgerLogs(h, rd.Ledger)
			cache[rd.Ledger] = ls
		}
		ms := replayMoves(ls)
		var assets []string
		for _, m := range ms {
			assets = append(assets, m.asset)
		}
		assets = nm.sortAssets(distinctSorted(assets))
		exp := ""
		class := "" // the known-finding class that can explain a difference ("" = none: a difference is a violation)
		switch rd.Kind {
		case "assets":
			var xs []string
			for _, s := range assets {
				xs = append(xs, cn(nm.asset[s]))
			}
			exp = cls(xs)
		case "volumes", "effective-volumes":
			var xs []string
			for _, s := range assets {
				in, out, any := rvol(ms, func(m rmove) bool {
					t := m.ins
					if rd.Kind == "effective-volumes" {
						t = m.eff
					}
					return m.acct == rd.Account && m.asset == s && before(rd.Pit, t)
				})
				if any {
					xs = append(xs, cl(cn(nm.asset[s]), cl(cz(in), cz(out))))
				}
			}
			exp = cls(xs)
			if len(xs) > 0 {
				nonEmpty = true
			}
			switch {
			case !noSelfTransferOnNewAccount(ls):
				class = "self-transfer-on-new-account"
			case rd.Kind == "volumes" && rd.Pit != nil && !datesMonotone(ls):
				class = "assumption:log-dates-not-monotone"
			case rd.Kind == "effective-volumes" && !allUTC(ls):
				class = "zone-offset-dropped"
			case rd.Kind == "effective-volumes" && !noBackdatingBeforeFirst(ls):
				class = "backdated-before-first-move"
			}
		case "balance":
			in, out, any := rvol(ms, func(m rmove) bool { return m.acct == rd.Account && m.asset == rd.Asset })
			exp = cnull
			if any {
				exp = cz(in - out)
			}
			if !noSelfTransferOnNewAccount(ls) {
				class = "self-transfer-on-new-account"
			}
		case "aggregated-balances":
			var xs []string
			for _, s := range assets {
				in, out, any := rvol(ms, func(m rmove) bool { return m.asset == s && before(rd.Pit, m.ins) })
				if any {
					xs = append(xs, cl(cn(nm.asset[s]), cz(in-out)))
				}
			}
			exp = cls(xs)
			switch {
			case !noSelfTransferOnNewAccount(ls):
				class = "self-transfer-on-new-account"
			case rd.Pit != nil && !datesMonotone(ls):
				class = "assumption:log-dates-not-monotone"
			}
		case "account", "account-pit":
			m, _ := replayAccountMeta(ls, rd.Account, rd.Pit)
			exp = nm.cmeta(m)
			if rd.Kind == "account-pit" {
				for _, e := range ls {
					touches := false
					for _, a := range logAccounts(e) {
						touches = touches || a == rd.Account
					}
					if e.Kind == "del" && e.TxTarget == nil && e.Account == rd.Account {
						touches = true
					}
					if !touches {
						continue
					}
					if e.Date == *rd.Pit && class == "" {
						class = "account-metadata-pit-strictly-before"
					}
					if e.Kind == "new" && e.Tx.TS != e.Date {
						if _, ok := e.AccMeta[rd.Account]; ok {
							class = "script-account-metadata-dated-by-transaction-timestamp"
						}
					}
				}
				if !datesMonotone(ls) {
					class = "assumption:log-dates-not-monotone"
				}
			}
		case "tx", "tx-pit":
			st := replayTx(ls, rd.TxID, rd.Pit)
			exp = cnull
			if st != nil {
				var ps []string
				for _, p := range st.tx.Postings {
					ps = append(ps, nm.cposting(p))
				}
				ref := cnull
				if st.tx.Ref != "" {
					ref = cn(nm.ref[st.tx.Ref])
				}
				exp = cl(cz(st.tx.ID), cz(instant(st.tx)), ref, cls(ps), nm.cmeta(st.meta), cb(st.reverted))
			}
			switch {
			case !allUTC(ls):
				class = "zone-offset-dropped"
			case rd.Kind == "tx-pit" && !datesMonotone(ls):
				class = "assumption:log-dates-not-monotone"
			case rd.Kind == "tx-pit":
				// reverted_at keeps only the date of the LAST revert: a transaction reverted twice (the engine refuses
				// that, property C10) is outside what "reverted as of a date" can answer
				n := 0
				for _, e := range ls {
					if e.Kind == "revert" && e.Reverted == rd.TxID {
						n++
					}
				}
				if n > 1 {
					class = "assumption:transaction-reverted-twice"
				}
			}
		case "tx-volumes", "tx-effective-volumes":
			// volumes after the transaction's last move on each (account, asset) it touches
			type key struct{ a, s string }
			last := map[key]int{}
			count := map[key]int{}
			perAcct := map[string]map[string]bool{}
			for i, m := range ms {
				if m.txid == rd.TxID {
					k := key{m.acct, m.asset}
					last[k] = i
					count[k]++
					if perAcct[m.acct] == nil {
						perAcct[m.acct] = map[string]bool{}
					}
					perAcct[m.acct][m.asset] = true
				}
			}
			var ks []key
			for k := range last {
				ks = append(ks, k)
			}
			sort.Slice(ks, func(i, j int) bool {
				return nm.account[ks[i].a] < nm.account[ks[j].a] || ks[i].a == ks[j].a && nm.asset[ks[i].s] < nm.asset[ks[j].s]
			})
			var xs []string
			for _, k := range ks {
				at := last[k]
				var in, out int64
				for i, m := range ms {
					if m.acct != k.a || m.asset != k.s {
						continue
					}
					inc := i <= at
					if rd.Kind == "tx-effective-volumes" {
						inc = m.eff < ms[at].eff || m.eff == ms[at].eff && i <= at
					}
					if inc {
						if m.src {
							out += m.amt
						} else {
							in += m.amt
						}
					}
				}
				xs = append(xs, cl(cn(nm.account[k.a]), cn(nm.asset[k.s]), cl(cz(in), cz(out))))
			}
			exp = cls(xs)
			// a transaction id used twice (the second is rejected) never reaches this point: histories end at a rejection
			multi, repeated := false, false
			for _, per := range perAcct {
				multi = multi || len(per) > 1
			}
			for _, c := range count {
				repeated = repeated || c > 1
			}
			switch {
			case multi:
				class = "tx-volumes-one-asset-per-account-survives"
			case repeated:
				class = "tx-volumes-first-move-instead-of-last"
			case !noSelfTransferOnNewAccount(ls):
				class = "self-transfer-on-new-account"
			case rd.Kind == "tx-effective-volumes" && !allUTC(ls):
				class = "zone-offset-dropped"
			case rd.Kind == "tx-effective-volumes" && !noBackdatingBeforeFirst(ls):
				class = "backdated-before-first-move"
			}
		case "tx-expanded":
			oracleExpanded(r, h, rd, ls, ms)
			continue
		case "list-transactions-by-address", "list-accounts-by-address":
			oracleListing(r, h, rd, ls)
			continue
		case "list-accounts-pit", "list-accounts-pit-by-address", "list-accounts-pit-by-metadata":
			oracleAccountsPit(r, h, nm, rd, ls, ms)
			continue
		case "list-transactions-by-metadata", "list-accounts-by-metadata":
			oracleMetaListing(r, h, rd, ls)
			continue
		default:
			continue
		}
		if exp == rd.Cell {
			r.Count("oracle-agree:" + rd.Kind)
			continue
		}
		detail := fmt.Sprintf("read %s: observed %s, replay of the ledger's log gives %s", rd.Q, short(rd.Cell, 400), short(exp, 400))
		switch {
		case class == "":
			r.FailSized("replay-mismatch:"+rd.Kind, h, detail, len(h.Logs))
		case len(class) > 11 && class[:11] == "assumption:":
			r.Count("outside-" + class)
		default:
			r.FailSized("known-class:"+class+":"+rd.Kind, h, detail, len(h.Logs))
		}
	}
	return nonEmpty
}

// ---- the expanded transaction (pre/post commit volumes, by insertion order and by effective date) ------------------------------
type vkey struct{ a, s string }

func plainVolumes(v ledger.AccountsAssetsVolumes) (map[vkey][2]int64, bool) {
	out := map[vkey][2]int64{}
	for a, per := range v {
		if per == nil {
			return nil, false
		}
		for s, vol := range per {
			if vol == nil || vol.Input == nil || vol.Output == nil {
				return nil, false
			}
			out[vkey{a, s}] = [2]int64{vol.Input.Int64(), vol.Output.Int64()}
		}
	}
	return out, true
}

func showVolumes(m map[vkey][2]int64) string {
	var ks []vkey
	for k := range m {
		ks = append(ks, k)
	}
	sort.Slice(ks, func(i, j int) bool { return ks[i].a < ks[j].a || ks[i].a == ks[j].a && ks[i].s < ks[j].s })
	var xs []string
	for _, k := range ks {
		xs = append(xs, fmt.Sprintf("%s/%s=(%d,%d)", k.a, k.s, m[k][0], m[k][1]))
	}
	return strings.Join(xs, " ")
}

func oracleExpanded(r *vx.Run, h History, rd read, ls []LogIn, ms []rmove) {
	// what the transaction itself moves, per (account, asset)
	own := map[vkey][2]int64{}
	first, last := map[vkey]int{}, map[vkey]int{}
	perAcct := map[string]map[string]bool{}
	repeated := false
	for i, m := range ms {
		if m.txid != rd.TxID {
			continue
		}
		k := vkey{m.acct, m.asset}
		if _, seen := first[k]; !seen {
			first[k] = i
		} else {
			repeated = true
		}
		last[k] = i
		v := own[k]
		if m.src {
			v[1] += m.amt
		} else {
			v[0] += m.amt
		}
		own[k] = v
		if perAcct[m.acct] == nil {
			perAcct[m.acct] = map[string]bool{}
		}
		perAcct[m.acct][m.asset] = true
	}
	multi := false
	for _, per := range perAcct {
		multi = multi || len(per) > 1
	}
	// NULL effective volumes come from back-dating (F-C04b), also when it is only apparent because offsets were dropped (F-C04c)
	backdated := !noBackdatingBeforeFirst(ls) || !allUTC(ls)
	if rd.Panic != "" || rd.Expanded == nil {
		// the store could not hydrate the row: only the jsonb collapse (F-C04i) and NULL effective volumes (F-C04b) explain that
		if multi || backdated {
			r.Count("expanded:unreadable-in-known-class")
			return
		}
		r.FailSized("replay-mismatch:tx-expanded-volumes:row-hydration-panics", h, fmt.Sprintf("GetTransactionWithVolumes(%d, expand) panics: %s", rd.TxID, rd.Panic), len(h.Logs))
		return
	}
	e := rd.Expanded
	type pair struct {
		name      string
		pre, post ledger.AccountsAssetsVolumes
		eff       bool
	}
	for _, pr := range []pair{{"volumes", e.PreCommitVolumes, e.PostCommitVolumes, false}, {"effective-volumes", e.PreCommitEffectiveVolumes, e.PostCommitEffectiveVolumes, true}} {
		post, ok1 := plainVolumes(pr.post)
		pre, ok2 := plainVolumes(pr.pre)
		if !ok1 || !ok2 {
			if multi || backdated {
				r.Count("expanded:null-volumes-in-known-class")
				continue
			}
			r.FailSized("replay-mismatch:tx-expanded-"+pr.name+":null-volumes", h, fmt.Sprintf("transaction %d: a reported volume is null", rd.TxID), len(h.Logs))
			continue
		}
		// 1. whatever the stored post-commit volumes are, pre and post differ by exactly what the transaction moves
		//    (the pre-commit volumes are derived in Go from the post-commit ones)
		if !multi {
			for k, pv := range post {
				o := own[k]
				if q, ok := pre[k]; !ok || pv[0]-q[0] != o[0] || pv[1]-q[1] != o[1] {
					r.FailSized("replay-mismatch:tx-expanded-"+pr.name+":pre-commit-is-not-post-commit-minus-the-transaction", h,
						fmt.Sprintf("transaction %d, %s/%s: post %v pre %v, the transaction itself moves (in %d, out %d)", rd.TxID, k.a, k.s, pv, pre[k], o[0], o[1]), len(h.Logs))
					break
				}
			}
		} else {
			r.Count("expanded:delta-skipped-multi-asset")
		}
		// 2. against the replay, where the stored volumes are right (outside the known classes)
		class := ""
		switch {
		case multi:
			class = "tx-volumes-one-asset-per-account-survives"
		case repeated:
			class = "tx-volumes-first-move-instead-of-last"
		case !noSelfTransferOnNewAccount(ls):
			class = "self-transfer-on-new-account"
		case pr.eff && !allUTC(ls):
			class = "zone-offset-dropped"
		case pr.eff && !noBackdatingBeforeFirst(ls):
			class = "backdated-before-first-move"
		}
		if class != "" {
			r.Count("expanded:in-known-class:" + class)
			continue
		}
		expPost, expPre := map[vkey][2]int64{}, map[vkey][2]int64{}
		for k, at := range last {
			var in, out int64
			for i, m := range ms {
				if m.acct != k.a || m.asset != k.s {
					continue
				}
				inc := i <= at
				if pr.eff {
					inc = m.eff < ms[at].eff || m.eff == ms[at].eff && i <= at
				}
				if inc {
					if m.src {
						out += m.amt
					} else {
						in += m.amt
					}
				}
			}
			expPost[k] = [2]int64{in, out}
			expPre[k] = [2]int64{in - own[k][0], out - own[k][1]}
		}
		if showVolumes(post) != showVolumes(expPost) {
			r.FailSized("replay-mismatch:tx-expanded-post-commit-"+pr.name, h, fmt.Sprintf("transaction %d: reported %s, replay %s", rd.TxID, showVolumes(post), showVolumes(expPost)), len(h.Logs))
		} else if showVolumes(pre) != showVolumes(expPre) {
			r.FailSized("replay-mismatch:tx-expanded-pre-commit-"+pr.name, h, fmt.Sprintf("transaction %d: reported %s, replay %s", rd.TxID, showVolumes(pre), showVolumes(expPre)), len(h.Logs))
		} else {
			r.Count("oracle-agree:tx-expanded-" + pr.name)
		}
	}
}

// ---- listings filtered by an address pattern ------------------------------------------------------------------------------------
// same number of segments; an empty pattern segment matches any segment
func segMatch(pattern, addr string) bool {
	ps, as := strings.Split(pattern, ":"), strings.Split(addr, ":")
	if len(ps) != len(as) {
		return false
	}
	for i := range ps {
		if ps[i] != "" && ps[i] != as[i] {
			return false
		}
	}
	return true
}

func oracleListing(r *vx.Run, h History, rd read, ls []LogIn) {
	var exp []string
	if rd.Kind == "list-accounts-by-address" {
		known := map[string]bool{}
		for _, e := range ls {
			for _, a := range logAccounts(e) {
				known[a] = true
			}
		}
		for _, a := range sortedKeys(known) {
			if segMatch(rd.Pattern, a) {
				exp = append(exp, a)
			}
		}
	} else {
		seen := map[int64]bool{}
		for _, e := range ls {
			if e.Tx == nil || seen[e.Tx.ID] {
				continue
			}
			seen[e.Tx.ID] = true
			hit := false
			for _, p := range e.Tx.Postings {
				if (rd.Key == "account" || rd.Key == "source") && segMatch(rd.Pattern, p.Src) {
					hit = true
				}
				if (rd.Key == "account" || rd.Key == "destination") && segMatch(rd.Pattern, p.Dst) {
					hit = true
				}
			}
			if hit {
				exp = append(exp, fmt.Sprint(e.Tx.ID))
			}
		}
	}
	got := append([]string(nil), rd.IDs...)
	sort.Strings(got)
	sort.Strings(exp)
	in := map[string]any{"history": h, "filter": rd.Key, "pattern": rd.Pattern, "ledger": rd.Ledger}
	if strings.Join(got, ",") != strings.Join(exp, ",") {
		r.FailSized("replay-mismatch:"+rd.Kind, in, fmt.Sprintf("ledger %s, $match %s ~ %q: the store lists [%s], matching the replayed log segment by segment gives [%s]",
			rd.Ledger, rd.Key, rd.Pattern, strings.Join(got, ","), strings.Join(exp, ",")), len(h.Logs))
		return
	}
	if rd.Kind == "list-transactions-by-address" && rd.Count != len(exp) {
		r.FailSized("replay-mismatch:count-transactions-by-address", in, fmt.Sprintf("ledger %s, $match %s ~ %q: CountTransactions = %d, replay %d", rd.Ledger, rd.Key, rd.Pattern, rd.Count, len(exp)), len(h.Logs))
		return
	}
	r.Count("oracle-agree:" + rd.Kind)
}

// ---- listings filtered by metadata[k] = v, now and as of a point in time ------------------------------------------------------------
func sameMeta(a, b map[string]string) bool {
	if len(a) != len(b) {
		return false
	}
	for k, v := range a {
		if w, ok := b[k]; !ok || w != v {
			return false
		}
	}
	return true
}

func oracleMetaListing(r *vx.Run, h History, rd read, ls []LogIn) {
	if rd.Pit != nil && !allUTC(ls) {
		// which transactions exist "as of" a date is off by the dropped offsets (F-C04c, reported by the single-row reads)
		r.Count("listing-by-metadata:in-known-class:zone-offset-dropped")
		return
	}
	exp := map[string]map[string]string{}
	if rd.Kind == "list-accounts-by-metadata" {
		known := map[string]bool{}
		for _, e := range ls {
			for _, a := range logAccounts(e) {
				known[a] = true
			}
		}
		for a := range known {
			if m, ok := replayAccountMeta(ls, a, nil); ok && m[rd.Key] == rd.Value {
				if _, has := m[rd.Key]; has {
					exp[a] = m
				}
			}
		}
	} else {
		seen := map[int64]bool{}
		for _, e := range ls {
			if e.Tx == nil || seen[e.Tx.ID] {
				continue
			}
			seen[e.Tx.ID] = true
			if st := replayTx(ls, e.Tx.ID, rd.Pit); st != nil {
				if v, has := st.meta[rd.Key]; has && v == rd.Value {
					exp[fmt.Sprint(e.Tx.ID)] = st.meta
				}
			}
		}
	}
	got := append([]string(nil), rd.IDs...)
	sort.Strings(got)
	want := sortedKeys(exp)
	in := map[string]any{"history": h, "metaFilter": [2]string{rd.Key, rd.Value}, "ledger": rd.Ledger, "pit": rd.Pit}
	where := "now"
	if rd.Pit != nil {
		where = fmt.Sprintf("as of %d", *rd.Pit)
	}
	what := fmt.Sprintf("ledger %s, $match metadata[%s] = %q %s", rd.Ledger, rd.Key, rd.Value, where)
	if strings.Join(got, ",") != strings.Join(want, ",") {
		r.FailSized("replay-mismatch:"+rd.Kind, in, fmt.Sprintf("%s: the store lists [%s], the replayed log gives [%s]", what, strings.Join(got, ","), strings.Join(want, ",")), len(h.Logs))
		return
	}
	for i, id := range rd.IDs {
		if !sameMeta(rd.RowMeta[i], exp[id]) {
			r.FailSized("replay-mismatch:"+rd.Kind+":row-metadata", in, fmt.Sprintf("%s: row %s carries metadata %v, the replayed log gives %v", what, id, rd.RowMeta[i], exp[id]), len(h.Logs))
			return
		}
	}
	if rd.Count != len(want) {
		r.FailSized("replay-mismatch:count-"+rd.Kind[len("list-"):], in, fmt.Sprintf("%s: count = %d, replay %d", what, rd.Count, len(want)), len(h.Logs))
		return
	}
	r.Count("oracle-agree:" + rd.Kind)
}

// ---- the accounts listing as of a point in time ----------------------------------------------------------------------------------------
// the revisions the schema writes for every account (dates only): at creation, at every upsert whose metadata is not already
// contained, at every delete. This is the history CLASS of F-C04j, not the oracle: the listing returns one row per revision.
func revisionDates(ls []LogIn) (revs map[string][]int64, ins map[string]int64) {
	revs, ins = map[string][]int64{}, map[string]int64{}
	meta := map[string]map[string]string{}
	upsert := func(a string, m map[string]string, date int64) {
		cur, ok := meta[a]
		if !ok {
			meta[a] = map[string]string{}
			for k, v := range m {
				meta[a][k] = v
			}
			ins[a] = date
			revs[a] = append(revs[a], date)
			return
		}
		contained := true
		for k, v := range m {
			if w, has := cur[k]; !has || w != v {
				contained = false
			}
		}
		if !contained {
			for k, v := range m {
				cur[k] = v
			}
			revs[a] = append(revs[a], date)
		}
	}
	for _, e := range ls {
		if e.Tx != nil {
			for _, p := range e.Tx.Postings {
				upsert(p.Src, e.AccMeta[p.Src], e.Date)
				upsert(p.Dst, e.AccMeta[p.Dst], e.Date)
			}
		}
		if e.Kind == "new" {
			for _, a := range jsonbKeys(e.AccMeta) {
				upsert(a, e.AccMeta[a], e.Tx.TS)
			}
		}
		if e.Kind == "set" && e.TxTarget == nil {
			upsert(e.Account, e.Meta, e.Date)
		}
		if e.Kind == "del" && e.TxTarget == nil {
			if cur, ok := meta[e.Account]; ok {
				delete(cur, e.Key)
				revs[e.Account] = append(revs[e.Account], e.Date)
			}
		}
	}
	return
}

// F-C04j: some account visible at pit has two or more metadata revisions dated before pit
func severalRevisionsBefore(ls []LogIn, pit int64) bool {
	revs, ins := revisionDates(ls)
	for a, ds := range revs {
		if ins[a] > pit {
			continue
		}
		n := 0
		for _, d := range ds {
			if d < pit {
				n++
			}
		}
		if n >= 2 {
			return true
		}
	}
	return false
}

func oracleAccountsPit(r *vx.Run, h History, nm names, rd read, ls []LogIn, ms []rmove) {
	pit := *rd.Pit
	// outside the classes already reported by the single-row read: F-C04d (an entry dated exactly pit), F-C04h (script metadata
	// dated by the transaction timestamp)
	for _, e := range ls {
		if e.Date == pit {
			r.Count("accounts-pit-listing:in-known-class:account-metadata-pit-strictly-before")
			return
		}
		if e.Kind == "new" && len(e.AccMeta) > 0 && e.Tx.TS != e.Date {
			r.Count("accounts-pit-listing:in-known-class:script-account-metadata-dated-by-transaction-timestamp")
			return
		}
	}
	known := map[string]bool{}
	for _, e := range ls {
		for _, a := range logAccounts(e) {
			known[a] = true
		}
	}
	type row struct {
		meta map[string]string
	}
	exp := map[string]row{}
	for a := range known {
		m, ok := replayAccountMeta(ls, a, rd.Pit)
		if !ok {
			continue
		}
		switch rd.Kind {
		case "list-accounts-pit-by-address":
			if !segMatch(rd.Pattern, a) {
				continue
			}
		case "list-accounts-pit-by-metadata":
			if v, has := m[rd.Key]; !has || v != rd.Value {
				continue
			}
		}
		exp[a] = row{m}
	}
	want := sortedKeys(exp)
	in := map[string]any{"history": h, "ledger": rd.Ledger, "pit": pit, "accountsListing": rd.Kind, "pattern": rd.Pattern, "metaFilter": [2]string{rd.Key, rd.Value}}
	what := fmt.Sprintf("ledger %s, accounts as of %d (%s %s%s=%s)", rd.Ledger, pit, rd.Kind, rd.Pattern, rd.Key, rd.Value)
	fail := func(sig, detail string) {
		if severalRevisionsBefore(ls, pit) {
			r.FailSized("known-class:accounts-pit-listing-one-row-per-revision:"+rd.Kind, h, what+": "+detail, len(h.Logs))
			return
		}
		r.FailSized("replay-mismatch:"+rd.Kind+sig, in, what+": "+detail, len(h.Logs))
	}
	if strings.Join(rd.IDs, ",") != strings.Join(want, ",") {
		fail("", fmt.Sprintf("the store lists [%s], the replayed log gives each account known at that instant once: [%s]", strings.Join(rd.IDs, ","), strings.Join(want, ",")))
		return
	}
	if rd.Count != len(want) {
		fail(":count", fmt.Sprintf("CountAccounts = %d, replay %d", rd.Count, len(want)))
		return
	}
	for i, a := range rd.IDs {
		if !sameMeta(rd.RowMeta[i], exp[a].meta) {
			fail(":row-metadata", fmt.Sprintf("row %s carries metadata %v, the replayed log gives %v", a, rd.RowMeta[i], exp[a].meta))
			return
		}
	}
	if rd.Kind == "list-accounts-pit" && noSelfTransferOnNewAccount(ls) {
		effOK := allUTC(ls) && noBackdatingBeforeFirst(ls)
		for i, a := range rd.IDs {
			for _, eff := range []bool{false, true} {
				if eff && !effOK {
					continue
				}
				got := rd.RowVols[i]
				if eff {
					got = rd.RowEff[i]
				}
				expv := map[string][2]string{}
				for _, m := range ms {
					t := m.ins
					if eff {
						t = m.eff
					}
					if m.acct != a || t > pit {
						continue
					}
					in, out, _ := rvol(ms, func(x rmove) bool {
						tx := x.ins
						if eff {
							tx = x.eff
						}
						return x.acct == a && x.asset == m.asset && tx <= pit
					})
					expv[m.asset] = [2]string{fmt.Sprint(in), fmt.Sprint(out)}
				}
				if fmt.Sprint(got) != fmt.Sprint(expv) && !(len(got) == 0 && len(expv) == 0) {
					fail(":row-volumes", fmt.Sprintf("row %s (effective=%v) carries volumes %v, the replayed log gives %v", a, eff, got, expv))
					return
				}
			}
		}
	}
	r.Count("oracle-agree:" + rd.Kind)
}
