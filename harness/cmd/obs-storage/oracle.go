package main

import (
	"fmt"
	"sort"

	"github.com/formancehq/ledger/verifx/vx"
)

// The oracle: an independent fold over ONE ledger's log entries (written from coq/theories/Storage/Replay.v, sharing
// nothing with minipg or with the Coq model): volumes are sums over the postings of the log, metadata is the fold of the
// metadata-affecting entries, a transaction is reverted when a REVERTED_TRANSACTION entry names it.

type rmove struct {
	acct, asset string
	amt         int64
	src         bool
	ins, eff    int64
	txid        int64
}

func instant(t *Tx) int64 { return t.TS - t.Off*sec }

func replayMoves(ls []LogIn) []rmove {
	var ms []rmove
	for _, e := range ls {
		if e.Tx == nil {
			continue
		}
		for _, p := range e.Tx.Postings {
			ms = append(ms, rmove{p.Src, p.Asset, p.Amount, true, e.Date, instant(e.Tx), e.Tx.ID})
			ms = append(ms, rmove{p.Dst, p.Asset, p.Amount, false, e.Date, instant(e.Tx), e.Tx.ID})
		}
	}
	return ms
}

func rvol(ms []rmove, ok func(rmove) bool) (in, out int64, any bool) {
	for _, m := range ms {
		if !ok(m) {
			continue
		}
		any = true
		if m.src {
			out += m.amt
		} else {
			in += m.amt
		}
	}
	return
}

func before(p *int64, t int64) bool { return p == nil || t <= *p }

func ledgerLogs(h History, l string) []LogIn {
	var ls []LogIn
	for _, e := range h.Logs {
		if e.Ledger == l {
			ls = append(ls, e)
		}
	}
	return ls
}

// ---- executable classes (Replay.v) ---------------------------------------------------------------------------------------
func allUTC(ls []LogIn) bool {
	for _, e := range ls {
		if e.Tx != nil && e.Tx.Off != 0 {
			return false
		}
	}
	return true
}

func datesMonotone(ls []LogIn) bool {
	for i := 1; i < len(ls); i++ {
		if ls[i].Date < ls[i-1].Date {
			return false
		}
	}
	return true
}

func logAccounts(e LogIn) []string {
	var as []string
	if e.Tx != nil {
		for _, p := range e.Tx.Postings {
			as = append(as, p.Src, p.Dst)
		}
	}
	if e.Kind == "new" {
		as = append(as, sortedKeys(e.AccMeta)...)
	}
	if e.Kind == "set" && e.TxTarget == nil {
		as = append(as, e.Account)
	}
	return as
}

func noSelfTransferOnNewAccount(ls []LogIn) bool {
	known := map[string]bool{}
	for _, e := range ls {
		if e.Tx != nil {
			k := map[string]bool{}
			for a := range known {
				k[a] = true
			}
			for _, p := range e.Tx.Postings {
				if p.Src == p.Dst && !k[p.Src] {
					return false
				}
				k[p.Src], k[p.Dst] = true, true
			}
		}
		for _, a := range logAccounts(e) {
			known[a] = true
		}
	}
	return true
}

func noBackdatingBeforeFirst(ls []LogIn) bool {
	var seen []rmove
	for _, m := range replayMoves(ls) {
		same, ok := false, false
		for _, s := range seen {
			if s.acct == m.acct && s.asset == m.asset {
				same = true
				if s.eff <= m.eff {
					ok = true
				}
			}
		}
		if same && !ok {
			return false
		}
		seen = append(seen, m)
	}
	return true
}

// ---- account metadata ---------------------------------------------------------------------------------------------------------
func replayAccountMeta(ls []LogIn, a string, pit *int64) (map[string]string, bool) {
	var st map[string]string
	exists := false
	set := func(m map[string]string) {
		if !exists {
			exists, st = true, map[string]string{}
		}
		for k, v := range m {
			st[k] = v
		}
	}
	for _, e := range ls {
		if !before(pit, e.Date) {
			continue
		}
		switch e.Kind {
		case "new", "revert":
			for _, p := range e.Tx.Postings {
				for _, x := range []string{p.Src, p.Dst} {
					if x == a {
						set(e.AccMeta[a])
					}
				}
			}
			if e.Kind == "new" {
				if m, ok := e.AccMeta[a]; ok {
					set(m)
				}
			}
		case "set":
			if e.TxTarget == nil && e.Account == a {
				set(e.Meta)
			}
		case "del":
			if e.TxTarget == nil && e.Account == a && exists {
				delete(st, e.Key)
			}
		}
	}
	return st, exists
}

// ---- transactions -----------------------------------------------------------------------------------------------------------------
type rtx struct {
	tx       *Tx
	meta     map[string]string
	reverted bool
}

func replayTx(ls []LogIn, id int64, pit *int64) *rtx {
	var st *rtx
	for _, e := range ls {
		if e.Tx != nil && st == nil && e.Tx.ID == id {
			st = &rtx{tx: e.Tx, meta: map[string]string{}}
			for k, v := range e.Tx.Meta {
				st.meta[k] = v
			}
		}
		if e.Kind == "revert" && e.Reverted == id && st != nil && before(pit, instant(e.Tx)) {
			st.reverted = true
		}
		if e.TxTarget != nil && *e.TxTarget == id && st != nil && before(pit, e.Date) {
			if e.Kind == "set" {
				for k, v := range e.Meta {
					st.meta[k] = v
				}
			} else if e.Kind == "del" {
				delete(st.meta, e.Key)
			}
		}
	}
	if st != nil && !before(pit, instant(st.tx)) {
		return nil
	}
	return st
}

// ---- expected cells --------------------------------------------------------------------------------------------------------------
func distinctSorted(xs []string) []string {
	m := map[string]bool{}
	for _, x := range xs {
		m[x] = true
	}
	return sortedKeys(m)
}

func (nm names) sortAssets(as []string) []string {
	sort.Slice(as, func(i, j int) bool { return nm.asset[as[i]] < nm.asset[as[j]] })
	return as
}

// oracle compares every ledger-scoped read with the replay; returns whether some volumes read was non-empty
func oracle(r *vx.Run, h History, nm names, reads []read) bool {
	nonEmpty := false
	cache := map[string][]LogIn{}
	for _, rd := range reads {
		if rd.Kind == "table" || rd.Kind == "aggregate-ledger-volumes" {
			continue
		}
		ls, ok := cache[rd.Ledger]
		if !ok {
			ls = ledgerLogs(h, rd.Ledger)
			cache[rd.Ledger] = ls
		}
		ms := replayMoves(ls)
		var assets []string
		for _, m := range ms {
			assets = append(assets, m.asset)
		}
		assets = nm.sortAssets(distinctSorted(assets))
		exp := ""
		class := "" // the known-finding class that can explain a difference ("" = none: a difference is a violation)
		switch rd.Kind {
		case "assets":
			var xs []string
			for _, s := range assets {
				xs = append(xs, cn(nm.asset[s]))
			}
			exp = cls(xs)
		case "volumes", "effective-volumes":
			var xs []string
			for _, s := range assets {
				in, out, any := rvol(ms, func(m rmove) bool {
					t := m.ins
					if rd.Kind == "effective-volumes" {
						t = m.eff
					}
					return m.acct == rd.Account && m.asset == s && before(rd.Pit, t)
				})
				if any {
					xs = append(xs, cl(cn(nm.asset[s]), cl(cz(in), cz(out))))
				}
			}
			exp = cls(xs)
			if len(xs) > 0 {
				nonEmpty = true
			}
			switch {
			case !noSelfTransferOnNewAccount(ls):
				class = "self-transfer-on-new-account"
			case rd.Kind == "volumes" && rd.Pit != nil && !datesMonotone(ls):
				class = "assumption:log-dates-not-monotone"
			case rd.Kind == "effective-volumes" && !allUTC(ls):
				class = "zone-offset-dropped"
			case rd.Kind == "effective-volumes" && !noBackdatingBeforeFirst(ls):
				class = "backdated-before-first-move"
			}
		case "balance":
			in, out, any := rvol(ms, func(m rmove) bool { return m.acct == rd.Account && m.asset == rd.Asset })
			exp = cnull
			if any {
				exp = cz(in - out)
			}
			if !noSelfTransferOnNewAccount(ls) {
				class = "self-transfer-on-new-account"
			}
		case "aggregated-balances":
			var xs []string
			for _, s := range assets {
				in, out, any := rvol(ms, func(m rmove) bool { return m.asset == s && before(rd.Pit, m.ins) })
				if any {
					xs = append(xs, cl(cn(nm.asset[s]), cz(in-out)))
				}
			}
			exp = cls(xs)
			switch {
			case !noSelfTransferOnNewAccount(ls):
				class = "self-transfer-on-new-account"
			case rd.Pit != nil && !datesMonotone(ls):
				class = "assumption:log-dates-not-monotone"
			}
		case "account", "account-pit":
			m, _ := replayAccountMeta(ls, rd.Account, rd.Pit)
			exp = nm.cmeta(m)
			if rd.Kind == "account-pit" {
				for _, e := range ls {
					touches := false
					for _, a := range logAccounts(e) {
						touches = touches || a == rd.Account
					}
					if e.Kind == "del" && e.TxTarget == nil && e.Account == rd.Account {
						touches = true
					}
					if !touches {
						continue
					}
					if e.Date == *rd.Pit && class == "" {
						class = "account-metadata-pit-strictly-before"
					}
					if e.Kind == "new" && e.Tx.TS != e.Date {
						if _, ok := e.AccMeta[rd.Account]; ok {
							class = "script-account-metadata-dated-by-transaction-timestamp"
						}
					}
				}
				if !datesMonotone(ls) {
					class = "assumption:log-dates-not-monotone"
				}
			}
		case "tx", "tx-pit":
			st := replayTx(ls, rd.TxID, rd.Pit)
			exp = cnull
			if st != nil {
				var ps []string
				for _, p := range st.tx.Postings {
					ps = append(ps, nm.cposting(p))
				}
				ref := cnull
				if st.tx.Ref != "" {
					ref = cn(nm.ref[st.tx.Ref])
				}
				exp = cl(cz(st.tx.ID), cz(instant(st.tx)), ref, cls(ps), nm.cmeta(st.meta), cb(st.reverted))
			}
			switch {
			case !allUTC(ls):
				class = "zone-offset-dropped"
			case rd.Kind == "tx-pit" && !datesMonotone(ls):
				class = "assumption:log-dates-not-monotone"
			case rd.Kind == "tx-pit":
				// reverted_at keeps only the date of the LAST revert: a transaction reverted twice (the engine refuses
				// that, property C10) is outside what "reverted as of a date" can answer
				n := 0
				for _, e := range ls {
					if e.Kind == "revert" && e.Reverted == rd.TxID {
						n++
					}
				}
				if n > 1 {
					class = "assumption:transaction-reverted-twice"
				}
			}
		case "tx-volumes", "tx-effective-volumes":
			// volumes after the transaction's last move on each (account, asset) it touches
			type key struct{ a, s string }
			last := map[key]int{}
			count := map[key]int{}
			perAcct := map[string]map[string]bool{}
			for i, m := range ms {
				if m.txid == rd.TxID {
					k := key{m.acct, m.asset}
					last[k] = i
					count[k]++
					if perAcct[m.acct] == nil {
						perAcct[m.acct] = map[string]bool{}
					}
					perAcct[m.acct][m.asset] = true
				}
			}
			var ks []key
			for k := range last {
				ks = append(ks, k)
			}
			sort.Slice(ks, func(i, j int) bool {
				return nm.account[ks[i].a] < nm.account[ks[j].a] || ks[i].a == ks[j].a && nm.asset[ks[i].s] < nm.asset[ks[j].s]
			})
			var xs []string
			for _, k := range ks {
				at := last[k]
				var in, out int64
				for i, m := range ms {
					if m.acct != k.a || m.asset != k.s {
						continue
					}
					inc := i <= at
					if rd.Kind == "tx-effective-volumes" {
						inc = m.eff < ms[at].eff || m.eff == ms[at].eff && i <= at
					}
					if inc {
						if m.src {
							out += m.amt
						} else {
							in += m.amt
						}
					}
				}
				xs = append(xs, cl(cn(nm.account[k.a]), cn(nm.asset[k.s]), cl(cz(in), cz(out))))
			}
			exp = cls(xs)
			// a transaction id used twice (the second is rejected) never reaches this point: histories end at a rejection
			multi, repeated := false, false
			for _, per := range perAcct {
				multi = multi || len(per) > 1
			}
			for _, c := range count {
				repeated = repeated || c > 1
			}
			switch {
			case multi:
				class = "tx-volumes-one-asset-per-account-survives"
			case repeated:
				class = "tx-volumes-first-move-instead-of-last"
			case !noSelfTransferOnNewAccount(ls):
				class = "self-transfer-on-new-account"
			case rd.Kind == "tx-effective-volumes" && !allUTC(ls):
				class = "zone-offset-dropped"
			case rd.Kind == "tx-effective-volumes" && !noBackdatingBeforeFirst(ls):
				class = "backdated-before-first-move"
			}
		default:
			continue
		}
		if exp == rd.Cell {
			r.Count("oracle-agree:" + rd.Kind)
			continue
		}
		detail := fmt.Sprintf("read %s: observed %s, replay of the ledger's log gives %s", rd.Q, short(rd.Cell, 400), short(exp, 400))
		switch {
		case class == "":
			r.FailSized("replay-mismatch:"+rd.Kind, h, detail, len(h.Logs))
		case len(class) > 11 && class[:11] == "assumption:":
			r.Count("outside-" + class)
		default:
			r.FailSized("known-class:"+class+":"+rd.Kind, h, detail, len(h.Logs))
		}
	}
	return nonEmpty
}
