package main

import (
	"context"
	"database/sql"
	"fmt"
	"math/big"
	"sort"
	"strings"
	"time"

	ledger "github.com/formancehq/ledger/internal"
	"github.com/formancehq/ledger/internal/storage/ledgerstore"
	"github.com/formancehq/ledger/verifx/fakesql/recorder"
	"github.com/formancehq/ledger/verifx/minipg"
	"github.com/formancehq/ledger/verifx/vx"
	"github.com/formancehq/stack/libs/go-libs/query"
	"github.com/uptrace/bun"
	"github.com/uptrace/bun/dialect/pgdialect"
)

// Ledger isolation on the SQL text of the Go query builders: every statement the store sends for ledger "scope-l"
// is parsed, and every reference to a table that keeps the rows of all ledgers must be restricted to that ledger:
// a conjunct `[alias.]ledger = 'scope-l'` in the WHERE / ON of the same SELECT; for the two revision tables an
// equality on their *_seq column (they hang on a row that is itself restricted); and every call of a schema read
// function must pass 'scope-l' as its first argument.

const scopeLedger = "scope-l"

var baseTables = map[string]bool{"transactions": true, "accounts": true, "moves": true, "logs": true,
	"transactions_metadata": true, "accounts_metadata": true}
var revisionKey = map[string]string{"transactions_metadata": "transactions_seq", "accounts_metadata": "accounts_seq"}
var ledgerFuncs = map[string]bool{"get_account_balance": true, "get_all_account_volumes": true, "get_all_account_effective_volumes": true,
	"get_account_aggregated_volumes": true, "get_account_aggregated_effective_volumes": true, "get_aggregated_volumes_for_transaction": true,
	"get_aggregated_effective_volumes_for_transaction": true, "aggregate_ledger_volumes": true, "get_all_assets": true,
	"get_transaction": true, "get_latest_move_for_account_and_asset": true}

func splitAnd(e minipg.Expr, out *[]minipg.Expr) {
	if e == nil {
		return
	}
	if b, ok := e.(*minipg.BinaryExpr); ok && strings.EqualFold(b.Op, "and") {
		splitAnd(b.L, out)
		splitAnd(b.R, out)
		return
	}
	*out = append(*out, e)
}

func colRef(e minipg.Expr) (qual, col string, ok bool) {
	c, isCol := e.(*minipg.ColumnRef)
	if !isCol || len(c.Parts) == 0 {
		return "", "", false
	}
	col = strings.ToLower(c.Parts[len(c.Parts)-1])
	if len(c.Parts) >= 2 {
		qual = strings.ToLower(c.Parts[len(c.Parts)-2])
	}
	return qual, col, true
}

func isLit(e minipg.Expr, s string) bool {
	if c, ok := e.(*minipg.CastExpr); ok {
		e = c.X
	}
	l, ok := e.(*minipg.StringLit)
	return ok && l.Val == s
}

func checkSelect(sel *minipg.SelectStmt, ctes map[string]bool, problems *[]string) {
	if sel == nil {
		return
	}
	names := map[string]bool{}
	for k := range ctes {
		names[k] = true
	}
	// a CTE sees the CTEs written before it (and itself only under WITH RECURSIVE); the main query sees all of them
	cteQuery := map[*minipg.SelectStmt]bool{}
	for _, c := range sel.With {
		visible := map[string]bool{}
		for k := range names {
			visible[k] = true
		}
		if sel.Recursive {
			visible[strings.ToLower(c.Name)] = true
		}
		checkSelect(c.Query, visible, problems)
		cteQuery[c.Query] = true
		names[strings.ToLower(c.Name)] = true
	}
	var tables []*minipg.TableRef
	var conj []minipg.Expr
	var visit func(f minipg.FromItem)
	visit = func(f minipg.FromItem) {
		switch t := f.(type) {
		case *minipg.JoinExpr:
			visit(t.Left)
			visit(t.Right)
			splitAnd(t.On, &conj)
		case *minipg.TableRef:
			tables = append(tables, t)
		}
	}
	for _, f := range sel.From {
		visit(f)
	}
	splitAnd(sel.Where, &conj)
	withLedger := 0
	for _, t := range tables {
		n := strings.ToLower(t.Name)
		if baseTables[n] && !names[n] && revisionKey[n] == "" {
			withLedger++
		}
	}
	for _, t := range tables {
		n := strings.ToLower(t.Name)
		if !baseTables[n] || names[n] {
			continue
		}
		alias := n
		if t.Alias != "" {
			alias = strings.ToLower(t.Alias)
		}
		ok := false
		for _, c := range conj {
			b, isBin := c.(*minipg.BinaryExpr)
			if !isBin || b.Op != "=" {
				continue
			}
			for _, side := range [][2]minipg.Expr{{b.L, b.R}, {b.R, b.L}} {
				q, col, isCol := colRef(side[0])
				if !isCol {
					continue
				}
				mine := q == alias || q == "" && (withLedger <= 1 || revisionKey[n] != "")
				if col == "ledger" && isLit(side[1], scopeLedger) && (q == alias || q == "" && withLedger <= 1) {
					ok = true
				}
				if rk := revisionKey[n]; rk != "" && col == rk && mine {
					if _, _, other := colRef(side[1]); other {
						ok = true
					}
				}
			}
		}
		if !ok {
			*problems = append(*problems, n)
		}
	}
	// nested selects (CTEs, set operation arms, sub-selects in FROM and in expressions) and function calls
	minipg.Walk(sel, func(nd minipg.Node) bool {
		switch x := nd.(type) {
		case *minipg.SelectStmt:
			if x == sel {
				return true
			}
			if !cteQuery[x] {
				checkSelect(x, names, problems)
			}
			return false
		case *minipg.FuncCall:
			if ledgerFuncs[strings.ToLower(x.Name)] {
				if len(x.Args) == 0 || !isLit(x.Args[0].Value, scopeLedger) {
					*problems = append(*problems, strings.ToLower(x.Name)+"()")
				}
			}
		}
		return true
	})
}

func checkSQLScope(r *vx.Run) {
	rec := recorder.New()
	bdb := bun.NewDB(sql.OpenDB(rec), pgdialect.New(), bun.WithDiscardUnknownColumns())
	st := ledgerstore.NewStoreForVerif(bdb, "bucket", scopeLedger)
	ctx := context.Background()
	pit := toTime(5 * sec)
	type call struct {
		name string
		f    func()
	}
	volOpts := func(p *ledger.Time, vol, eff bool) ledgerstore.PaginatedQueryOptions[ledgerstore.PITFilterWithVolumes] {
		return ledgerstore.NewPaginatedQueryOptions(ledgerstore.PITFilterWithVolumes{PITFilter: ledgerstore.PITFilter{PIT: p}, ExpandVolumes: vol, ExpandEffectiveVolumes: eff})
	}
	calls := []call{
		{"GetLogs", func() {
			_, _ = st.GetLogs(ctx, ledgerstore.NewGetLogsQuery(ledgerstore.NewPaginatedQueryOptions[any](nil)))
		}},
		{"GetLogs(date filter)", func() {
			_, _ = st.GetLogs(ctx, ledgerstore.NewGetLogsQuery(ledgerstore.NewPaginatedQueryOptions[any](nil).WithQueryBuilder(query.Lt("date", pit.Format(time.RFC3339)))))
		}},
		{"GetLastLog", func() { _, _ = st.GetLastLog(ctx) }},
		{"ReadLogWithIdempotencyKey", func() { _, _ = st.ReadLogWithIdempotencyKey(ctx, "k") }},
		{"GetTransactions", func() {
			_, _ = st.GetTransactions(ctx, ledgerstore.NewGetTransactionsQuery(volOpts(nil, false, false)))
		}},
		{"GetTransactions(volumes)", func() { _, _ = st.GetTransactions(ctx, ledgerstore.NewGetTransactionsQuery(volOpts(nil, true, true))) }},
		{"GetTransactions(pit,volumes)", func() { _, _ = st.GetTransactions(ctx, ledgerstore.NewGetTransactionsQuery(volOpts(&pit, true, true))) }},
		{"GetTransactions(account filter)", func() {
			_, _ = st.GetTransactions(ctx, ledgerstore.NewGetTransactionsQuery(volOpts(nil, false, false).WithQueryBuilder(query.Match("account", "alice"))))
		}},
		{"GetTransactions(pit,metadata filter)", func() {
			_, _ = st.GetTransactions(ctx, ledgerstore.NewGetTransactionsQuery(volOpts(&pit, false, false).WithQueryBuilder(query.Match("metadata[k]", "v"))))
		}},
		{"CountTransactions", func() {
			_, _ = st.CountTransactions(ctx, ledgerstore.NewGetTransactionsQuery(volOpts(nil, false, false)))
		}},
		{"GetTransactionWithVolumes", func() {
			_, _ = st.GetTransactionWithVolumes(ctx, ledgerstore.NewGetTransactionQuery(big.NewInt(1)).WithExpandVolumes().WithExpandEffectiveVolumes())
		}},
		{"GetTransactionWithVolumes(pit)", func() {
			q := ledgerstore.NewGetTransactionQuery(big.NewInt(1))
			q.PIT = &pit
			_, _ = st.GetTransactionWithVolumes(ctx, q)
		}},
		{"GetTransaction", func() { _, _ = st.GetTransaction(ctx, big.NewInt(1)) }},
		{"GetTransactionByReference", func() { _, _ = st.GetTransactionByReference(ctx, "r") }},
		{"GetLastTransaction", func() { _, _ = st.GetLastTransaction(ctx) }},
		{"GetAccountsWithVolumes", func() {
			_, _ = st.GetAccountsWithVolumes(ctx, ledgerstore.NewGetAccountsQuery(volOpts(nil, false, false)))
		}},
		{"GetAccountsWithVolumes(pit,volumes)", func() {
			_, _ = st.GetAccountsWithVolumes(ctx, ledgerstore.NewGetAccountsQuery(volOpts(&pit, true, true)))
		}},
		{"GetAccountsWithVolumes(balance filter)", func() {
			_, _ = st.GetAccountsWithVolumes(ctx, ledgerstore.NewGetAccountsQuery(volOpts(nil, false, false).WithQueryBuilder(query.Lt("balance[USD]", 10))))
		}},
		{"GetAccountsWithVolumes(pit,metadata filter)", func() {
			_, _ = st.GetAccountsWithVolumes(ctx, ledgerstore.NewGetAccountsQuery(volOpts(&pit, false, false).WithQueryBuilder(query.Match("metadata[k]", "v"))))
		}},
		{"CountAccounts", func() { _, _ = st.CountAccounts(ctx, ledgerstore.NewGetAccountsQuery(volOpts(nil, false, false))) }},
		{"GetAccount", func() { _, _ = st.GetAccount(ctx, "alice") }},
		{"GetAccountWithVolumes", func() {
			_, _ = st.GetAccountWithVolumes(ctx, ledgerstore.NewGetAccountQuery("alice").WithExpandVolumes().WithExpandEffectiveVolumes())
		}},
		{"GetAccountWithVolumes(pit)", func() {
			_, _ = st.GetAccountWithVolumes(ctx, ledgerstore.NewGetAccountQuery("alice").WithPIT(pit).WithExpandVolumes())
		}},
		{"GetAggregatedBalances", func() {
			_, _ = st.GetAggregatedBalances(ctx, ledgerstore.NewGetAggregatedBalancesQuery(ledgerstore.NewPaginatedQueryOptions(ledgerstore.PITFilter{})))
		}},
		{"GetAggregatedBalances(pit,metadata filter)", func() {
			_, _ = st.GetAggregatedBalances(ctx, ledgerstore.NewGetAggregatedBalancesQuery(ledgerstore.NewPaginatedQueryOptions(ledgerstore.PITFilter{PIT: &pit}).WithQueryBuilder(query.Match("metadata[k]", "v"))))
		}},
		{"GetAggregatedBalances(address filter)", func() {
			_, _ = st.GetAggregatedBalances(ctx, ledgerstore.NewGetAggregatedBalancesQuery(ledgerstore.NewPaginatedQueryOptions(ledgerstore.PITFilter{}).WithQueryBuilder(query.Match("address", "bank:"))))
		}},
		{"GetBalance", func() { _, _ = st.GetBalance(ctx, "alice", "USD") }},
	}
	checked := 0
	for _, c := range calls {
		rec.Take()
		func() {
			defer func() {
				if p := recover(); p != nil {
					r.Count("sql-scope:panic-in:" + c.name)
				}
			}()
			c.f()
		}()
		for _, s := range rec.Take() {
			if s.Kind != "query" && s.Kind != "exec" {
				continue
			}
			stmts, err := minipg.ParseStatements(s.SQL)
			if err != nil {
				r.FailSized("isolation:sql-text:"+c.name+":statement-not-understood", map[string]string{"method": c.name, "sql": s.SQL}, err.Error(), 1)
				continue
			}
			for _, stx := range stmts {
				sel, ok := stx.(*minipg.SelectStmt)
				if !ok {
					continue
				}
				var problems []string
				checkSelect(sel, map[string]bool{}, &problems)
				checked++
				if len(problems) > 0 {
					sort.Strings(problems)
					uniq := problems[:1]
					for _, p := range problems[1:] {
						if p != uniq[len(uniq)-1] {
							uniq = append(uniq, p)
						}
					}
					base := c.name
					if i := strings.Index(base, "("); i > 0 {
						base = base[:i]
					}
					r.FailSized(fmt.Sprintf("isolation:sql-text:%s:%s-not-restricted-to-the-ledger", base, strings.Join(uniq, "+")),
						map[string]string{"method": c.name, "sql": s.SQL},
						"the statement reads "+strings.Join(uniq, ", ")+" without a condition on the store's ledger", 1)
				}
			}
		}
	}
	r.Sum.Distribution["sql-scope:statements-checked"] = checked
}
