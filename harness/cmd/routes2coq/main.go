// routes2coq regenerates coq/theories/Router/RoutesGen.v from the Go source of the working tree:
// the chi route tree of internal/api (router.go, v1/routes.go, v2/routes.go) with every handler classified by the
// write methods of backend.Ledger it can reach, and the facts about the ReadOnly middleware (read_only.go, router.go).
// The analysis is in harness/internal/routetab; a source shape it does not understand makes it exit non-zero.
package main

import (
	"flag"
	"fmt"
	"os"
	"strings"

	"github.com/formancehq/ledger/verifx/internal/routetab"
)

func q(s string) string { return "\"" + strings.ReplaceAll(s, "\"", "\"\"") + "\"" }

func list(xs []string) string { return "[" + strings.Join(xs, "; ") + "]" }

func qs(xs []string) string {
	var o []string
	for _, x := range xs {
		o = append(o, q(x))
	}
	return list(o)
}

var kindCoq = map[string]string{"CREATE_TRANSACTION": "WCreate", "REVERT_TRANSACTION": "WRevert", "ADD_METADATA": "WSaveMeta", "DELETE_METADATA": "WDeleteMeta"}

func segs(ss []routetab.Seg) string {
	var o []string
	for _, s := range ss {
		if s.Param {
			o = append(o, "Par "+q(s.Text))
		} else {
			o = append(o, "Lit "+q(s.Text))
		}
	}
	return list(o)
}

func nodes(b *strings.Builder, ns []*routetab.Node, ind string) {
	b.WriteString("[")
	for i, n := range ns {
		if i > 0 {
			b.WriteString(";")
		}
		b.WriteString("\n" + ind + "  ")
		if n.Mount {
			fmt.Fprintf(b, "(* %s *) Mount %s ", n.Pos, segs(n.Segs))
			nodes(b, n.Sub, ind+"  ")
		} else {
			var ks []string
			for _, k := range n.Writes {
				ks = append(ks, kindCoq[k])
			}
			fmt.Fprintf(b, "(* %s *) Endpoint %s %s {| h_name := %s; h_full := %s; h_writes := %s |}",
				n.Pos, qs(n.Methods), segs(n.Segs), q(n.Handler), q(n.Full), list(ks))
		}
	}
	if len(ns) > 0 {
		b.WriteString("\n" + ind)
	}
	b.WriteString("]")
}

func main() {
	repo := flag.String("repo", "/repo", "working tree to read")
	out := flag.String("out", "", "RoutesGen.v to write (stdout when empty)")
	flag.Parse()
	t, err := routetab.Analyze(*repo)
	if err != nil {
		fmt.Fprintln(os.Stderr, "routes2coq: the source no longer has the shape the translator understands:", err)
		os.Exit(1)
	}
	eps := t.Endpoints()
	writers := 0
	for _, e := range eps {
		if len(e.Writes) > 0 {
			writers++
		}
	}
	var b strings.Builder
	b.WriteString("(* GENERATED on every check by harness/cmd/routes2coq from internal/api/router.go, read_only.go, v1/routes.go,\n")
	b.WriteString("   v2/routes.go and the handlers' bodies of the working tree under test. Do not edit. *)\n")
	fmt.Fprintf(&b, "(* %d endpoints, %d of them writers, %d mounts; ReadOnly gate installed: %v%s *)\n", len(eps), writers, t.Mounts(), t.GateInstalled,
		map[bool]string{true: " (" + t.GateNote + ")", false: ""}[t.GateNote != ""])
	b.WriteString("From FL Require Import Router.Model.\nLocal Open Scope string_scope.\n\n")
	b.WriteString("Definition gen_routes : list node :=\n  ")
	nodes(&b, t.Routes, "  ")
	b.WriteString(".\n\n")
	fmt.Fprintf(&b, "Definition gen_config : config :=\n  {| routes := gen_routes;\n     gate_installed := %v;\n     gate_allowed := %s |}.\n", t.GateInstalled, qs(t.GateAllowed))
	if *out == "" {
		fmt.Print(b.String())
		return
	}
	if old, err := os.ReadFile(*out); err == nil && string(old) == b.String() {
		return // unchanged: keep the timestamp so nothing is rebuilt
	}
	if err := os.WriteFile(*out, []byte(b.String()), 0o644); err != nil {
		fmt.Fprintln(os.Stderr, "routes2coq:", err)
		os.Exit(1)
	}
}
