package engx

import (
	"context"
	"encoding/json"
	"errors"
	"fmt"
	"math/big"
	"sort"
	"strings"
	"sync"
	"time"

	"github.com/ThreeDotsLabs/watermill/message"
	ledger "github.com/formancehq/ledger/internal"
	"github.com/formancehq/ledger/internal/bus"
	"github.com/formancehq/ledger/internal/engine/command"
	"github.com/formancehq/ledger/pkg/events"
	"github.com/formancehq/ledger/internal/machine"
	"github.com/formancehq/ledger/internal/verifhook"
	"github.com/formancehq/stack/libs/go-libs/metadata"
)

// Req is one write request.
type Req struct {
	Kind      string            `json:"kind"` // create | revert | savemeta | delmeta
	Script    string            `json:"script,omitempty"`
	Vars      map[string]string `json:"vars,omitempty"`
	Postings  []PostingReq      `json:"postings,omitempty"` // posting mode (create)
	Reference string            `json:"reference,omitempty"`
	IK        string            `json:"ik,omitempty"`
	DryRun    bool              `json:"dry,omitempty"`
	Meta      map[string]string `json:"meta,omitempty"`
	RevertID  int64             `json:"revert_id,omitempty"`
	Force     bool              `json:"force,omitempty"`
	Target    string            `json:"target,omitempty"` // ACCOUNT | TRANSACTION
	TargetID  string            `json:"target_id,omitempty"`
	Key       string            `json:"key,omitempty"`
	// ModelPostings / Unb: what the request means to the engine model when it is given as a script
	ModelPostings []PostingReq `json:"model_postings,omitempty"`
	Unb           bool         `json:"unb,omitempty"`
}
type PostingReq struct {
	Source, Destination, Asset string
	Amount                     int64
}

// Response is what the API call returned.
type Response struct {
	OK    bool   `json:"ok"`
	Err   string `json:"err,omitempty"`
	TxID  string `json:"txid,omitempty"`
	Panic string `json:"panic,omitempty"`
	Tx    *ledger.Transaction `json:"-"`
	// Content: the JSON of the transaction the call returned, taken at the moment it returned
	Content string `json:"content,omitempty"`
	// Persisted: number of log entries on disk when the call returned
	Persisted int `json:"persisted"`
}

type Event struct {
	Tid   int               `json:"tid"` // -1: worker / environment
	Point string            `json:"point"`
	KV    map[string]string `json:"kv,omitempty"`
}

type Published struct {
	Kind      string
	Tid       int
	Tx        *ledger.Transaction // committed / revert transaction
	Reverted  *ledger.Transaction
	Persisted []*ledger.ChainedLog // disk content when published
	Target    string
	TargetID  string
	Meta      map[string]string
	Key       string
}

type ctxKey int

const (
	tidKey ctxKey = iota
	genKey
	schedKey
)

type thr struct {
	id       int
	req      Req
	resume   chan struct{}
	started  bool
	finished bool
	parkedAt string
	kv       map[string]string
	intent   any
	resp     Response
	gen      int
	cancel   context.CancelFunc
	cancelled bool
	floating bool // resumed while (possibly) blocked outside the scheduler's control: it reports back by itself
	// probed: the thread was parked at "wait" with its entry not yet persisted when the scheduler let it run as a PROBE
	// (does the code block on the persistence signal although the context is done?). The unchanged code blocks: the
	// thread floats until the batch is written and then arrives at "done" by itself. For the schedule (and the model)
	// it is still parked at "wait": the probe is not a choice; the arrival is held back until resume(t) is chosen.
	probed bool
	waitID string // the log id it waits for (kv of the "wait" point)
	entryID string // the id of the log entry the request built (kv of its "wait" point; not for previews)
	selected string // which branch of the lock select it took last: lock.select.done | lock.select.acquired
	// failNext: armed by the choice read_fail(t): the next store read of this request fails with ErrTransient.
	// readFailed: a read has just been failed; the yield point that directly follows a failed read ("ik.lookup",
	// "ref.lookup", "revert.read", or "unlocked" inside the unlock completion) decides nothing and is not parked on: for
	// the schedule (and the model) the failing read and what the code does with the error are ONE step.
	failNext   bool
	readFailed bool
	failedKind string
}

type note struct {
	tid    int // -1 worker
	point  string
	kv     map[string]string
	intent any
	finish bool
	gen    int
	wch    chan int // worker notes: the channel this store call waits on (a second call in flight has its own)
}

type Choice struct {
	Kind string `json:"kind"` // start resume cancel persist_ok persist_fail persist_fail_ctx crash
	Tid  int    `json:"tid"`
	// Via: filled by Do for a resume out of "lock.enqueued": "cancelled" when the select took the ctx.Done() branch
	// (with the intent granted AND the context done the Go runtime picks either branch)
	Via string `json:"via,omitempty"`
}

func (c Choice) String() string { return fmt.Sprintf("%s(%d)", c.Kind, c.Tid) }

type Sched struct {
	mu      sync.Mutex
	notes   chan note
	threads []*thr
	Disk    *Disk
	Gen     int
	cmd     *command.Commander
	cancel  context.CancelFunc

	workerParked bool
	workerBatch  []*ledger.ChainedLog
	workerResume chan int
	workerCh     chan int // the channel the parked store call waits on
	inFlight     map[int]int // per generation: store calls entered and not yet returned
	Overtakes    int // store calls that entered while another was in flight and were let through first
	pending      int
	granted      map[any]bool

	Trace     []Event
	Published []Published
	Fault     string // harness fault (timeouts): the execution is discarded, never reported as a violation
	LostAck   int    // a request resumed after its entry was persisted that never came back (see LostAckSet)
	LostAckSet bool
	AllowFail bool   // enable persist_fail choices
	AllowCrash bool  // enable crash choices
	AllowCancel bool // enable cancellation of a request's context (at most MaxCancels times)
	AllowFailCtx bool // enable a store failure whose error wraps context.Canceled
	AllowReadFail bool // enable read_fail(t): the next store read of request t fails (at most MaxReadFails times)
	AllowClose bool // enable a graceful shutdown of the commander (Commander.Close), once per execution
	Closes     int
	ReadFails    int
	MaxReadFails int
	closedCh  chan struct{}
	closeOnce sync.Once
	gens      []genRef // every commander generation booted, to stop its job runner at Close
	ReadFail  map[string]bool // kinds of store read that fail with a transient error (see Store.ReadFail)
	Crashes   int
	MaxCrashes int
	Cancels   int
	MaxCancels int
}

type genRef struct {
	cmd    *command.Commander
	exited chan struct{}
}

var installOnce sync.Once
var current *Sched
var currentMu sync.Mutex

func handler(ctx context.Context, point string, kv ...any) {
	// a request belongs to the scheduler that started it (released goroutines of a closed execution still run)
	if own, ok := ctx.Value(schedKey).(*Sched); ok {
		own.yield(ctx, point, kv...)
		return
	}
	currentMu.Lock()
	s := current
	currentMu.Unlock()
	if s == nil {
		return
	}
	s.yield(ctx, point, kv...)
}

func kvMap(kv []any) (map[string]string, any) {
	m := map[string]string{}
	var intent any
	for i := 0; i+1 < len(kv); i += 2 {
		k := fmt.Sprint(kv[i])
		if k == "intent" {
			intent = kv[i+1]
			continue
		}
		m[k] = fmt.Sprint(kv[i+1])
	}
	return m, intent
}

// points reached while a mutex of the code under test is held, or that need no scheduling decision
var noPark = map[string]bool{"lock.grant": true, "lock.release": true, "lock.fast": true, "lock.select.acquired": true, "lock.select.done": true}

// the yield points that directly follow a store read (or, for "unlocked", the error path of the read under the locks)
var afterFailedRead = map[string]bool{"ik.lookup": true, "ref.lookup": true, "revert.read": true, "unlocked": true}

// consumeFail: called by the store's read methods; true when this read has to fail (read_fail(t) was chosen for the
// request the context belongs to).
func (s *Sched) consumeFail(ctx context.Context, kind string) bool {
	tid, ok := ctx.Value(tidKey).(int)
	if !ok || tid < 0 || tid >= len(s.threads) {
		return false
	}
	if t := s.threads[tid]; t.entryID != "" && s.persisted(t.entryID) {
		// the request's own entry is on disk: the unchanged write path reads nothing any more. A read here is between
		// persistence and the answer; it fails (connection lost), and the answer must still be the success it is.
		s.mu.Lock()
		s.Trace = append(s.Trace, Event{Tid: tid, Point: "store.read.after-own-persistence.failed", KV: map[string]string{"kind": kind}})
		s.mu.Unlock()
		return true
	}
	s.mu.Lock()
	defer s.mu.Unlock()
	t := s.threads[tid]
	if !t.failNext {
		return false
	}
	t.failNext, t.readFailed, t.failedKind = false, true, kind
	s.Trace = append(s.Trace, Event{Tid: tid, Point: "store.read.failed", KV: map[string]string{"kind": kind}})
	return true
}

// readsNext: the region the parked request runs next performs a store read (what read_fail(t) needs). Static knowledge
// of the write path; an armed failure that is not consumed by the region is a harness fault, so a wrong entry here
// shows up at once.
func (s *Sched) readsNext(t *thr) string {
	r := t.req
	metaOnTx := (r.Kind == "savemeta" || r.Kind == "delmeta") && r.Target == ledger.MetaTargetTypeTransaction
	readsMeta := r.Kind == "create" && strings.Contains(r.Script, "meta(")
	switch t.parkedAt {
	case "ik.taken":
		return "ik"
	case "ref.taken":
		return "ref"
	case "revert.taken":
		return "tx"
	case "ik.lookup":
		if t.kv["hit"] == "false" && metaOnTx {
			return "tx"
		}
		if t.kv["hit"] == "false" && readsMeta && r.Reference == "" {
			return "account"
		}
	case "ref.lookup":
		if t.kv["hit"] == "false" && readsMeta {
			return "account"
		}
	case "locked":
		// ResolveBalances reads the balance of every bounded non-world source
		switch r.Kind {
		case "create":
			ps := r.ModelPostings
			if len(ps) == 0 {
				ps = r.Postings
			}
			for _, p := range ps {
				if p.Source != "world" && !r.Unb {
					return "balance"
				}
			}
		case "revert":
			if r.Force {
				return ""
			}
			for _, l := range s.Disk.snapshot() {
				if tx := txOf(l); tx != nil && tx.ID.Cmp(big.NewInt(r.RevertID)) == 0 {
					for _, p := range tx.Postings {
						if p.Destination != "world" {
							return "balance"
						}
					}
				}
			}
		}
	}
	return ""
}

func (s *Sched) yield(ctx context.Context, point string, kv ...any) {
	tid, ok := ctx.Value(tidKey).(int)
	if !ok {
		return
	}
	select {
	case <-s.closedCh: // the execution is over: its goroutines run to their end unobserved (nothing they do is recorded)
		return
	default:
	}
	gen, _ := ctx.Value(genKey).(int)
	m, intent := kvMap(kv)
	if point == "lock.grant" {
		s.mu.Lock()
		s.granted[intent] = true
		s.mu.Unlock()
		return
	}
	if point == "lock.select.done" || point == "lock.select.acquired" {
		s.mu.Lock()
		s.threads[tid].selected = point
		s.mu.Unlock()
		return
	}
	if noPark[point] {
		return
	}
	t := s.threads[tid]
	if point == "wait" && m["dry"] != "true" {
		t.entryID = m["id"] // set and read by the request's own goroutine only
	}
	if t.readFailed {
		t.readFailed = false // only the first parking point after the failed read
		if afterFailedRead[point] {
			return
		}
	}
	select {
	case s.notes <- note{tid: tid, point: point, kv: m, intent: intent, gen: gen}:
	case <-s.closedCh:
		return
	}
	select {
	case <-t.resume:
	case <-s.closedCh:
	}
}

// note records a non-parking observation in the trace (store reads).
func (s *Sched) note(ctx context.Context, point string, kv ...any) {
	tid, ok := ctx.Value(tidKey).(int)
	if !ok {
		return
	}
	m, _ := kvMap(kv)
	s.mu.Lock()
	s.Trace = append(s.Trace, Event{Tid: tid, Point: point, KV: m})
	s.mu.Unlock()
}

func (s *Sched) workerArrive(gen int, logs []*ledger.ChainedLog) int {
	ids := ""
	for i, l := range logs {
		if i > 0 {
			ids += ","
		}
		ids += l.ID.String()
	}
	s.mu.Lock()
	ch := s.workerResume
	if s.inFlight == nil {
		s.inFlight = map[int]int{}
	}
	s.inFlight[gen]++
	if s.inFlight[gen] > 1 {
		ch = make(chan int) // a store call entered while another has not returned: it gets its own channel
	}
	s.mu.Unlock()
	defer func() {
		s.mu.Lock()
		s.inFlight[gen]--
		s.mu.Unlock()
	}()
	select {
	case s.notes <- note{tid: -1, point: "store.insert", kv: map[string]string{"ids": ids, "n": fmt.Sprint(len(logs))}, gen: gen, intent: logs, wch: ch}:
	case <-s.closedCh:
		return -1
	}
	select {
	case v := <-ch:
		return v
	case <-s.closedCh:
		return -1 // the execution is over: report success without writing, so that waiting requests can end
	}
}

// ---- monitor -------------------------------------------------------------------------------------------

// The monitor handed to the Commander is the REAL bus monitor (internal/bus: ledgerMonitor, message.go, libs/publish)
// over a recording publisher: what is observed is what a subscriber would receive, decoded from the message JSON.
type recorder struct{ s *Sched }

func (p recorder) Close() error { return nil }
func (p recorder) Publish(topic string, msgs ...*message.Message) error {
	for _, m := range msgs {
		tid, _ := m.Context().Value(tidKey).(int)
		var em struct {
			Type    string          `json:"type"`
			Payload json.RawMessage `json:"payload"`
		}
		pub := Published{Tid: tid, Kind: "undecodable"}
		if json.Unmarshal(m.Payload, &em) == nil {
			switch em.Type {
			case events.EventTypeCommittedTransactions:
				var c bus.CommittedTransactions
				if json.Unmarshal(em.Payload, &c) == nil && len(c.Transactions) == 1 {
					pub.Kind, pub.Tx = "committed", &c.Transactions[0]
				}
			case events.EventTypeRevertedTransaction:
				var c bus.RevertedTransaction
				if json.Unmarshal(em.Payload, &c) == nil {
					pub.Kind, pub.Reverted, pub.Tx = "reverted", &c.RevertedTransaction, &c.RevertTransaction
				}
			case events.EventTypeSavedMetadata:
				var c bus.SavedMetadata
				if json.Unmarshal(em.Payload, &c) == nil {
					pub.Kind, pub.Target, pub.TargetID, pub.Meta = "saved_metadata", c.TargetType, c.TargetID, c.Metadata
				}
			case events.EventTypeDeletedMetadata:
				var c struct {
					TargetType string          `json:"targetType"`
					TargetID   json.RawMessage `json:"targetId"`
					Key        string          `json:"key"`
				}
				if json.Unmarshal(em.Payload, &c) == nil {
					id := strings.Trim(string(c.TargetID), `"`)
					pub.Kind, pub.Target, pub.TargetID, pub.Key = "deleted_metadata", c.TargetType, id, c.Key
				}
			default:
				pub.Kind = "unknown-type:" + em.Type
			}
			if topic != em.Type {
				pub.Kind += ":topic-differs"
			}
		}
		pub.Persisted = p.s.Disk.snapshot()
		p.s.mu.Lock()
		p.s.Published = append(p.s.Published, pub)
		p.s.Trace = append(p.s.Trace, Event{Tid: tid, Point: "publish", KV: map[string]string{"kind": pub.Kind}})
		p.s.mu.Unlock()
	}
	return nil
}

// ---- lifecycle ------------------------------------------------------------------------------------------

func New(disk *Disk, reqs []Req) *Sched {
	installOnce.Do(func() { verifhook.SetHandler(handler) })
	s := &Sched{closedCh: make(chan struct{}), notes: make(chan note, 64), Disk: disk, granted: map[any]bool{}, MaxCrashes: 1, MaxCancels: 1, MaxReadFails: 1}
	for i, r := range reqs {
		s.threads = append(s.threads, &thr{id: i, req: r, resume: make(chan struct{})})
	}
	currentMu.Lock()
	current = s
	currentMu.Unlock()
	s.boot()
	return s
}

var compiler = command.NewCompiler(64)

// boot creates a commander generation over the disk (New + Init + Run), as engine.Ledger.Start does.
func (s *Sched) boot() {
	s.Gen++
	s.mu.Lock()
	s.workerResume = make(chan int)
	s.workerParked, s.workerBatch, s.pending = false, nil, 0
	s.mu.Unlock()
	store := &Store{D: s.Disk, S: s, Gen: s.Gen}
	c := command.New(store, command.NewDefaultLocker(), compiler, command.NewReferencer(), bus.NewLedgerMonitor(recorder{s}, "l0"))
	var initPanic any
	func() {
		defer func() { initPanic = recover() }()
		if err := c.Init(context.Background()); err != nil {
			initPanic = err
		}
	}()
	if initPanic != nil {
		s.Trace = append(s.Trace, Event{Tid: -1, Point: "init.failed", KV: map[string]string{"err": fmt.Sprint(initPanic)}})
	}
	ctx, cancel := context.WithCancel(context.Background())
	s.cancel = cancel
	s.cmd = c
	exited := make(chan struct{})
	s.gens = append(s.gens, genRef{c, exited})
	go func() {
		defer close(exited)
		defer func() { _ = recover() }() // Run re-panics when the store fails: the process "dies"
		c.Run(ctx)
	}()
	s.Trace = append(s.Trace, Event{Tid: -1, Point: "boot", KV: map[string]string{"gen": fmt.Sprint(s.Gen), "persisted": fmt.Sprint(len(s.Disk.snapshot()))}})
}

func (r Req) runScript() ledger.RunScript {
	if len(r.Postings) > 0 {
		var ps ledger.Postings
		for _, p := range r.Postings {
			ps = append(ps, ledger.NewPosting(p.Source, p.Destination, p.Asset, big.NewInt(p.Amount)))
		}
		rs := ledger.TxToScriptData(ledger.TransactionData{Postings: ps, Metadata: metadata.Metadata(r.Meta), Reference: r.Reference}, false)
		return rs
	}
	md := metadata.Metadata{}
	for k, v := range r.Meta {
		md[k] = v
	}
	return ledger.RunScript{Script: ledger.Script{Plain: r.Script, Vars: r.Vars}, Reference: r.Reference, Metadata: md}
}

func (s *Sched) call(ctx context.Context, c *command.Commander, r Req) (resp Response) {
	defer func() {
		if e := recover(); e != nil {
			resp = Response{Panic: fmt.Sprint(e)}
		}
		resp.Persisted = len(s.Disk.snapshot())
		if resp.Tx != nil {
			if b, err := json.Marshal(resp.Tx); err == nil {
				resp.Content = string(b)
			}
		}
	}()
	p := command.Parameters{DryRun: r.DryRun, IdempotencyKey: r.IK}
	switch r.Kind {
	case "create":
		vars := map[string]string{}
		rs := r.runScript()
		for k, v := range rs.Script.Vars {
			vars[k] = v
		}
		rs.Script.Vars = vars
		tx, err := c.CreateTransaction(ctx, p, rs)
		if err != nil {
			return Response{Err: classify(err)}
		}
		return Response{OK: true, TxID: tx.ID.String(), Tx: tx}
	case "revert":
		tx, err := c.RevertTransaction(ctx, p, big.NewInt(r.RevertID), r.Force)
		if err != nil {
			return Response{Err: classify(err)}
		}
		return Response{OK: true, TxID: tx.ID.String(), Tx: tx}
	case "savemeta":
		var id any = r.TargetID
		if r.Target == ledger.MetaTargetTypeTransaction {
			b, _ := new(big.Int).SetString(r.TargetID, 10)
			id = b
		}
		if err := c.SaveMeta(ctx, p, r.Target, id, metadata.Metadata(r.Meta)); err != nil {
			return Response{Err: classify(err)}
		}
		return Response{OK: true}
	case "delmeta":
		var id any = r.TargetID
		if r.Target == ledger.MetaTargetTypeTransaction {
			b, _ := new(big.Int).SetString(r.TargetID, 10)
			id = b
		}
		if err := c.DeleteMetadata(ctx, p, r.Target, id, r.Key); err != nil {
			return Response{Err: classify(err)}
		}
		return Response{OK: true}
	}
	return Response{Err: "unknown-kind"}
}

func classify(err error) string {
	switch {
	case command.IsInvalidTransactionError(err, command.ErrInvalidTransactionCodeConflict):
		return "conflict"
	case command.IsInvalidTransactionError(err, command.ErrInvalidTransactionCodeNoPostings):
		return "no-postings"
	case command.IsInvalidTransactionError(err, command.ErrInvalidTransactionCodeCompilationFailed):
		return "compilation-failed"
	case command.IsRevertError(err, command.ErrRevertTransactionCodeAlreadyReverted):
		return "already-reverted"
	case command.IsRevertError(err, command.ErrRevertTransactionCodeOccurring):
		return "revert-occurring"
	case command.IsRevertError(err, command.ErrRevertTransactionCodeNotFound):
		return "not-found"
	case machine.IsInsufficientFundError(err):
		return "insufficient"
	case command.IsErrMachine(err):
		return "machine"
	case command.IsSaveMetaError(err, command.ErrSaveMetaCodeTransactionNotFound), command.IsDeleteMetaError(err, command.ErrDeleteMetaCodeTransactionNotFound):
		return "not-found"
	}
	msg := err.Error()
	if msg == "already taken" {
		return "ik-busy"
	}
	// an idempotency key that stored the outcome of another request (recognised by its text: the harness also has to
	// build against trees that do not have the error yet)
	if strings.Contains(msg, "idempotency key") && strings.Contains(msg, "has already been used for a different request") {
		return "key-reused"
	}
	if errors.Is(err, ErrTransient) {
		return "store-read" // an injected read failure came back to the caller
	}
	// DefaultLocker.Lock gave up because the request's context was done (exec wraps the locker's error)
	if errors.Is(err, context.Canceled) && strings.HasPrefix(msg, "locking accounts for tx processing: locking accounts:") {
		return "lock-cancelled"
	}
	return "other:" + firstLine(msg)
}
func contains(s, sub string) bool {
	for i := 0; i+len(sub) <= len(s); i++ {
		if s[i:i+len(sub)] == sub {
			return true
		}
	}
	return false
}
func firstLine(s string) string {
	for i, c := range s {
		if c == '\n' || i > 80 {
			return s[:i]
		}
	}
	return s
}

// ---- scheduling --------------------------------------------------------------------------------------

func (s *Sched) persisted(id string) bool {
	for _, l := range s.Disk.snapshot() {
		if l.ID.String() == id {
			return true
		}
	}
	return false
}

// Enabled lists the choices in a deterministic order.
func (s *Sched) Enabled() []Choice {
	var cs []Choice
	alive := false
	for _, t := range s.threads {
		if t.finished || (t.started && t.gen != s.Gen) {
			continue
		}
		if !t.started {
			cs = append(cs, Choice{Kind: "start", Tid: t.id})
			continue
		}
		alive = true
		if t.floating {
			continue
		}
		if t.probed {
			// it has arrived past its wait after the batch was written and is held there: for the schedule it is
			// parked at "wait" with its entry persisted
			cs = append(cs, Choice{Kind: "resume", Tid: t.id})
			continue
		}
		if s.AllowCancel && !t.cancelled && s.Cancels < s.MaxCancels {
			cs = append(cs, Choice{Kind: "cancel", Tid: t.id})
		}
		switch t.parkedAt {
		case "lock.enqueued":
			s.mu.Lock()
			g := s.granted[t.intent]
			s.mu.Unlock()
			if g || t.cancelled {
				cs = append(cs, Choice{Kind: "resume", Tid: t.id})
			}
		case "append.enter":
			// the append critical section is a mutex of the code under test: probe it instead of blocking
			if !s.cmd.VerifAppendLocked() {
				cs = append(cs, Choice{Kind: "resume", Tid: t.id})
			}
		case "wait":
			// enabled when the persistence signal has been given. (A cancelled request parked here with its entry
			// not persisted is PROBED outside the choice list, see probe: in the unchanged code it cannot proceed.)
			if t.kv["dry"] == "true" || s.persisted(t.kv["id"]) {
				cs = append(cs, Choice{Kind: "resume", Tid: t.id})
			}
		default:
			cs = append(cs, Choice{Kind: "resume", Tid: t.id})
		}
		if s.AllowReadFail && s.ReadFails < s.MaxReadFails && s.readsNext(t) != "" {
			cs = append(cs, Choice{Kind: "read_fail", Tid: t.id})
		}
	}
	if s.workerParked {
		cs = append(cs, Choice{Kind: "persist_ok", Tid: -1})
		if s.AllowFail && s.Crashes < s.MaxCrashes {
			cs = append(cs, Choice{Kind: "persist_fail", Tid: -1})
		}
		if s.AllowFailCtx && s.Crashes < s.MaxCrashes {
			cs = append(cs, Choice{Kind: "persist_fail_ctx", Tid: -1})
		}
	}
	if s.AllowCrash && s.Crashes < s.MaxCrashes && (alive || s.workerParked) {
		cs = append(cs, Choice{Kind: "crash", Tid: -1})
	}
	if s.AllowClose && s.Closes == 0 && (alive || s.workerParked) {
		// Commander.Close() waits for the store call the worker is in: the choice includes the outcome of that write
		if s.workerParked {
			cs = append(cs, Choice{Kind: "close_ok", Tid: -1}, Choice{Kind: "close_fail", Tid: -1})
		} else {
			cs = append(cs, Choice{Kind: "close", Tid: -1})
		}
	}
	sort.SliceStable(cs, func(i, j int) bool { return false })
	return cs
}

func (s *Sched) record(n note) {
	s.mu.Lock()
	s.Trace = append(s.Trace, Event{Tid: n.tid, Point: n.point, KV: n.kv})
	s.mu.Unlock()
}

// settle waits until every expected arrival happened: the acting thread (if any) parks or finishes, and
// the worker reaches InsertLogs whenever logs are pending and it is free.
func (s *Sched) settle(expectTid int) { s.settleWithin(expectTid, 5*time.Second) }

// probeGrace: how long a probed thread is given to show that it does NOT block on the persistence signal
const probeGrace = 15 * time.Millisecond

// probe lets a thread parked at "wait", whose entry is not persisted, run: the unchanged code blocks on the
// persistence signal whatever happened to the request's context (the thread then floats until the batch is written
// and reports back by itself). This is not a choice of the schedule. A thread that does get past its wait without
// persistence ("escapes") is from then on scheduled from wherever it parks: the oracles judge what it does, and the
// model (which has it parked at the wait) refuses its steps.
func (s *Sched) probe(t *thr) {
	t.probed, t.waitID = true, t.kv["id"]
	s.Trace = append(s.Trace, Event{Tid: t.id, Point: "probe"})
	t.resume <- struct{}{}
	s.settleWithin(t.id, probeGrace)
}

func (s *Sched) settleWithin(expectTid int, grace time.Duration) {
	waitingThread := expectTid >= 0
	for {
		needWorker := !s.workerParked && s.pending > 0
		if !waitingThread && !needWorker {
			// the worker may be about to arrive although we do not know of pending logs yet: drain quickly
			select {
			case n := <-s.notes:
				s.absorb(n, &waitingThread, expectTid)
				continue
			default:
				return
			}
		}
		select {
		case n := <-s.notes:
			s.absorb(n, &waitingThread, expectTid)
		case <-time.After(grace):
			if waitingThread && grace < time.Second {
				s.threads[expectTid].floating = true
				waitingThread = false
				continue
			}
			s.Fault = fmt.Sprintf("timeout waiting for thread=%v worker=%v", waitingThread, needWorker)
			if waitingThread && expectTid >= 0 {
				t := s.threads[expectTid]
				if t.parkedAt == "wait" && !t.cancelled && t.kv["dry"] != "true" && s.persisted(t.kv["id"]) {
					// resumed after its entry reached the disk, and still not back: the persistence signal was lost
					s.LostAck = expectTid
					s.LostAckSet = true
				}
			}
			return
		}
	}
}

func (s *Sched) absorb(n note, waitingThread *bool, expectTid int) {
	if n.gen != s.Gen {
		return // a goroutine of a dead generation: it stays parked for ever
	}
	s.record(n)
	if n.tid == -1 {
		if s.workerParked {
			// a second store call while the first is still in flight (the unchanged engine has one insert worker):
			// nothing orders the two writes. Let the later one land first: the disk then shows it.
			batch := n.intent.([]*ledger.ChainedLog)
			s.pending -= len(batch)
			s.Trace = append(s.Trace, Event{Tid: -1, Point: "store.insert.overtakes", KV: n.kv})
			s.Overtakes++
			n.wch <- 1
			deadline := time.Now().Add(2 * time.Second)
			for len(batch) > 0 && !s.persisted(batch[len(batch)-1].ID.String()) && time.Now().Before(deadline) {
				time.Sleep(20 * time.Microsecond)
			}
			return
		}
		s.workerParked = true
		s.workerBatch = n.intent.([]*ledger.ChainedLog)
		s.workerCh = n.wch
		s.pending -= len(s.workerBatch)
		return
	}
	t := s.threads[n.tid]
	t.floating = false
	if t.probed && !s.persisted(t.waitID) {
		t.probed = false // escaped: past its wait although nothing was persisted
		s.Trace = append(s.Trace, Event{Tid: t.id, Point: "probe.escaped"})
	}
	if n.finish {
		t.finished = true
		t.probed = false
	} else {
		t.parkedAt, t.kv = n.point, n.kv
		if n.point == "lock.enqueued" {
			t.intent = n.intent
		}
		if n.point == "appended" {
			s.pending++
		}
	}
	if n.tid == expectTid {
		*waitingThread = false
	}
}

// Do performs one choice and waits for quiescence; it returns the choice as performed (Via filled in).
func (s *Sched) Do(c Choice) Choice {
	c = s.do(c)
	// probes (not choices): a cancelled request parked at its wait before its entry is persisted
	for _, t := range s.threads {
		if s.Fault == "" && t.started && !t.finished && t.gen == s.Gen && t.cancelled && !t.floating && !t.probed &&
			t.parkedAt == "wait" && t.kv["dry"] != "true" && !s.persisted(t.kv["id"]) {
			s.probe(t)
		}
	}
	return c
}

func (s *Sched) do(c Choice) Choice {
	s.Trace = append(s.Trace, Event{Tid: c.Tid, Point: "choice:" + c.Kind})
	switch c.Kind {
	case "start":
		t := s.threads[c.Tid]
		t.started, t.gen = true, s.Gen
		base, cancel := context.WithCancel(context.Background())
		t.cancel = cancel
		ctx := context.WithValue(context.WithValue(context.WithValue(base, tidKey, t.id), genKey, s.Gen), schedKey, s)
		cmd, gen := s.cmd, s.Gen
		go func() {
			resp := s.call(ctx, cmd, t.req)
			t.resp = resp
			select {
			case s.notes <- note{tid: t.id, point: "return", finish: true, gen: gen,
				kv: map[string]string{"ok": fmt.Sprint(resp.OK), "err": resp.Err, "txid": resp.TxID, "panic": resp.Panic, "persisted": fmt.Sprint(resp.Persisted)}}:
			case <-s.closedCh:
			}
		}()
		s.settle(t.id)
	case "resume":
		t := s.threads[c.Tid]
		if t.probed {
			// the thread went through its wait by itself once the batch was written and is parked behind it
			t.probed = false
			break
		}
		enq := t.parkedAt == "lock.enqueued"
		s.mu.Lock()
		t.selected = ""
		s.mu.Unlock()
		t.resume <- struct{}{}
		s.settle(t.id)
		s.mu.Lock()
		if enq && t.selected == "lock.select.done" {
			c.Via = "cancelled"
		}
		s.mu.Unlock()
	case "read_fail":
		// the region the request runs next reads the store: that read fails
		t := s.threads[c.Tid]
		s.mu.Lock()
		t.failNext = true
		s.mu.Unlock()
		s.ReadFails++
		t.resume <- struct{}{}
		s.settle(t.id)
		s.mu.Lock()
		if t.failNext && s.Fault == "" {
			s.Fault = fmt.Sprintf("read_fail(%d) at %s: the region performed no store read", t.id, t.parkedAt)
		}
		s.mu.Unlock()
	case "persist_ok":
		s.workerParked = false
		s.workerCh <- 1
		// the worker writes to the disk after being resumed: wait until the batch is visible
		want := s.workerBatch
		deadline := time.Now().Add(5 * time.Second)
		for {
			d := s.Disk.snapshot()
			if len(want) == 0 || (len(d) > 0 && d[len(d)-1] == want[len(want)-1]) {
				break
			}
			if time.Now().After(deadline) {
				s.Fault = "timeout waiting for InsertLogs to write"
				return c
			}
			time.Sleep(20 * time.Microsecond)
		}
		s.settle(-1)
		for _, t := range s.threads {
			if t.floating && t.gen == s.Gen && !t.finished && s.persisted(t.waitID) {
				s.settle(t.id)
			}
		}
	case "cancel":
		t := s.threads[c.Tid]
		t.cancelled = true
		s.Cancels++
		t.cancel()
	case "persist_fail":
		s.workerParked = false
		s.workerCh <- 0
		s.crash()
	case "persist_fail_ctx":
		// the store fails with an error of kind context.Canceled: the unchanged runner dies like for any other
		// store failure; give a wrongly surviving runner a moment to acknowledge before the generation is abandoned
		s.workerParked = false
		s.workerCh <- 2
		s.pending = 0 // the runner is expected to die: do not wait for it to take another batch
		survived := false
		deadline := time.Now().Add(300 * time.Millisecond)
		for time.Now().Before(deadline) {
			select {
			case n := <-s.notes:
				w := false
				s.absorb(n, &w, -2)
			default:
				time.Sleep(2 * time.Millisecond)
			}
		}
		for _, t := range s.threads {
			if t.started && !t.finished && t.gen == s.Gen && t.parkedAt == "wait" && !t.floating && !t.probed {
				// probe: does the request get past its wait although nothing was persisted?
				s.probe(t)
				for !t.finished && !t.floating && s.Fault == "" {
					t.resume <- struct{}{}
					s.settle(t.id)
				}
				if t.finished && t.resp.OK && !s.persisted(t.waitID) {
					survived = true // acknowledged although its entry is not on disk: the runner swallowed the failure
				}
			}
		}
		if survived {
			// the runner did not die of the store failure: it acknowledged a batch that was never written and goes on.
			// Nothing restarts, so the engine keeps chaining on its in-memory last log: let the execution continue
			// and show what reaches the disk next.
			s.Crashes++
			s.Trace = append(s.Trace, Event{Tid: -1, Point: "store.failure.survived"})
			break
		}
		s.crash()
	case "crash":
		s.crash()
	case "close", "close_ok", "close_fail":
		s.close(c.Kind)
	}
	return c
}

// crash abandons the current generation (its goroutines stay parked for ever, unanswered) and boots a new one.
func (s *Sched) crash() {
	s.Crashes++
	s.cancel()
	for _, t := range s.threads {
		if t.started && !t.finished && t.gen == s.Gen {
			t.finished = true
			t.resp = Response{Err: "crashed"}
		}
	}
	s.Trace = append(s.Trace, Event{Tid: -1, Point: "crash"})
	s.boot()
}

// close: the REAL Commander.Close() (Batcher.Close -> job.Runner.Close -> the stop branch of Runner.Run). It blocks
// until the store call the worker is in has returned: that write succeeds (close_ok) or fails (close_fail). Nobody may be
// acknowledged by a close: the requests parked at their wait are then let run for a short grace -- in the unchanged
// code they block for ever (their persistence signal never comes); one that comes back is recorded with its answer,
// for the oracles and the model to judge -- and the rest is never answered; the next generation boots from the disk.
func (s *Sched) close(kind string) {
	s.Closes++
	cmd := s.cmd
	// requests whose entry was on disk BEFORE the close have been given their persistence signal by the normal
	// termination of their batch: they are abandoned with the generation like everybody else, not probed
	before := map[string]bool{}
	for _, l := range s.Disk.snapshot() {
		before[l.ID.String()] = true
	}
	closed := make(chan struct{})
	go func() {
		defer func() { _ = recover() }()
		cmd.Close()
		close(closed)
	}()
	if s.workerParked {
		// the stop request must have reached the runner before the worker leaves the store call (otherwise the job is
		// terminated normally, which is the schedule persist_ok ; close, not this one): the runner is idle in its select
		time.Sleep(3 * time.Millisecond)
		want := s.workerBatch
		s.workerParked = false
		if kind == "close_ok" {
			s.workerCh <- 1
			deadline := time.Now().Add(5 * time.Second)
			for {
				d := s.Disk.snapshot()
				if len(want) == 0 || (len(d) > 0 && d[len(d)-1] == want[len(want)-1]) {
					break
				}
				if time.Now().After(deadline) {
					s.Fault = "timeout waiting for InsertLogs to write (close)"
					return
				}
				time.Sleep(20 * time.Microsecond)
			}
		} else {
			s.workerCh <- 0
		}
	}
	s.pending = 0 // what is queued is never handed to the store
	select {
	case <-closed:
	case <-time.After(5 * time.Second):
		s.Fault = "timeout waiting for Commander.Close to return"
		return
	}
	s.Trace = append(s.Trace, Event{Tid: -1, Point: "closed", KV: map[string]string{"kind": kind}})
	// drain what arrived meanwhile (nothing is expected)
	for drained := false; !drained; {
		select {
		case n := <-s.notes:
			w := false
			s.absorb(n, &w, -2)
		default:
			drained = true
		}
	}
	for _, t := range s.threads {
		if t.started && !t.finished && t.gen == s.Gen && t.parkedAt == "wait" && !t.floating && !t.probed && t.kv["dry"] != "true" && !before[t.kv["id"]] {
			s.probe(t)
			for !t.finished && !t.floating && s.Fault == "" {
				t.resume <- struct{}{}
				s.settle(t.id)
			}
		}
	}
	if s.Fault != "" {
		return
	}
	s.cancel()
	for _, t := range s.threads {
		if t.started && !t.finished && t.gen == s.Gen {
			t.finished = true
			t.resp = Response{Err: "crashed"}
		}
	}
	s.boot()
}

// Done: nothing left to do.
func (s *Sched) Done() bool { return len(s.Enabled()) == 0 }

// Stuck: threads remain but nothing is enabled.
func (s *Sched) Stuck() bool {
	if len(s.Enabled()) > 0 {
		return false
	}
	for _, t := range s.threads {
		if t.started && !t.finished && t.gen == s.Gen {
			return true
		}
	}
	return false
}

func (s *Sched) Responses() []Response {
	var rs []Response
	for _, t := range s.threads {
		rs = append(rs, t.resp)
	}
	return rs
}
func (s *Sched) Threads() int { return len(s.threads) }
func (s *Sched) Close() {
	s.closeOnce.Do(func() { close(s.closedCh) }) // releases every goroutine parked by this scheduler, of every generation
	s.cancel()
	// the job runner of a commander ignores its context: it only ends through Close (or by dying of a store failure).
	// A runner left alive keeps its commander, store and log alive for the rest of the process.
	for _, g := range s.gens {
		select {
		case <-g.exited:
		default:
			go func(g genRef) {
				defer func() { _ = recover() }()
				closed := make(chan struct{})
				go func() {
					defer func() { _ = recover() }()
					defer close(closed)
					g.cmd.Close()
				}()
				select {
				case <-closed:
				case <-g.exited: // died meanwhile: nobody will take the stop request; the inner goroutine stays (rare)
				}
			}(g)
		}
	}
	s.gens = nil
	currentMu.Lock()
	if current == s {
		current = nil
	}
	currentMu.Unlock()
}
