// Package engx drives the REAL command.Commander (real DefaultLocker, Batcher, Referencer, compiler, machine)
// under a deterministic scheduler: every request goroutine parks at the verifhook yield points and at the
// store / monitor boundary; the batch worker parks inside Store.InsertLogs. The store is a fold over the
// persisted log (what the SQL projection is specified to compute).
package engx

import (
	"context"
	"errors"
	"fmt"
	"math/big"
	"sync"

	ledger "github.com/formancehq/ledger/internal"
	"github.com/formancehq/ledger/internal/storage"
	"github.com/formancehq/ledger/internal/storage/sqlutils"
	"github.com/formancehq/stack/libs/go-libs/metadata"
)

// Disk is what survives a crash: the persisted log, in insertion order.
type Disk struct {
	mu   sync.Mutex
	Logs []*ledger.ChainedLog
	// Batches records every InsertLogs call that succeeded, across generations
	Batches [][]*ledger.ChainedLog
	// Shadow: the repository's own storage.InMemoryStore, fed the same batches; every read the engine makes is answered
	// by the fold over Logs and ALSO asked of the shadow; ShadowDiffs lists the reads on which the two differ
	Shadow      *storage.InMemoryStore
	ShadowDiffs []string
	noShadow    bool
}

// shadowCheck compares what the fold answered with what the repository's in-memory store answers to the same read.
func (d *Disk) shadowCheck(kind, arg, fold string, ask func(m *storage.InMemoryStore) string) {
	d.mu.Lock()
	defer d.mu.Unlock()
	if d.Shadow == nil {
		return
	}
	got := ""
	func() {
		defer func() {
			if x := recover(); x != nil {
				got = fmt.Sprint("panic: ", x)
			}
		}()
		got = ask(d.Shadow)
	}()
	if got != fold && len(d.ShadowDiffs) < 20 {
		d.ShadowDiffs = append(d.ShadowDiffs, fmt.Sprintf("%s|%s(%s): the log says %s, storage.InMemoryStore says %s", kind, kind, arg, fold, got))
	}
}

func txDesc(tx *ledger.Transaction, reverted bool) string {
	if tx == nil {
		return "not-found"
	}
	ps := ""
	for _, p := range tx.Postings {
		ps += fmt.Sprintf("%s>%s:%s:%s;", p.Source, p.Destination, p.Asset, p.Amount)
	}
	return fmt.Sprintf("tx %s ref=%q reverted=%v %s", tx.ID, tx.Reference, reverted, ps)
}

func (d *Disk) snapshot() []*ledger.ChainedLog {
	d.mu.Lock()
	defer d.mu.Unlock()
	return append([]*ledger.ChainedLog{}, d.Logs...)
}

// Store implements command.Store over a Disk; InsertLogs asks the scheduler (persist ok / fail).
type Store struct {
	D *Disk
	S *Sched
	// Gen is the commander generation this store instance belongs to
	Gen int
	// ReadFail: kinds of read ("ik", "ref", "tx", "balance", "account") that fail with a transient, non-not-found error
	ReadFail map[string]bool
}

// ErrTransient is what an injected read failure returns (a connection-level error: not a not-found error)
var ErrTransient = errors.New("verif: injected transient store read failure (connection reset)")

// readFails: the scenario-wide switch (every read of that kind fails), or the scheduler's choice read_fail(t) (the next
// read of the request the context belongs to fails, whatever its kind)
func (s *Store) readFails(ctx context.Context, kind string) bool {
	if (s.ReadFail != nil && s.ReadFail[kind]) || (s.S != nil && s.S.ReadFail != nil && s.S.ReadFail[kind]) {
		return true
	}
	return s.S != nil && s.S.consumeFail(ctx, kind)
}

func txOf(l *ledger.ChainedLog) *ledger.Transaction {
	switch p := l.Data.(type) {
	case ledger.NewTransactionLogPayload:
		return p.Transaction
	case ledger.RevertedTransactionLogPayload:
		return p.RevertTransaction
	}
	return nil
}

func (s *Store) GetBalance(ctx context.Context, address, asset string) (*big.Int, error) {
	if s.readFails(ctx, "balance") {
		return nil, ErrTransient
	}
	b := new(big.Int)
	for _, l := range s.D.snapshot() {
		if tx := txOf(l); tx != nil {
			for _, p := range tx.Postings {
				if p.Asset != asset {
					continue
				}
				if p.Source == address {
					b.Sub(b, p.Amount)
				}
				if p.Destination == address {
					b.Add(b, p.Amount)
				}
			}
		}
	}
	if s.S != nil {
		s.S.note(ctx, "store.balance", "account", address, "asset", asset, "value", b.String())
	}
	s.D.shadowCheck("balance", address+"/"+asset, b.String(), func(m *storage.InMemoryStore) string {
		v, err := m.GetBalance(ctx, address, asset)
		if err != nil {
			return "error: " + err.Error()
		}
		return v.String()
	})
	return b, nil
}

func (s *Store) GetAccount(ctx context.Context, address string) (*ledger.Account, error) {
	if s.readFails(ctx, "account") {
		return nil, ErrTransient
	}
	acc := &ledger.Account{Address: address, Metadata: metadata.Metadata{}}
	for _, l := range s.D.snapshot() {
		switch p := l.Data.(type) {
		case ledger.NewTransactionLogPayload:
			for a, m := range p.AccountMetadata {
				if a == address {
					for k, v := range m {
						acc.Metadata[k] = v
					}
				}
			}
		case ledger.SetMetadataLogPayload:
			if p.TargetType == ledger.MetaTargetTypeAccount && p.TargetID == address {
				for k, v := range p.Metadata {
					acc.Metadata[k] = v
				}
			}
		case ledger.DeleteMetadataLogPayload:
			if p.TargetType == ledger.MetaTargetTypeAccount && p.TargetID == address {
				delete(acc.Metadata, p.Key)
			}
		}
	}
	return acc, nil
}

func (s *Store) GetLastLog(ctx context.Context) (*ledger.ChainedLog, error) {
	logs := s.D.snapshot()
	fold := "none"
	if len(logs) > 0 {
		fold = logs[len(logs)-1].ID.String()
	}
	s.D.shadowCheck("lastlog", "", fold, func(m *storage.InMemoryStore) string {
		l, err := m.GetLastLog(ctx)
		if err != nil || l == nil {
			return "none"
		}
		return l.ID.String()
	})
	if len(logs) == 0 {
		return nil, nil
	}
	return logs[len(logs)-1], nil
}

func (s *Store) GetLastTransaction(ctx context.Context) (*ledger.ExpandedTransaction, error) {
	logs := s.D.snapshot()
	for i := len(logs) - 1; i >= 0; i-- {
		if tx := txOf(logs[i]); tx != nil {
			return &ledger.ExpandedTransaction{Transaction: *tx}, nil
		}
	}
	return nil, sqlutils.ErrNotFound
}

func (s *Store) ReadLogWithIdempotencyKey(ctx context.Context, key string) (*ledger.ChainedLog, error) {
	if s.readFails(ctx, "ik") {
		return nil, ErrTransient
	}
	var found *ledger.ChainedLog
	for _, l := range s.D.snapshot() {
		if l.IdempotencyKey == key {
			found = l
			break
		}
	}
	fold := "not-found"
	if found != nil {
		fold = "log " + found.ID.String()
	}
	s.D.shadowCheck("ik", key, fold, func(m *storage.InMemoryStore) string {
		l, err := m.ReadLogWithIdempotencyKey(ctx, key)
		if err != nil || l == nil {
			return "not-found"
		}
		return "log " + l.ID.String()
	})
	if found != nil {
		return found, nil
	}
	return nil, sqlutils.ErrNotFound
}

func (s *Store) GetTransactionByReference(ctx context.Context, ref string) (*ledger.ExpandedTransaction, error) {
	if s.readFails(ctx, "ref") {
		return nil, ErrTransient
	}
	logs := s.D.snapshot()
	for _, l := range logs {
		if tx := txOf(l); tx != nil && tx.Reference == ref {
			cp := *tx
			for _, l2 := range logs {
				if p, ok := l2.Data.(ledger.RevertedTransactionLogPayload); ok && p.RevertedTransactionID.Cmp(cp.ID) == 0 {
					cp.Reverted = true // as the SQL projection reports it
				}
			}
			s.D.shadowCheck("ref", ref, txDesc(&cp, cp.Reverted), func(m *storage.InMemoryStore) string {
				t, err := m.GetTransactionByReference(ctx, ref)
				if err != nil || t == nil {
					return "not-found"
				}
				return txDesc(&t.Transaction, t.Reverted)
			})
			return &ledger.ExpandedTransaction{Transaction: cp}, nil
		}
	}
	s.D.shadowCheck("ref", ref, "not-found", func(m *storage.InMemoryStore) string {
		t, err := m.GetTransactionByReference(ctx, ref)
		if err != nil || t == nil {
			return "not-found"
		}
		return txDesc(&t.Transaction, t.Reverted)
	})
	return nil, sqlutils.ErrNotFound
}

func (s *Store) GetTransaction(ctx context.Context, txID *big.Int) (*ledger.Transaction, error) {
	if s.readFails(ctx, "tx") {
		return nil, ErrTransient
	}
	logs := s.D.snapshot()
	var found *ledger.Transaction
	for _, l := range logs {
		if tx := txOf(l); tx != nil && tx.ID.Cmp(txID) == 0 {
			cp := *tx
			found = &cp
		}
	}
	askTx := func(m *storage.InMemoryStore) string {
		t, err := m.GetTransaction(ctx, txID)
		if err != nil || t == nil {
			return "not-found"
		}
		return txDesc(t, t.Reverted)
	}
	if found == nil {
		s.D.shadowCheck("tx", txID.String(), "not-found", askTx)
		return nil, sqlutils.ErrNotFound
	}
	for _, l := range logs {
		if p, ok := l.Data.(ledger.RevertedTransactionLogPayload); ok && p.RevertedTransactionID.Cmp(txID) == 0 {
			found.Reverted = true
		}
	}
	s.D.shadowCheck("tx", txID.String(), txDesc(found, found.Reverted), askTx)
	return found, nil
}

// InsertLogs is called by the batch worker: it parks until the scheduler decides the outcome.
func (s *Store) InsertLogs(ctx context.Context, logs ...*ledger.ChainedLog) error {
	if s.S != nil { // under the scheduler: park until it decides the outcome
		switch s.S.workerArrive(s.Gen, logs) {
		case -1:
			return nil // the execution is closed: nothing is written any more
		case 0:
			return errInjected
		case 2:
			return fmt.Errorf("inserting logs: %w", context.Canceled)
		}
	}
	s.D.mu.Lock()
	s.D.Logs = append(s.D.Logs, logs...)
	s.D.Batches = append(s.D.Batches, append([]*ledger.ChainedLog{}, logs...))
	if s.D.Shadow == nil && !s.D.noShadow {
		s.D.Shadow = storage.NewInMemoryStore()
		func() {
			defer func() { _ = recover() }()
			_ = s.D.Shadow.InsertLogs(ctx, s.D.Logs[:len(s.D.Logs)-len(logs)]...)
		}()
	}
	if s.D.Shadow != nil {
		func() {
			defer func() {
				if x := recover(); x != nil && len(s.D.ShadowDiffs) < 20 {
					s.D.ShadowDiffs = append(s.D.ShadowDiffs, fmt.Sprint("insert|storage.InMemoryStore.InsertLogs panics: ", x))
				}
			}()
			_ = s.D.Shadow.InsertLogs(ctx, logs...)
		}()
	}
	s.D.mu.Unlock()
	return nil
}

type injected struct{}

func (injected) Error() string { return "injected store failure" }

var errInjected = injected{}
