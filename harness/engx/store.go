// Package engx drives the REAL command.Commander (real DefaultLocker, Batcher, Referencer, compiler, machine)
// under a deterministic scheduler: every request goroutine parks at the verifhook yield points and at the
// store / monitor boundary; the batch worker parks inside Store.InsertLogs. The store is a fold over the
// persisted log (what the SQL projection is specified to compute).
package engx

import (
	"context"
	"errors"
	"fmt"
	"math/big"
	"sync"

	ledger "github.com/formancehq/ledger/internal"
	"github.com/formancehq/ledger/internal/storage/sqlutils"
	"github.com/formancehq/stack/libs/go-libs/metadata"
)

// Disk is what survives a crash: the persisted log, in insertion order.
type Disk struct {
	mu   sync.Mutex
	Logs []*ledger.ChainedLog
	// Batches records every InsertLogs call that succeeded, across generations
	Batches [][]*ledger.ChainedLog
}

func (d *Disk) snapshot() []*ledger.ChainedLog {
	d.mu.Lock()
	defer d.mu.Unlock()
	return append([]*ledger.ChainedLog{}, d.Logs...)
}

// Store implements command.Store over a Disk; InsertLogs asks the scheduler (persist ok / fail).
type Store struct {
	D *Disk
	S *Sched
	// Gen is the commander generation this store instance belongs to
	Gen int
	// ReadFail: kinds of read ("ik", "ref", "tx", "balance", "account") that fail with a transient, non-not-found error
	ReadFail map[string]bool
}

// ErrTransient is what an injected read failure returns (a connection-level error: not a not-found error)
var ErrTransient = errors.New("verif: injected transient store read failure (connection reset)")

// readFails: the scenario-wide switch (every read of that kind fails), or the scheduler's choice read_fail(t) (the next
// read of the request the context belongs to fails, whatever its kind)
func (s *Store) readFails(ctx context.Context, kind string) bool {
	if (s.ReadFail != nil && s.ReadFail[kind]) || (s.S != nil && s.S.ReadFail != nil && s.S.ReadFail[kind]) {
		return true
	}
	return s.S != nil && s.S.consumeFail(ctx, kind)
}

func txOf(l *ledger.ChainedLog) *ledger.Transaction {
	switch p := l.Data.(type) {
	case ledger.NewTransactionLogPayload:
		return p.Transaction
	case ledger.RevertedTransactionLogPayload:
		return p.RevertTransaction
	}
	return nil
}

func (s *Store) GetBalance(ctx context.Context, address, asset string) (*big.Int, error) {
	if s.readFails(ctx, "balance") {
		return nil, ErrTransient
	}
	b := new(big.Int)
	for _, l := range s.D.snapshot() {
		if tx := txOf(l); tx != nil {
			for _, p := range tx.Postings {
				if p.Asset != asset {
					continue
				}
				if p.Source == address {
					b.Sub(b, p.Amount)
				}
				if p.Destination == address {
					b.Add(b, p.Amount)
				}
			}
		}
	}
	if s.S != nil {
		s.S.note(ctx, "store.balance", "account", address, "asset", asset, "value", b.String())
	}
	return b, nil
}

func (s *Store) GetAccount(ctx context.Context, address string) (*ledger.Account, error) {
	if s.readFails(ctx, "account") {
		return nil, ErrTransient
	}
	acc := &ledger.Account{Address: address, Metadata: metadata.Metadata{}}
	for _, l := range s.D.snapshot() {
		switch p := l.Data.(type) {
		case ledger.NewTransactionLogPayload:
			for a, m := range p.AccountMetadata {
				if a == address {
					for k, v := range m {
						acc.Metadata[k] = v
					}
				}
			}
		case ledger.SetMetadataLogPayload:
			if p.TargetType == ledger.MetaTargetTypeAccount && p.TargetID == address {
				for k, v := range p.Metadata {
					acc.Metadata[k] = v
				}
			}
		case ledger.DeleteMetadataLogPayload:
			if p.TargetType == ledger.MetaTargetTypeAccount && p.TargetID == address {
				delete(acc.Metadata, p.Key)
			}
		}
	}
	return acc, nil
}

func (s *Store) GetLastLog(ctx context.Context) (*ledger.ChainedLog, error) {
	logs := s.D.snapshot()
	if len(logs) == 0 {
		return nil, nil
	}
	return logs[len(logs)-1], nil
}

func (s *Store) GetLastTransaction(ctx context.Context) (*ledger.ExpandedTransaction, error) {
	logs := s.D.snapshot()
	for i := len(logs) - 1; i >= 0; i-- {
		if tx := txOf(logs[i]); tx != nil {
			return &ledger.ExpandedTransaction{Transaction: *tx}, nil
		}
	}
	return nil, sqlutils.ErrNotFound
}

func (s *Store) ReadLogWithIdempotencyKey(ctx context.Context, key string) (*ledger.ChainedLog, error) {
	if s.readFails(ctx, "ik") {
		return nil, ErrTransient
	}
	for _, l := range s.D.snapshot() {
		if l.IdempotencyKey == key {
			return l, nil
		}
	}
	return nil, sqlutils.ErrNotFound
}

func (s *Store) GetTransactionByReference(ctx context.Context, ref string) (*ledger.ExpandedTransaction, error) {
	if s.readFails(ctx, "ref") {
		return nil, ErrTransient
	}
	logs := s.D.snapshot()
	for _, l := range logs {
		if tx := txOf(l); tx != nil && tx.Reference == ref {
			cp := *tx
			for _, l2 := range logs {
				if p, ok := l2.Data.(ledger.RevertedTransactionLogPayload); ok && p.RevertedTransactionID.Cmp(cp.ID) == 0 {
					cp.Reverted = true // as the SQL projection reports it
				}
			}
			return &ledger.ExpandedTransaction{Transaction: cp}, nil
		}
	}
	return nil, sqlutils.ErrNotFound
}

func (s *Store) GetTransaction(ctx context.Context, txID *big.Int) (*ledger.Transaction, error) {
	if s.readFails(ctx, "tx") {
		return nil, ErrTransient
	}
	logs := s.D.snapshot()
	var found *ledger.Transaction
	for _, l := range logs {
		if tx := txOf(l); tx != nil && tx.ID.Cmp(txID) == 0 {
			cp := *tx
			found = &cp
		}
	}
	if found == nil {
		return nil, sqlutils.ErrNotFound
	}
	for _, l := range logs {
		if p, ok := l.Data.(ledger.RevertedTransactionLogPayload); ok && p.RevertedTransactionID.Cmp(txID) == 0 {
			found.Reverted = true
		}
	}
	return found, nil
}

// InsertLogs is called by the batch worker: it parks until the scheduler decides the outcome.
func (s *Store) InsertLogs(ctx context.Context, logs ...*ledger.ChainedLog) error {
	if s.S != nil { // under the scheduler: park until it decides the outcome
		switch s.S.workerArrive(s.Gen, logs) {
		case -1:
			return nil // the execution is closed: nothing is written any more
		case 0:
			return errInjected
		case 2:
			return fmt.Errorf("inserting logs: %w", context.Canceled)
		}
	}
	s.D.mu.Lock()
	s.D.Logs = append(s.D.Logs, logs...)
	s.D.Batches = append(s.D.Batches, append([]*ledger.ChainedLog{}, logs...))
	s.D.mu.Unlock()
	return nil
}

type injected struct{}

func (injected) Error() string { return "injected store failure" }

var errInjected = injected{}
