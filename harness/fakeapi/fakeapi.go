// Package fakeapi provides a scripted / recording implementation of backend.Backend and backend.Ledger,
// so the real routers and handlers can be driven without a database.
package fakeapi

import (
	"context"
	"math/big"
	"sync"

	ledger "github.com/formancehq/ledger/internal"
	"github.com/formancehq/ledger/internal/api/backend"
	"github.com/formancehq/ledger/internal/engine"
	"github.com/formancehq/ledger/internal/engine/command"
	"github.com/formancehq/ledger/internal/storage/driver"
	"github.com/formancehq/ledger/internal/storage/ledgerstore"
	"github.com/formancehq/ledger/internal/storage/systemstore"
	sharedapi "github.com/formancehq/stack/libs/go-libs/api"
	"github.com/formancehq/stack/libs/go-libs/metadata"
	"github.com/formancehq/stack/libs/go-libs/migrations"
)

// WriteCall is one call of a write method of backend.Ledger.
type WriteCall struct {
	Kind       string // CREATE_TRANSACTION | REVERT_TRANSACTION | ADD_METADATA | DELETE_METADATA
	Params     command.Parameters
	Script     *ledger.RunScript
	ID         *big.Int
	Force      bool
	TargetType string
	TargetID   any
	Meta       metadata.Metadata
	Key        string
}

// Ledger records reads and writes; Decide scripts the answer of a write (nil = succeed with a default).
type Ledger struct {
	mu     sync.Mutex
	Writes []WriteCall
	Reads  []string
	Decide func(c WriteCall) (*ledger.Transaction, error)
	// GetTx, when set, answers GetTransactionWithVolumes (the store's semantics are the caller's business: PIT filter etc.)
	GetTx func(q ledgerstore.GetTransactionQuery) (*ledger.ExpandedTransaction, error)
}

func (l *Ledger) read(n string) {
	l.mu.Lock()
	l.Reads = append(l.Reads, n)
	l.mu.Unlock()
}
func (l *Ledger) write(c WriteCall) (*ledger.Transaction, error) {
	l.mu.Lock()
	l.Writes = append(l.Writes, c)
	l.mu.Unlock()
	if l.Decide != nil {
		return l.Decide(c)
	}
	tx := ledger.NewTransaction()
	tx.ID = big.NewInt(0)
	return tx, nil
}

func (l *Ledger) GetAccountWithVolumes(ctx context.Context, q ledgerstore.GetAccountQuery) (*ledger.ExpandedAccount, error) {
	l.read("GetAccountWithVolumes")
	return &ledger.ExpandedAccount{}, nil
}
func (l *Ledger) GetAccountsWithVolumes(ctx context.Context, q ledgerstore.GetAccountsQuery) (*sharedapi.Cursor[ledger.ExpandedAccount], error) {
	l.read("GetAccountsWithVolumes")
	return &sharedapi.Cursor[ledger.ExpandedAccount]{}, nil
}
func (l *Ledger) CountAccounts(ctx context.Context, q ledgerstore.GetAccountsQuery) (int, error) {
	l.read("CountAccounts")
	return 0, nil
}
func (l *Ledger) GetAggregatedBalances(ctx context.Context, q ledgerstore.GetAggregatedBalanceQuery) (ledger.BalancesByAssets, error) {
	l.read("GetAggregatedBalances")
	return ledger.BalancesByAssets{}, nil
}
func (l *Ledger) GetMigrationsInfo(ctx context.Context) ([]migrations.Info, error) {
	l.read("GetMigrationsInfo")
	return nil, nil
}
func (l *Ledger) Stats(ctx context.Context) (engine.Stats, error) {
	l.read("Stats")
	return engine.Stats{}, nil
}
func (l *Ledger) GetLogs(ctx context.Context, q ledgerstore.GetLogsQuery) (*sharedapi.Cursor[ledger.ChainedLog], error) {
	l.read("GetLogs")
	return &sharedapi.Cursor[ledger.ChainedLog]{}, nil
}
func (l *Ledger) CountTransactions(ctx context.Context, q ledgerstore.GetTransactionsQuery) (int, error) {
	l.read("CountTransactions")
	return 0, nil
}
func (l *Ledger) GetTransactions(ctx context.Context, q ledgerstore.GetTransactionsQuery) (*sharedapi.Cursor[ledger.ExpandedTransaction], error) {
	l.read("GetTransactions")
	return &sharedapi.Cursor[ledger.ExpandedTransaction]{}, nil
}
func (l *Ledger) GetTransactionWithVolumes(ctx context.Context, q ledgerstore.GetTransactionQuery) (*ledger.ExpandedTransaction, error) {
	l.read("GetTransactionWithVolumes")
	if l.GetTx != nil {
		return l.GetTx(q)
	}
	return &ledger.ExpandedTransaction{Transaction: *ledger.NewTransaction().WithID(big.NewInt(0))}, nil
}
func (l *Ledger) CreateTransaction(ctx context.Context, p command.Parameters, data ledger.RunScript) (*ledger.Transaction, error) {
	return l.write(WriteCall{Kind: "CREATE_TRANSACTION", Params: p, Script: &data})
}
func (l *Ledger) RevertTransaction(ctx context.Context, p command.Parameters, id *big.Int, force bool) (*ledger.Transaction, error) {
	return l.write(WriteCall{Kind: "REVERT_TRANSACTION", Params: p, ID: id, Force: force})
}
func (l *Ledger) SaveMeta(ctx context.Context, p command.Parameters, targetType string, targetID any, m metadata.Metadata) error {
	_, err := l.write(WriteCall{Kind: "ADD_METADATA", Params: p, TargetType: targetType, TargetID: targetID, Meta: m})
	return err
}
func (l *Ledger) DeleteMetadata(ctx context.Context, p command.Parameters, targetType string, targetID any, key string) error {
	_, err := l.write(WriteCall{Kind: "DELETE_METADATA", Params: p, TargetType: targetType, TargetID: targetID, Key: key})
	return err
}
func (l *Ledger) IsDatabaseUpToDate(ctx context.Context) (bool, error) { return true, nil }

var _ backend.Ledger = (*Ledger)(nil)

// Backend serves one Ledger under every name and records ledger creations.
type Backend struct {
	L       *Ledger
	mu      sync.Mutex
	Created []string
}

func (b *Backend) GetLedgerEngine(ctx context.Context, name string) (backend.Ledger, error) {
	return b.L, nil
}
func (b *Backend) GetLedger(ctx context.Context, name string) (*systemstore.Ledger, error) {
	return &systemstore.Ledger{Name: name}, nil
}
func (b *Backend) ListLedgers(ctx context.Context, q systemstore.ListLedgersQuery) (*sharedapi.Cursor[systemstore.Ledger], error) {
	return &sharedapi.Cursor[systemstore.Ledger]{}, nil
}
func (b *Backend) CreateLedger(ctx context.Context, name string, configuration driver.LedgerConfiguration) error {
	b.mu.Lock()
	b.Created = append(b.Created, name)
	b.mu.Unlock()
	return nil
}
func (b *Backend) GetVersion() string { return "verif" }

var _ backend.Backend = (*Backend)(nil)
