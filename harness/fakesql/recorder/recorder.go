// Package recorder is a database/sql driver that records the complete text of every statement it receives and
// answers every query with an empty result set. Behind bun (which inlines all `?` arguments client-side) the
// recorded text is exactly what PostgreSQL would receive.
package recorder

import (
	"context"
	"database/sql/driver"
	"io"
	"sync"
)

// Stmt is one statement as received by the driver.
type Stmt struct {
	Kind string // query | exec | prepare | begin | commit | rollback
	SQL  string
	Args int // number of driver-level arguments (bun sends none: it formats them into the text)
}

// Recorder is a driver.Connector; all connections opened from it append to the same log.
type Recorder struct {
	mu    sync.Mutex
	stmts []Stmt
}

func New() *Recorder { return &Recorder{} }

func (r *Recorder) add(s Stmt) {
	r.mu.Lock()
	r.stmts = append(r.stmts, s)
	r.mu.Unlock()
}

// Take returns the statements recorded so far and clears the log.
func (r *Recorder) Take() []Stmt {
	r.mu.Lock()
	defer r.mu.Unlock()
	out := r.stmts
	r.stmts = nil
	return out
}

func (r *Recorder) Connect(context.Context) (driver.Conn, error) { return &conn{r: r}, nil }
func (r *Recorder) Driver() driver.Driver                        { return drv{r} }

type drv struct{ r *Recorder }

func (d drv) Open(string) (driver.Conn, error) { return &conn{r: d.r}, nil }

type conn struct{ r *Recorder }

func (c *conn) Prepare(q string) (driver.Stmt, error) {
	c.r.add(Stmt{Kind: "prepare", SQL: q})
	return &stmt{c: c, q: q}, nil
}
func (c *conn) Close() error { return nil }
func (c *conn) Begin() (driver.Tx, error) {
	c.r.add(Stmt{Kind: "begin"})
	return tx{c}, nil
}
func (c *conn) BeginTx(ctx context.Context, opts driver.TxOptions) (driver.Tx, error) {
	return c.Begin()
}
func (c *conn) QueryContext(ctx context.Context, q string, args []driver.NamedValue) (driver.Rows, error) {
	c.r.add(Stmt{Kind: "query", SQL: q, Args: len(args)})
	return rows{}, nil
}
func (c *conn) ExecContext(ctx context.Context, q string, args []driver.NamedValue) (driver.Result, error) {
	c.r.add(Stmt{Kind: "exec", SQL: q, Args: len(args)})
	return driver.RowsAffected(0), nil
}
func (c *conn) Ping(context.Context) error { return nil }

type tx struct{ c *conn }

func (t tx) Commit() error   { t.c.r.add(Stmt{Kind: "commit"}); return nil }
func (t tx) Rollback() error { t.c.r.add(Stmt{Kind: "rollback"}); return nil }

type stmt struct {
	c *conn
	q string
}

func (s *stmt) Close() error  { return nil }
func (s *stmt) NumInput() int { return -1 }
func (s *stmt) Exec(args []driver.Value) (driver.Result, error) {
	s.c.r.add(Stmt{Kind: "exec", SQL: s.q, Args: len(args)})
	return driver.RowsAffected(0), nil
}
func (s *stmt) Query(args []driver.Value) (driver.Rows, error) {
	s.c.r.add(Stmt{Kind: "query", SQL: s.q, Args: len(args)})
	return rows{}, nil
}

type rows struct{}

func (rows) Columns() []string         { return nil }
func (rows) Close() error              { return nil }
func (rows) Next([]driver.Value) error { return io.EOF }
