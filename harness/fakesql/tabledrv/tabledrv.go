// Package tabledrv is a small database/sql driver that answers the SELECT statements of the paginated listings
// from in-memory tables and records every statement it receives.
//
// It understands exactly the shape the listings have once bun has rendered them (bun inlines all arguments
// client-side, so the text is what PostgreSQL would receive):
//
//	SELECT <anything> FROM "<table>" [JOIN ...] [WHERE c1 AND c2 ...] [ORDER BY e1, e2 ...] [LIMIT n] [OFFSET m]
//
// Clause keywords are located at parenthesis depth 0 outside string literals. A conjunct of the form
// `[tbl.]col <op> literal` on a column the table has is evaluated; any other conjunct is reported in
// Stmt.Ignored and treated as true (Strict makes it an error instead). ORDER BY is a stable sort: rows with
// equal keys stay in table order.
package tabledrv

import (
	"context"
	"database/sql/driver"
	"errors"
	"fmt"
	"io"
	"math/big"
	"regexp"
	"sort"
	"strconv"
	"strings"
	"sync"
)

// Table is a list of rows in insertion ("table") order.
type Table struct {
	Cols []string
	Rows [][]driver.Value
}

func (t *Table) col(name string) int {
	for i, c := range t.Cols {
		if c == name {
			return i
		}
	}
	return -1
}

// Cond is one evaluated conjunct.
type Cond struct {
	Col, Op, Lit string
}

type OrderTerm struct {
	Col  string
	Desc bool
}

// Stmt is what the driver made of one statement.
type Stmt struct {
	SQL     string
	Table   string
	Conds   []Cond      // evaluated conjuncts, in WHERE order
	Ignored []string    // conjuncts that were not understood (treated as true)
	Order   []OrderTerm // ORDER BY terms on known columns
	OrderIg []string    // ORDER BY terms that were not understood (ignored)
	Limit   int         // -1 = none
	Offset  int
	Where   string // the raw top-level WHERE text
	// Ranged = indices (table order) of the rows satisfying every conjunct that is not a comparison on KeyCol:
	// what the statement ranges over when KeyCol is the pagination column.
	// Sorted = indices of the rows satisfying every conjunct, after ORDER BY, before OFFSET / LIMIT.
	Ranged []int
	Sorted []int
	Returned int
	Err      string
}

type DB struct {
	mu     sync.Mutex
	Tables map[string]*Table
	Stmts  []Stmt
	Strict bool   // unknown conjuncts / order terms are errors
	KeyCol string // column whose Universe is reported
	Execs  []string
}

func New() *DB { return &DB{Tables: map[string]*Table{}, KeyCol: "id"} }

func (d *DB) Reset() {
	d.mu.Lock()
	d.Stmts, d.Execs = nil, nil
	d.mu.Unlock()
}

func (d *DB) Last() *Stmt {
	d.mu.Lock()
	defer d.mu.Unlock()
	if len(d.Stmts) == 0 {
		return nil
	}
	s := d.Stmts[len(d.Stmts)-1]
	return &s
}

// ---- statement analysis -------------------------------------------------------------------------------

type span struct{ kw string; at, end int }

// topLevel finds clause keywords at depth 0 outside literals, after the first top-level FROM.
func topLevel(sql string) []span {
	var out []span
	depth := 0
	up := strings.ToUpper(sql)
	isWord := func(b byte) bool { return b == '_' || b >= '0' && b <= '9' || b >= 'A' && b <= 'Z' || b >= 'a' && b <= 'z' }
	kws := []string{"FROM", "WHERE", "ORDER BY", "LIMIT", "OFFSET", "GROUP BY", "HAVING", "JOIN", "LEFT JOIN", "INNER JOIN"}
	for i := 0; i < len(sql); i++ {
		switch c := sql[i]; {
		case c == '\'':
			for i++; i < len(sql); i++ {
				if sql[i] == '\'' {
					if i+1 < len(sql) && sql[i+1] == '\'' {
						i++
						continue
					}
					break
				}
			}
		case c == '"':
			for i++; i < len(sql) && sql[i] != '"'; i++ {
			}
		case c == '(':
			depth++
		case c == ')':
			depth--
		default:
			if depth != 0 || (i > 0 && isWord(sql[i-1])) {
				continue
			}
			for _, kw := range kws {
				if strings.HasPrefix(up[i:], kw) && (i+len(kw) == len(sql) || !isWord(sql[i+len(kw)])) {
					out = append(out, span{kw, i, i + len(kw)})
					i += len(kw) - 1
					break
				}
			}
		}
	}
	return out
}

// splitTop splits s at the separator word/char at depth 0 outside literals.
func splitTop(s string, sep string) []string {
	var parts []string
	depth, start := 0, 0
	up := strings.ToUpper(s)
	isWord := func(b byte) bool { return b == '_' || b >= '0' && b <= '9' || b >= 'A' && b <= 'Z' || b >= 'a' && b <= 'z' }
	for i := 0; i < len(s); i++ {
		switch c := s[i]; {
		case c == '\'':
			for i++; i < len(s); i++ {
				if s[i] == '\'' {
					if i+1 < len(s) && s[i+1] == '\'' {
						i++
						continue
					}
					break
				}
			}
		case c == '"':
			for i++; i < len(s) && s[i] != '"'; i++ {
			}
		case c == '(':
			depth++
		case c == ')':
			depth--
		default:
			if depth != 0 {
				continue
			}
			if sep == "," {
				if c == ',' {
					parts = append(parts, s[start:i])
					start = i + 1
				}
			} else if strings.HasPrefix(up[i:], sep) && (i == 0 || !isWord(s[i-1])) && (i+len(sep) == len(s) || !isWord(s[i+len(sep)])) {
				parts = append(parts, s[start:i])
				start = i + len(sep)
				i += len(sep) - 1
			}
		}
	}
	return append(parts, s[start:])
}

func stripParens(s string) string {
	s = strings.TrimSpace(s)
	for len(s) >= 2 && s[0] == '(' && s[len(s)-1] == ')' {
		// the outer parentheses must match each other
		depth, ok := 0, true
		for i := 0; i < len(s)-1; i++ {
			if s[i] == '\'' {
				for i++; i < len(s)-1 && s[i] != '\''; i++ {
				}
				continue
			}
			if s[i] == '(' {
				depth++
			} else if s[i] == ')' {
				depth--
				if depth == 0 {
					ok = false
					break
				}
			}
		}
		if !ok {
			break
		}
		s = strings.TrimSpace(s[1 : len(s)-1])
	}
	return s
}

var (
	condRe  = regexp.MustCompile(`^(?:"?[A-Za-z_][A-Za-z0-9_]*"?\.)?"?([A-Za-z_][A-Za-z0-9_]*)"?\s*(<=|>=|<>|!=|<|>|=)\s*(?:'((?:[^']|'')*)'|(-?[0-9]+))$`)
	orderRe = regexp.MustCompile(`(?i)^(?:"?[A-Za-z_][A-Za-z0-9_]*"?\.)?"?([A-Za-z_][A-Za-z0-9_]*)"?(?:\s+(ASC|DESC))?$`)
	identRe = regexp.MustCompile(`^\s*(?:"?[A-Za-z_][A-Za-z0-9_]*"?\.)?"?([A-Za-z_][A-Za-z0-9_]*)"?`)
)

func asText(v driver.Value) (string, bool) {
	switch x := v.(type) {
	case nil:
		return "", false
	case string:
		return x, true
	case []byte:
		return string(x), true
	case int64:
		return strconv.FormatInt(x, 10), true
	case int:
		return strconv.Itoa(x), true
	}
	return fmt.Sprint(v), true
}

// cmp compares numerically when both sides are integers, else as text; NULL sorts first.
func cmp(a, b driver.Value) int {
	sa, oka := asText(a)
	sb, okb := asText(b)
	if !oka || !okb {
		switch {
		case !oka && !okb:
			return 0
		case !oka:
			return -1
		}
		return 1
	}
	x, ok1 := new(big.Int).SetString(sa, 10)
	y, ok2 := new(big.Int).SetString(sb, 10)
	if ok1 && ok2 {
		return x.Cmp(y)
	}
	return strings.Compare(sa, sb)
}

func holds(op string, c int) bool {
	switch op {
	case "<":
		return c < 0
	case "<=":
		return c <= 0
	case ">":
		return c > 0
	case ">=":
		return c >= 0
	case "=":
		return c == 0
	}
	return c != 0
}

func (d *DB) analyse(sql string) (st Stmt, rows [][]driver.Value, cols []string, err error) {
	st = Stmt{SQL: sql, Limit: -1}
	sp := topLevel(sql)
	clause := func(kw string) (string, bool) {
		for i, s := range sp {
			if s.kw == kw {
				end := len(sql)
				if i+1 < len(sp) {
					end = sp[i+1].at
				}
				return strings.TrimSpace(sql[s.end:end]), true
			}
		}
		return "", false
	}
	from, ok := clause("FROM")
	if !ok {
		return st, nil, nil, errors.New("tabledrv: no FROM")
	}
	m := identRe.FindStringSubmatch(from)
	if m == nil {
		return st, nil, nil, errors.New("tabledrv: cannot read table name in: " + from)
	}
	st.Table = m[1]
	t := d.Tables[st.Table]
	if t == nil {
		return st, nil, nil, errors.New("tabledrv: unknown table " + st.Table)
	}
	cols = t.Cols
	if w, ok := clause("WHERE"); ok {
		st.Where = w
		for _, c := range splitTop(w, "AND") {
			c = stripParens(c)
			mm := condRe.FindStringSubmatch(c)
			if mm == nil || t.col(mm[1]) < 0 {
				st.Ignored = append(st.Ignored, c)
				continue
			}
			lit := mm[4]
			if lit == "" {
				lit = strings.ReplaceAll(mm[3], "''", "'")
			}
			st.Conds = append(st.Conds, Cond{mm[1], mm[2], lit})
		}
	}
	if o, ok := clause("ORDER BY"); ok {
		for _, e := range splitTop(o, ",") {
			e = strings.TrimSpace(e)
			mm := orderRe.FindStringSubmatch(e)
			if mm == nil || t.col(mm[1]) < 0 {
				st.OrderIg = append(st.OrderIg, e)
				continue
			}
			st.Order = append(st.Order, OrderTerm{mm[1], strings.EqualFold(mm[2], "DESC")})
		}
	}
	if l, ok := clause("LIMIT"); ok {
		if st.Limit, err = strconv.Atoi(strings.TrimSpace(l)); err != nil {
			return st, nil, nil, errors.New("tabledrv: bad LIMIT " + l)
		}
	}
	if o, ok := clause("OFFSET"); ok {
		if st.Offset, err = strconv.Atoi(strings.TrimSpace(o)); err != nil {
			return st, nil, nil, errors.New("tabledrv: bad OFFSET " + o)
		}
	}
	if d.Strict && (len(st.Ignored) > 0 || len(st.OrderIg) > 0) {
		return st, nil, nil, fmt.Errorf("tabledrv: not understood: %v %v", st.Ignored, st.OrderIg)
	}
	var idx []int
	for i, r := range t.Rows {
		all, others := true, true
		for _, c := range st.Conds {
			h := holds(c.Op, cmp(r[t.col(c.Col)], c.Lit))
			all = all && h
			if c.Col != d.KeyCol {
				others = others && h
			}
		}
		if others {
			st.Ranged = append(st.Ranged, i)
		}
		if all {
			idx = append(idx, i)
		}
	}
	if len(st.Order) > 0 {
		sort.SliceStable(idx, func(i, j int) bool {
			for _, o := range st.Order {
				c := cmp(t.Rows[idx[i]][t.col(o.Col)], t.Rows[idx[j]][t.col(o.Col)])
				if c != 0 {
					return (c < 0) != o.Desc
				}
			}
			return false
		})
	}
	st.Sorted = append([]int{}, idx...)
	if st.Offset > 0 {
		if st.Offset >= len(idx) {
			idx = nil
		} else {
			idx = idx[st.Offset:]
		}
	}
	if st.Limit >= 0 && st.Limit < len(idx) {
		idx = idx[:st.Limit]
	}
	for _, i := range idx {
		rows = append(rows, t.Rows[i])
	}
	st.Returned = len(rows)
	return st, rows, cols, nil
}

// ---- database/sql/driver plumbing ----------------------------------------------------------------------

type connector struct{ d *DB }

func (d *DB) Connector() driver.Connector                          { return connector{d} }
func (c connector) Connect(context.Context) (driver.Conn, error) { return &conn{c.d}, nil }
func (c connector) Driver() driver.Driver                        { return drv{c.d} }

type drv struct{ d *DB }

func (d drv) Open(string) (driver.Conn, error) { return &conn{d.d}, nil }

type conn struct{ d *DB }

func (c *conn) Prepare(q string) (driver.Stmt, error) { return &stmt{c, q}, nil }
func (c *conn) Close() error                          { return nil }
func (c *conn) Begin() (driver.Tx, error)             { return tx{}, nil }

type tx struct{}

func (tx) Commit() error   { return nil }
func (tx) Rollback() error { return nil }

func (c *conn) QueryContext(_ context.Context, q string, args []driver.NamedValue) (driver.Rows, error) {
	if len(args) > 0 {
		return nil, errors.New("tabledrv: placeholders are not supported (bun inlines arguments)")
	}
	c.d.mu.Lock()
	defer c.d.mu.Unlock()
	st, rs, cols, err := c.d.analyse(q)
	if err != nil {
		st.Err = err.Error()
	}
	c.d.Stmts = append(c.d.Stmts, st)
	if err != nil {
		return nil, err
	}
	return &rows{cols: cols, rows: rs}, nil
}

func (c *conn) ExecContext(_ context.Context, q string, _ []driver.NamedValue) (driver.Result, error) {
	c.d.mu.Lock()
	c.d.Execs = append(c.d.Execs, q)
	c.d.mu.Unlock()
	return driver.RowsAffected(0), nil
}

type stmt struct {
	c *conn
	q string
}

func (s *stmt) Close() error  { return nil }
func (s *stmt) NumInput() int { return -1 }
func (s *stmt) Exec(a []driver.Value) (driver.Result, error) {
	return s.c.ExecContext(context.Background(), s.q, nil)
}
func (s *stmt) Query(a []driver.Value) (driver.Rows, error) {
	return s.c.QueryContext(context.Background(), s.q, nil)
}

type rows struct {
	cols []string
	rows [][]driver.Value
	i    int
}

func (r *rows) Columns() []string { return r.cols }
func (r *rows) Close() error      { return nil }
func (r *rows) Next(dest []driver.Value) error {
	if r.i >= len(r.rows) {
		return io.EOF
	}
	copy(dest, r.rows[r.i])
	r.i++
	return nil
}
