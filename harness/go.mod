module github.com/formancehq/ledger/verifx

go 1.20

require (
	github.com/formancehq/ledger v0.0.0
	github.com/formancehq/stack/libs/go-libs v0.0.0-20230517212829-71aaaacfd130
)

require (
	github.com/ThreeDotsLabs/watermill v1.2.0 // indirect
	github.com/davecgh/go-spew v1.1.1 // indirect
	github.com/go-logr/logr v1.2.4 // indirect
	github.com/go-logr/stdr v1.2.2 // indirect
	github.com/google/uuid v1.3.1 // indirect
	github.com/imdario/mergo v0.3.13 // indirect
	github.com/jackc/pgpassfile v1.0.0 // indirect
	github.com/jackc/pgservicefile v0.0.0-20221227161230-091c0ba34f0a // indirect
	github.com/jackc/pgx/v5 v5.3.0 // indirect
	github.com/jinzhu/inflection v1.0.0 // indirect
	github.com/lib/pq v1.10.7 // indirect
	github.com/lithammer/shortuuid/v3 v3.0.7 // indirect
	github.com/oklog/ulid v1.3.1 // indirect
	github.com/pkg/errors v0.9.1 // indirect
	github.com/pmezard/go-difflib v1.0.0 // indirect
	github.com/sirupsen/logrus v1.9.3 // indirect
	github.com/stretchr/testify v1.8.4 // indirect
	github.com/tmthrgd/go-hex v0.0.0-20190904060850-447a3041c3bc // indirect
	github.com/uptrace/bun v1.1.16 // indirect
	github.com/uptrace/bun/dialect/pgdialect v1.1.16 // indirect
	github.com/uptrace/bun/extra/bunotel v1.1.16 // indirect
	github.com/uptrace/opentelemetry-go-extra/otelsql v0.2.2 // indirect
	github.com/vmihailenco/msgpack/v5 v5.3.5 // indirect
	github.com/vmihailenco/tagparser/v2 v2.0.0 // indirect
	go.opentelemetry.io/otel v1.17.0 // indirect
	go.opentelemetry.io/otel/metric v1.17.0 // indirect
	go.opentelemetry.io/otel/trace v1.17.0 // indirect
	go.uber.org/atomic v1.10.0 // indirect
	go.uber.org/multierr v1.9.0 // indirect
	go.uber.org/zap v1.24.0 // indirect
	golang.org/x/crypto v0.14.0 // indirect
	golang.org/x/sys v0.13.0 // indirect
	golang.org/x/text v0.13.0 // indirect
	gopkg.in/yaml.v3 v3.0.1 // indirect
)

replace github.com/formancehq/ledger => /repo

replace github.com/formancehq/stack/libs/go-libs => /repo/libs
