module github.com/formancehq/ledger/verifx

go 1.20

require (
	github.com/formancehq/ledger v0.0.0
	github.com/formancehq/stack/libs/go-libs v0.0.0-20230517212829-71aaaacfd130
)

replace github.com/formancehq/ledger => /repo

replace github.com/formancehq/stack/libs/go-libs => /repo/libs
