// Package routetab reads the chi route registrations of the ledger API from the Go source (go/ast, no type
// checking, no build) and turns them into a route tree: endpoints with their methods, patterns and the write
// methods of backend.Ledger their handlers can reach, mounts with their sub-trees, plus the facts about the
// ReadOnly middleware (is it installed on the root mux under `if readOnly` before any route; which methods it lets
// through). It is the translator behind coq/theories/Router/RoutesGen.v (cmd/routes2coq) and the source of the
// request patterns of cmd/obs-router.
//
// The analysis is deliberately strict: any statement or call shape in a NewRouter body, pattern syntax, or
// middleware it does not understand is an error (the tie to the source is then broken and the check says so),
// never a silent skip.
package routetab

import (
	"fmt"
	"go/ast"
	"go/parser"
	"go/token"
	"os"
	"path/filepath"
	"sort"
	"strconv"
	"strings"
)

// Seg is one "/"-separated piece of a pattern: static text or a {param}.
type Seg struct {
	Param bool
	Text  string
}

// Node is an endpoint or a mount (Route / Mount) of one router.
type Node struct {
	Mount   bool
	Pattern string // as written in the source
	Segs    []Seg
	Methods []string // endpoint: the methods it is registered for
	Handler string   // endpoint: the handler expression
	Full    string   // endpoint: the pattern from the root ("/api/ledger/v2/{ledger}/_bulk")
	Writes  []string // endpoint: kinds of write the handler can reach, sorted (fakeapi.WriteCall.Kind names)
	Sub     []*Node  // mount
	Pos     string
}

type Table struct {
	Routes        []*Node
	GateInstalled bool     // root mux: `if readOnly { mux.Use(ReadOnly) }` before every route registration
	GateNote      string   // why not, when not
	GateAllowed   []string // methods the ReadOnly condition lets through
	// module.go: the provider of chi.Router calls NewRouter(..., cfg.ReadOnly) and nothing in Module reassigns cfg
	ModulePassesFlag bool
	ModuleNote       string
	Middlewares      []string // every middleware met (rendered), for the record
}

// ChiMethods are the methods chi v5 routes at all (tree.go methodMap); anything else is answered 405 by the mux.
var ChiMethods = []string{"CONNECT", "DELETE", "GET", "HEAD", "OPTIONS", "PATCH", "POST", "PUT", "TRACE"}

// WriterMethods maps the write methods of backend.Ledger to the kind names used by harness/fakeapi.
var WriterMethods = map[string]string{
	"CreateTransaction": "CREATE_TRANSACTION",
	"RevertTransaction": "REVERT_TRANSACTION",
	"SaveMeta":          "ADD_METADATA",
	"DeleteMetadata":    "DELETE_METADATA",
}

var allKinds = []string{"ADD_METADATA", "CREATE_TRANSACTION", "DELETE_METADATA", "REVERT_TRANSACTION"}

// ---------------------------------------------------------------------------------------------------------

type pkg struct {
	dir   string
	repo  string
	fset  *token.FileSet
	files []*ast.File
	funcs map[string]*ast.FuncDecl   // top-level functions (no receiver)
	meths map[string][]*ast.FuncDecl // methods of the package's types, by name (any receiver)
	// per file: import alias -> import path
	imports map[*ast.File]map[string]string
	fileOf  map[*ast.FuncDecl]*ast.File
	writes  map[string]map[string]bool // memo: function name -> kinds
	busy    map[string]bool
}

type analyzer struct {
	repo   string
	module string
	pkgs   map[string]*pkg
	tab    *Table
}

func (a *analyzer) load(dir string) (*pkg, error) {
	if p, ok := a.pkgs[dir]; ok {
		return p, nil
	}
	ents, err := os.ReadDir(dir)
	if err != nil {
		return nil, err
	}
	p := &pkg{dir: dir, repo: a.repo, fset: token.NewFileSet(), funcs: map[string]*ast.FuncDecl{}, meths: map[string][]*ast.FuncDecl{}, imports: map[*ast.File]map[string]string{},
		fileOf: map[*ast.FuncDecl]*ast.File{}, writes: map[string]map[string]bool{}, busy: map[string]bool{}}
	for _, e := range ents {
		n := e.Name()
		if e.IsDir() || !strings.HasSuffix(n, ".go") || strings.HasSuffix(n, "_test.go") {
			continue
		}
		f, err := parser.ParseFile(p.fset, filepath.Join(dir, n), nil, parser.SkipObjectResolution)
		if err != nil {
			return nil, err
		}
		p.files = append(p.files, f)
		im := map[string]string{}
		for _, is := range f.Imports {
			path, _ := strconv.Unquote(is.Path.Value)
			alias := path[strings.LastIndex(path, "/")+1:]
			if is.Name != nil {
				alias = is.Name.Name
			} else if len(alias) >= 2 && alias[0] == 'v' && alias[1] >= '0' && alias[1] <= '9' && strings.Count(path, "/") >= 1 {
				// ".../chi/v5" is package chi; ".../api/v2" (inside this module) really is package v2
				if !strings.HasPrefix(path, a.module+"/") {
					rest := path[:strings.LastIndex(path, "/")]
					alias = rest[strings.LastIndex(rest, "/")+1:]
				}
			}
			im[alias] = path
		}
		p.imports[f] = im
		for _, d := range f.Decls {
			if fd, ok := d.(*ast.FuncDecl); ok && fd.Recv == nil {
				p.funcs[fd.Name.Name] = fd
				p.fileOf[fd] = f
			} else if ok {
				p.meths[fd.Name.Name] = append(p.meths[fd.Name.Name], fd)
			}
		}
	}
	a.pkgs[dir] = p
	return p, nil
}

func (p *pkg) pos(n ast.Node) string {
	ps := p.fset.Position(n.Pos())
	name := ps.Filename
	if rel, err := filepath.Rel(p.repo, name); err == nil {
		name = rel
	}
	return fmt.Sprintf("%s:%d", name, ps.Line)
}

func render(e ast.Expr) string {
	switch x := e.(type) {
	case *ast.Ident:
		return x.Name
	case *ast.SelectorExpr:
		return render(x.X) + "." + x.Sel.Name
	case *ast.CallExpr:
		var as []string
		for _, a := range x.Args {
			as = append(as, render(a))
		}
		return render(x.Fun) + "(" + strings.Join(as, ", ") + ")"
	case *ast.BasicLit:
		return x.Value
	case *ast.FuncLit:
		return "func-literal"
	case *ast.UnaryExpr:
		return x.Op.String() + render(x.X)
	case *ast.CompositeLit:
		return "composite-literal"
	case *ast.StarExpr:
		return "*" + render(x.X)
	case *ast.ParenExpr:
		return "(" + render(x.X) + ")"
	}
	return fmt.Sprintf("<%T>", e)
}

// ---- handler classification ---------------------------------------------------------------------------

// kindsIn collects the write kinds reachable from a syntax tree: every mention of a write method of
// backend.Ledger (x.CreateTransaction, also as a method value), every mention of a function of the same package
// (followed transitively), and ProcessBulk by name.
func (p *pkg) kindsIn(n ast.Node, out map[string]bool) {
	ast.Inspect(n, func(x ast.Node) bool {
		switch e := x.(type) {
		case *ast.SelectorExpr:
			if k, ok := WriterMethods[e.Sel.Name]; ok {
				out[k] = true
			}
			// x.name where the package declares methods called name: any of them may be meant (no type information)
			for _, md := range p.meths[e.Sel.Name] {
				for k := range p.kindsOfMethod(md) {
					out[k] = true
				}
			}
			if e.Sel.Name == "ProcessBulk" {
				if _, local := p.funcs["ProcessBulk"]; !local {
					for _, k := range allKinds {
						out[k] = true
					}
				}
			}
		case *ast.Ident:
			if fd, ok := p.funcs[e.Name]; ok {
				for k := range p.kindsOfFunc(fd) {
					out[k] = true
				}
			}
		}
		return true
	})
}

func (p *pkg) kindsOfFunc(fd *ast.FuncDecl) map[string]bool {
	name := fd.Name.Name
	if m, ok := p.writes[name]; ok {
		return m
	}
	if p.busy[name] || fd.Body == nil {
		return nil
	}
	p.busy[name] = true
	m := map[string]bool{}
	p.kindsIn(fd.Body, m)
	p.busy[name] = false
	p.writes[name] = m
	return m
}

func (p *pkg) kindsOfMethod(fd *ast.FuncDecl) map[string]bool {
	name := "method " + p.pos(fd)
	if m, ok := p.writes[name]; ok {
		return m
	}
	if p.busy[name] || fd.Body == nil {
		return nil
	}
	p.busy[name] = true
	m := map[string]bool{}
	p.kindsIn(fd.Body, m)
	p.busy[name] = false
	p.writes[name] = m
	return m
}

func sortedKinds(m map[string]bool) []string {
	var ks []string
	for k := range m {
		ks = append(ks, k)
	}
	sort.Strings(ks)
	return ks
}

// classify a handler expression of package p (file f).
func (a *analyzer) classify(p *pkg, f *ast.File, e ast.Expr) (string, []string, error) {
	m := map[string]bool{}
	switch x := e.(type) {
	case *ast.Ident:
		fd, ok := p.funcs[x.Name]
		if !ok {
			return "", nil, fmt.Errorf("%s: handler %s is not a function of the package", p.pos(e), x.Name)
		}
		for k := range p.kindsOfFunc(fd) {
			m[k] = true
		}
	case *ast.FuncLit:
		p.kindsIn(x.Body, m)
	case *ast.CallExpr:
		// http.HandlerFunc(h): a conversion
		if render(x.Fun) == "http.HandlerFunc" && len(x.Args) == 1 && p.imports[f]["http"] == "net/http" {
			_, ks, err := a.classify(p, f, x.Args[0])
			return render(e), ks, err
		}
		// f(args): a function of the package returning the handler; its whole body (closures included) counts,
		// and so do the argument expressions
		id, ok := x.Fun.(*ast.Ident)
		if !ok {
			return "", nil, fmt.Errorf("%s: handler expression %s not understood", p.pos(e), render(e))
		}
		fd, ok := p.funcs[id.Name]
		if !ok {
			return "", nil, fmt.Errorf("%s: handler constructor %s is not a function of the package", p.pos(e), id.Name)
		}
		for k := range p.kindsOfFunc(fd) {
			m[k] = true
		}
		for _, arg := range x.Args {
			p.kindsIn(arg, m)
		}
	case *ast.SelectorExpr:
		// method value: of a parameter (healthController.Check: outside the package, has no backend.Ledger) or of a
		// value of a type of the package (its methods of that name are followed by kindsIn)
		if id, ok := x.X.(*ast.Ident); ok {
			if _, isImport := p.imports[f][id.Name]; isImport {
				return "", nil, fmt.Errorf("%s: handler %s comes from another package: not followed", p.pos(e), render(e))
			}
		}
		p.kindsIn(x, m)
	default:
		return "", nil, fmt.Errorf("%s: handler expression %s not understood", p.pos(e), render(e))
	}
	return render(e), sortedKinds(m), nil
}

// ---- middlewares --------------------------------------------------------------------------------------

// external middlewares known not to rewrite the request method or path
var externalOK = map[string]string{
	"github.com/go-chi/cors":                        "cors",
	"github.com/go-chi/chi/v5/middleware":           "middleware.",
	"github.com/riandyrn/otelchi":                   "otelchi.Middleware",
	"github.com/formancehq/stack/libs/go-libs/auth": "auth.Middleware",
}

// the members of chi's middleware package that change the method or the path chi routes on (or wrap arbitrary code)
var chiRewriting = map[string]bool{"GetHead": true, "StripSlashes": true, "RedirectSlashes": true, "CleanPath": true, "URLFormat": true,
	"PathRewrite": true, "RouteHeaders": true, "Maybe": true, "New": true}

// rewrites reports a mention that could change how the request is routed after the gate, or a write.
func rewrites(p *pkg, n ast.Node) string {
	bad := ""
	ast.Inspect(n, func(x ast.Node) bool {
		switch e := x.(type) {
		case *ast.AssignStmt:
			for _, l := range e.Lhs {
				if s, ok := l.(*ast.SelectorExpr); ok {
					switch s.Sel.Name {
					case "Method", "URL", "Path", "RawPath", "RoutePath", "RouteMethod", "RequestURI":
						bad = "assigns ." + s.Sel.Name
					}
				}
			}
		case *ast.SelectorExpr:
			if e.Sel.Name == "RoutePath" || e.Sel.Name == "RouteMethod" {
				bad = "touches chi's " + e.Sel.Name
			}
			if _, w := WriterMethods[e.Sel.Name]; w {
				bad = "calls the write method " + e.Sel.Name
			}
		}
		return true
	})
	return bad
}

func (a *analyzer) middleware(p *pkg, f *ast.File, e ast.Expr) error {
	a.tab.Middlewares = append(a.tab.Middlewares, render(e))
	check := func(q *pkg, name string) error {
		fd, ok := q.funcs[name]
		if !ok || fd.Body == nil {
			return fmt.Errorf("%s: middleware %s: function %s not found in %s", p.pos(e), render(e), name, q.dir)
		}
		if why := rewrites(q, fd.Body); why != "" {
			return fmt.Errorf("%s: middleware %s %s: the model assumes middlewares leave method and path alone and do not write", p.pos(e), render(e), why)
		}
		return nil
	}
	// strip a call: M(args) -> M ; cors.New(...).Handler -> selector on a call
	base := e
	if c, ok := base.(*ast.CallExpr); ok {
		base = c.Fun
	}
	switch x := base.(type) {
	case *ast.FuncLit:
		if why := rewrites(p, x.Body); why != "" {
			return fmt.Errorf("%s: inline middleware %s", p.pos(e), why)
		}
		return nil
	case *ast.Ident:
		return check(p, x.Name)
	case *ast.SelectorExpr:
		// pkgalias.Name, or cors.New(...).Handler
		root := x.X
		if c, ok := root.(*ast.CallExpr); ok {
			if s, ok := c.Fun.(*ast.SelectorExpr); ok {
				root = s.X
			}
		}
		id, ok := root.(*ast.Ident)
		if !ok {
			return fmt.Errorf("%s: middleware %s not understood", p.pos(e), render(e))
		}
		path, ok := p.imports[f][id.Name]
		if !ok {
			return fmt.Errorf("%s: middleware %s: %s is not an imported package", p.pos(e), render(e), id.Name)
		}
		if strings.HasPrefix(path, a.module+"/") {
			q, err := a.load(filepath.Join(a.repo, strings.TrimPrefix(path, a.module+"/")))
			if err != nil {
				return err
			}
			return check(q, x.Sel.Name)
		}
		want, ok := externalOK[path]
		if ok && chiRewriting[x.Sel.Name] && path == "github.com/go-chi/chi/v5/middleware" {
			return fmt.Errorf("%s: middleware %s changes how chi routes the request: not modelled", p.pos(e), render(e))
		}
		if !ok || !strings.HasPrefix(render(e), want) {
			return fmt.Errorf("%s: middleware %s (package %s) is not on the list of known method-preserving middlewares", p.pos(e), render(e), path)
		}
		return nil
	}
	return fmt.Errorf("%s: middleware %s not understood", p.pos(e), render(e))
}

// ---- patterns -----------------------------------------------------------------------------------------

func parsePattern(s string, mount bool) ([]Seg, error) {
	if s == "" || s[0] != '/' {
		return nil, fmt.Errorf("pattern %q does not start with /", s)
	}
	if mount && s == "/" {
		return []Seg{}, nil
	}
	if mount && strings.HasSuffix(s, "/") {
		return nil, fmt.Errorf("mount pattern %q ends with /: not supported", s)
	}
	var segs []Seg
	for _, part := range strings.Split(s[1:], "/") {
		switch {
		case len(part) >= 2 && part[0] == '{' && part[len(part)-1] == '}' && !strings.ContainsAny(part[1:len(part)-1], "{}:*"):
			segs = append(segs, Seg{Param: true, Text: part[1 : len(part)-1]})
		case strings.ContainsAny(part, "{}*"):
			return nil, fmt.Errorf("pattern %q: segment %q (regexp, wildcard or partial parameter) not supported", s, part)
		default:
			segs = append(segs, Seg{Text: part})
		}
	}
	return segs, nil
}

func shape(n *Node) string {
	var b strings.Builder
	for _, s := range n.Segs {
		if s.Param {
			b.WriteString("/{}")
		} else {
			b.WriteString("/" + s.Text)
		}
	}
	return b.String()
}

// ---- walking a NewRouter body -------------------------------------------------------------------------

// level is one chi.Mux: the list its endpoints and mounts go to. Group/With closures share the level.
type level struct {
	nodes      *[]*Node
	prefix     string // full pattern of the mux
	root       bool   // the mux NewRouter returns in internal/api/router.go
	registered bool   // a route or mount exists already (chi panics on Use after that)
}

type scope struct {
	p       *pkg
	f       *ast.File
	routers map[string]*level // variable name -> mux
	subs    map[string]string // variable name -> directory of the package whose NewRouter built it
	boolArg string            // name of the bool parameter of the top NewRouter ("readOnly")
	top     bool
}

func methodOf(p *pkg, f *ast.File, e ast.Expr) (string, error) {
	switch x := e.(type) {
	case *ast.BasicLit:
		s, err := strconv.Unquote(x.Value)
		if err != nil {
			return "", err
		}
		return strings.ToUpper(s), nil
	case *ast.SelectorExpr:
		if id, ok := x.X.(*ast.Ident); ok && p.imports[f][id.Name] == "net/http" && strings.HasPrefix(x.Sel.Name, "Method") {
			return strings.ToUpper(strings.TrimPrefix(x.Sel.Name, "Method")), nil
		}
	}
	return "", fmt.Errorf("%s: method expression %s not understood", p.pos(e), render(e))
}

var verbs = map[string]string{"Get": "GET", "Post": "POST", "Put": "PUT", "Patch": "PATCH", "Delete": "DELETE", "Head": "HEAD",
	"Options": "OPTIONS", "Connect": "CONNECT", "Trace": "TRACE"}

func strLit(p *pkg, e ast.Expr) (string, error) {
	if b, ok := e.(*ast.BasicLit); ok && b.Kind == token.STRING {
		return strconv.Unquote(b.Value)
	}
	return "", fmt.Errorf("%s: pattern %s is not a string literal", p.pos(e), render(e))
}

func (a *analyzer) addEndpoint(sc *scope, lv *level, call *ast.CallExpr, methods []string, patE, hE ast.Expr) error {
	pat, err := strLit(sc.p, patE)
	if err != nil {
		return err
	}
	segs, err := parsePattern(pat, false)
	if err != nil {
		return fmt.Errorf("%s: %v", sc.p.pos(call), err)
	}
	name, kinds, err := a.classify(sc.p, sc.f, hE)
	if err != nil {
		return err
	}
	for _, m := range methods {
		ok := false
		for _, c := range ChiMethods {
			ok = ok || c == m
		}
		if !ok {
			return fmt.Errorf("%s: method %q is not one chi routes", sc.p.pos(call), m)
		}
	}
	n := &Node{Pattern: pat, Segs: segs, Methods: methods, Handler: name, Full: lv.prefix + pat, Writes: kinds, Pos: sc.p.pos(call)}
	// chi keeps one handler per (pattern shape, method): a second registration would silently replace the first
	for _, o := range *lv.nodes {
		if shape(o) != shape(n) {
			continue
		}
		if o.Mount {
			return fmt.Errorf("%s: endpoint %s has the shape of the mount at %s", n.Pos, pat, o.Pos)
		}
		for _, m1 := range o.Methods {
			for _, m2 := range methods {
				if m1 == m2 {
					return fmt.Errorf("%s: %s %s registered twice in one router (also at %s)", n.Pos, m1, pat, o.Pos)
				}
			}
		}
	}
	*lv.nodes = append(*lv.nodes, n)
	lv.registered = true
	return nil
}

func (a *analyzer) addMount(sc *scope, lv *level, call *ast.CallExpr, patE ast.Expr) (*Node, *level, error) {
	pat, err := strLit(sc.p, patE)
	if err != nil {
		return nil, nil, err
	}
	segs, err := parsePattern(pat, true)
	if err != nil {
		return nil, nil, fmt.Errorf("%s: %v", sc.p.pos(call), err)
	}
	n := &Node{Mount: true, Pattern: pat, Segs: segs, Pos: sc.p.pos(call)}
	for _, o := range *lv.nodes {
		if shape(o) == shape(n) {
			return nil, nil, fmt.Errorf("%s: mount %s has the shape of the registration at %s", n.Pos, pat, o.Pos)
		}
	}
	*lv.nodes = append(*lv.nodes, n)
	lv.registered = true
	sub := &level{nodes: &n.Sub, prefix: lv.prefix + strings.TrimSuffix(pat, "/")}
	return n, sub, nil
}

func closureOf(p *pkg, e ast.Expr) (*ast.FuncLit, string, error) {
	fl, ok := e.(*ast.FuncLit)
	if !ok || fl.Type.Params == nil || len(fl.Type.Params.List) != 1 || len(fl.Type.Params.List[0].Names) != 1 {
		return nil, "", fmt.Errorf("%s: expected func(r chi.Router) literal, got %s", p.pos(e), render(e))
	}
	return fl, fl.Type.Params.List[0].Names[0].Name, nil
}

// routerCall handles recv.M(args) where recv denotes the mux `lv`.
func (a *analyzer) routerCall(sc *scope, lv *level, call *ast.CallExpr, sel string, inIfReadOnly bool) error {
	p := sc.p
	args := call.Args
	if v, ok := verbs[sel]; ok {
		if len(args) != 2 {
			return fmt.Errorf("%s: %s with %d arguments", p.pos(call), sel, len(args))
		}
		return a.addEndpoint(sc, lv, call, []string{v}, args[0], args[1])
	}
	switch sel {
	case "Method", "MethodFunc":
		if len(args) != 3 {
			return fmt.Errorf("%s: %s with %d arguments", p.pos(call), sel, len(args))
		}
		m, err := methodOf(p, sc.f, args[0])
		if err != nil {
			return err
		}
		return a.addEndpoint(sc, lv, call, []string{m}, args[1], args[2])
	case "Handle", "HandleFunc":
		if len(args) != 2 {
			return fmt.Errorf("%s: %s with %d arguments", p.pos(call), sel, len(args))
		}
		return a.addEndpoint(sc, lv, call, append([]string{}, ChiMethods...), args[0], args[1])
	case "Use":
		for _, m := range args {
			if id, ok := m.(*ast.Ident); ok && id.Name == "ReadOnly" {
				if !sc.top || !lv.root {
					return fmt.Errorf("%s: ReadOnly installed somewhere else than on the root mux: not understood", p.pos(call))
				}
				if lv.registered {
					a.tab.GateNote = p.pos(call) + ": ReadOnly is installed after routes were registered on the mux"
					continue
				}
				a.tab.GateInstalled = true
				if !inIfReadOnly {
					a.tab.GateNote = "installed unconditionally"
				}
				continue
			}
			if err := a.middleware(p, sc.f, m); err != nil {
				return err
			}
		}
		return nil
	case "Route":
		if len(args) != 2 {
			return fmt.Errorf("%s: Route with %d arguments", p.pos(call), len(args))
		}
		fl, name, err := closureOf(p, args[1])
		if err != nil {
			return err
		}
		_, sub, err := a.addMount(sc, lv, call, args[0])
		if err != nil {
			return err
		}
		return a.block(sc.with(name, sub), fl.Body.List)
	case "Group":
		if len(args) != 1 {
			return fmt.Errorf("%s: Group with %d arguments", p.pos(call), len(args))
		}
		fl, name, err := closureOf(p, args[0])
		if err != nil {
			return err
		}
		// an inline mux: same tree, its own middleware stack. Use(ReadOnly) in there would only cover the group.
		inl := &level{nodes: lv.nodes, prefix: lv.prefix, root: false, registered: false}
		err = a.block(sc.with(name, inl), fl.Body.List)
		lv.registered = true // Group() builds the parent's handler chain: chi panics on a later Use
		return err
	case "Mount":
		if len(args) != 2 {
			return fmt.Errorf("%s: Mount with %d arguments", p.pos(call), len(args))
		}
		dir := ""
		switch x := args[1].(type) {
		case *ast.Ident:
			dir = sc.subs[x.Name]
		case *ast.CallExpr:
			d, err := a.newRouterCallee(sc, x)
			if err != nil {
				return err
			}
			dir = d
		}
		if dir == "" {
			return fmt.Errorf("%s: Mount of %s: not a router built by a NewRouter of this module", p.pos(call), render(args[1]))
		}
		_, sub, err := a.addMount(sc, lv, call, args[0])
		if err != nil {
			return err
		}
		return a.newRouter(dir, sub, false)
	}
	return fmt.Errorf("%s: router method %s not understood", p.pos(call), sel)
}

func (sc *scope) with(name string, lv *level) *scope {
	r := map[string]*level{}
	for k, v := range sc.routers {
		r[k] = v
	}
	r[name] = lv
	return &scope{p: sc.p, f: sc.f, routers: r, subs: sc.subs, boolArg: sc.boolArg, top: sc.top}
}

// newRouterCallee: `alias.NewRouter(...)` with alias a package of this module -> its directory.
func (a *analyzer) newRouterCallee(sc *scope, c *ast.CallExpr) (string, error) {
	s, ok := c.Fun.(*ast.SelectorExpr)
	if !ok || s.Sel.Name != "NewRouter" {
		return "", nil
	}
	id, ok := s.X.(*ast.Ident)
	if !ok {
		return "", nil
	}
	path, ok := sc.p.imports[sc.f][id.Name]
	if !ok || !strings.HasPrefix(path, a.module+"/") {
		return "", nil
	}
	return filepath.Join(a.repo, strings.TrimPrefix(path, a.module+"/")), nil
}

// resolve the receiver of a call statement: ident (a mux variable) or X.With(mws...) chains.
func (a *analyzer) receiver(sc *scope, e ast.Expr) (*level, error) {
	switch x := e.(type) {
	case *ast.Ident:
		if lv, ok := sc.routers[x.Name]; ok {
			return lv, nil
		}
		return nil, fmt.Errorf("%s: %s is not a router variable", sc.p.pos(e), x.Name)
	case *ast.CallExpr:
		if s, ok := x.Fun.(*ast.SelectorExpr); ok && s.Sel.Name == "With" {
			lv, err := a.receiver(sc, s.X)
			if err != nil {
				return nil, err
			}
			for _, m := range x.Args {
				if id, ok := m.(*ast.Ident); ok && id.Name == "ReadOnly" {
					return nil, fmt.Errorf("%s: ReadOnly used with With(): not understood", sc.p.pos(e))
				}
				if err := a.middleware(sc.p, sc.f, m); err != nil {
					return nil, err
				}
			}
			// With() builds the parent's handler chain: no Use on the parent afterwards
			lv.registered = true
			return &level{nodes: lv.nodes, prefix: lv.prefix}, nil
		}
	}
	return nil, fmt.Errorf("%s: receiver %s not understood", sc.p.pos(e), render(e))
}

func (a *analyzer) block(sc *scope, stmts []ast.Stmt) error {
	p := sc.p
	for _, st := range stmts {
		switch s := st.(type) {
		case *ast.ExprStmt:
			call, ok := s.X.(*ast.CallExpr)
			if !ok {
				return fmt.Errorf("%s: statement not understood", p.pos(st))
			}
			sel, ok := call.Fun.(*ast.SelectorExpr)
			if !ok {
				return fmt.Errorf("%s: call %s not understood", p.pos(st), render(call.Fun))
			}
			lv, err := a.receiver(sc, sel.X)
			if err != nil {
				return err
			}
			if err := a.routerCall(sc, lv, call, sel.Sel.Name, false); err != nil {
				return err
			}
		case *ast.AssignStmt:
			if len(s.Lhs) != 1 || len(s.Rhs) != 1 {
				return fmt.Errorf("%s: assignment not understood", p.pos(st))
			}
			id, ok := s.Lhs[0].(*ast.Ident)
			c, ok2 := s.Rhs[0].(*ast.CallExpr)
			if !ok || !ok2 {
				return fmt.Errorf("%s: assignment not understood", p.pos(st))
			}
			if dir, _ := a.newRouterCallee(sc, c); dir != "" {
				sc.subs[id.Name] = dir
				continue
			}
			return fmt.Errorf("%s: assignment %s := %s not understood", p.pos(st), id.Name, render(c))
		case *ast.IfStmt:
			// only: if readOnly { mux.Use(ReadOnly) }
			cond, ok := s.Cond.(*ast.Ident)
			good := ok && sc.top && cond.Name == sc.boolArg && s.Init == nil && s.Else == nil && len(s.Body.List) == 1
			var call *ast.CallExpr
			var lv *level
			if good {
				es, ok := s.Body.List[0].(*ast.ExprStmt)
				if ok {
					call, _ = es.X.(*ast.CallExpr)
				}
				good = call != nil
			}
			if good {
				sel, ok := call.Fun.(*ast.SelectorExpr)
				good = ok && sel.Sel.Name == "Use" && len(call.Args) == 1
				if good {
					id, ok := call.Args[0].(*ast.Ident)
					good = ok && id.Name == "ReadOnly"
				}
				if good {
					var err error
					lv, err = a.receiver(sc, sel.X)
					if err != nil {
						return err
					}
				}
			}
			if !good {
				mentions := false
				ast.Inspect(s, func(x ast.Node) bool {
					if id, ok := x.(*ast.Ident); ok && id.Name == "ReadOnly" {
						mentions = true
					}
					return true
				})
				if mentions {
					// the gate is there in some other form (negated condition, else branch, ...): not installed as modelled
					a.tab.GateNote = p.pos(st) + ": ReadOnly is installed under a condition other than `if " + sc.boolArg + "`"
					continue
				}
				return fmt.Errorf("%s: if statement not understood", p.pos(st))
			}
			if err := a.routerCall(sc, lv, call, "Use", true); err != nil {
				return err
			}
		case *ast.ReturnStmt:
			if len(s.Results) != 1 {
				return fmt.Errorf("%s: return not understood", p.pos(st))
			}
			id, ok := s.Results[0].(*ast.Ident)
			if !ok || sc.routers[id.Name] == nil {
				return fmt.Errorf("%s: NewRouter returns %s, not the mux it built", p.pos(st), render(s.Results[0]))
			}
		default:
			return fmt.Errorf("%s: statement not understood (%T)", p.pos(st), st)
		}
	}
	return nil
}

// newRouter analyses the NewRouter function of the package in dir; its routes go to lv.
func (a *analyzer) newRouter(dir string, lv *level, top bool) error {
	p, err := a.load(dir)
	if err != nil {
		return err
	}
	fd, ok := p.funcs["NewRouter"]
	if !ok || fd.Body == nil {
		return fmt.Errorf("%s: no function NewRouter", dir)
	}
	sc := &scope{p: p, f: p.fileOf[fd], routers: map[string]*level{}, subs: map[string]string{}, top: top}
	if top {
		for _, f := range fd.Type.Params.List {
			if id, ok := f.Type.(*ast.Ident); ok && id.Name == "bool" && len(f.Names) == 1 {
				sc.boolArg = f.Names[0].Name
			}
		}
		if sc.boolArg == "" {
			return fmt.Errorf("%s: NewRouter has no bool (readOnly) parameter", p.pos(fd))
		}
	}
	body := fd.Body.List
	// first statement: <mux> := chi.NewRouter() | chi.NewMux()
	if len(body) == 0 {
		return fmt.Errorf("%s: empty NewRouter", p.pos(fd))
	}
	as, ok := body[0].(*ast.AssignStmt)
	if !ok || len(as.Lhs) != 1 || len(as.Rhs) != 1 {
		return fmt.Errorf("%s: NewRouter does not start by building a chi mux", p.pos(fd))
	}
	id, ok1 := as.Lhs[0].(*ast.Ident)
	c, ok2 := as.Rhs[0].(*ast.CallExpr)
	if !ok1 || !ok2 || (render(c) != "chi.NewRouter()" && render(c) != "chi.NewMux()") || p.imports[sc.f]["chi"] != "github.com/go-chi/chi/v5" {
		return fmt.Errorf("%s: NewRouter does not start by building a chi mux", p.pos(fd))
	}
	lv.root = top
	sc.routers[id.Name] = lv
	return a.block(sc, body[1:])
}

// ---- read_only.go -------------------------------------------------------------------------------------

// gate reads func ReadOnly(h) = HandlerFunc(func(w, r) { if <r.Method != A && r.Method != B ...> { ...; return }; h.ServeHTTP(w, r) })
func (a *analyzer) gate(dir string) error {
	p, err := a.load(dir)
	if err != nil {
		return err
	}
	fd, ok := p.funcs["ReadOnly"]
	if !ok || fd.Body == nil {
		return fmt.Errorf("%s: no function ReadOnly", dir)
	}
	f := p.fileOf[fd]
	bad := func(n ast.Node, why string) error {
		return fmt.Errorf("%s: ReadOnly: %s", p.pos(n), why)
	}
	if fd.Type.Params == nil || len(fd.Type.Params.List) != 1 || len(fd.Type.Params.List[0].Names) != 1 {
		return bad(fd, "signature not understood")
	}
	hName := fd.Type.Params.List[0].Names[0].Name
	if len(fd.Body.List) != 1 {
		return bad(fd, "body is not a single return")
	}
	ret, ok := fd.Body.List[0].(*ast.ReturnStmt)
	if !ok || len(ret.Results) != 1 {
		return bad(fd, "body is not a single return")
	}
	conv, ok := ret.Results[0].(*ast.CallExpr)
	if !ok || render(conv.Fun) != "http.HandlerFunc" || len(conv.Args) != 1 || p.imports[f]["http"] != "net/http" {
		return bad(ret, "does not return http.HandlerFunc(func ...)")
	}
	fl, ok := conv.Args[0].(*ast.FuncLit)
	if !ok || len(fl.Type.Params.List) != 2 || len(fl.Type.Params.List[0].Names) != 1 || len(fl.Type.Params.List[1].Names) != 1 {
		return bad(ret, "does not return http.HandlerFunc(func(w, r) ...)")
	}
	wName, rName := fl.Type.Params.List[0].Names[0].Name, fl.Type.Params.List[1].Names[0].Name
	if len(fl.Body.List) != 2 {
		return bad(fl, "handler body is not `if <method test> { reject; return }; h.ServeHTTP(w, r)`")
	}
	ifs, ok := fl.Body.List[0].(*ast.IfStmt)
	if !ok || ifs.Init != nil || ifs.Else != nil || len(ifs.Body.List) == 0 {
		return bad(fl, "first statement is not a plain if")
	}
	if _, ok := ifs.Body.List[len(ifs.Body.List)-1].(*ast.ReturnStmt); !ok {
		return bad(ifs, "the rejecting branch does not end with return")
	}
	passes := false
	ast.Inspect(ifs.Body, func(x ast.Node) bool {
		if s, ok := x.(*ast.SelectorExpr); ok && s.Sel.Name == "ServeHTTP" {
			passes = true
		}
		if id, ok := x.(*ast.Ident); ok && id.Name == hName {
			passes = true
		}
		return true
	})
	if passes {
		return bad(ifs, "the rejecting branch uses the wrapped handler")
	}
	es, ok := fl.Body.List[1].(*ast.ExprStmt)
	if !ok || render(es.X) != hName+".ServeHTTP("+wName+", "+rName+")" {
		return bad(fl.Body.List[1], "second statement is not "+hName+".ServeHTTP("+wName+", "+rName+")")
	}
	// condition: conjunction of r.Method != <method>
	var allowed []string
	var conj func(e ast.Expr) error
	conj = func(e ast.Expr) error {
		if pe, ok := e.(*ast.ParenExpr); ok {
			return conj(pe.X)
		}
		be, ok := e.(*ast.BinaryExpr)
		if !ok {
			return bad(e, "condition not understood")
		}
		switch be.Op {
		case token.LAND:
			if err := conj(be.X); err != nil {
				return err
			}
			return conj(be.Y)
		case token.NEQ:
			l, r := be.X, be.Y
			if render(l) != rName+".Method" {
				l, r = r, l
			}
			if render(l) != rName+".Method" {
				return bad(e, "comparison is not about "+rName+".Method")
			}
			m, err := methodOf(p, f, r)
			if err != nil {
				return err
			}
			if bl, ok := r.(*ast.BasicLit); ok {
				// a literal is compared as written (no upper-casing)
				m, _ = strconv.Unquote(bl.Value)
			}
			allowed = append(allowed, m)
			return nil
		}
		return bad(e, "condition is not a conjunction of "+rName+".Method != <method>")
	}
	if err := conj(ifs.Cond); err != nil {
		return err
	}
	a.tab.GateAllowed = allowed
	return nil
}

// wiring reads func Module(cfg Config) of module.go: the flag the server is configured with must be what NewRouter gets.
func (a *analyzer) wiring(dir string) error {
	p, err := a.load(dir)
	if err != nil {
		return err
	}
	fd, ok := p.funcs["Module"]
	if !ok || fd.Body == nil {
		return fmt.Errorf("%s: no function Module", dir)
	}
	if fd.Type.Params == nil || len(fd.Type.Params.List) != 1 || len(fd.Type.Params.List[0].Names) != 1 || render(fd.Type.Params.List[0].Type) != "Config" {
		return fmt.Errorf("%s: Module does not take one Config", p.pos(fd))
	}
	cfg := fd.Type.Params.List[0].Names[0].Name
	rooted := func(e ast.Expr) bool {
		for {
			switch x := e.(type) {
			case *ast.Ident:
				return x.Name == cfg
			case *ast.SelectorExpr:
				e = x.X
			case *ast.ParenExpr:
				e = x.X
			case *ast.StarExpr:
				e = x.X
			case *ast.IndexExpr:
				e = x.X
			default:
				return false
			}
		}
	}
	calls, why := 0, ""
	ast.Inspect(fd.Body, func(n ast.Node) bool {
		switch x := n.(type) {
		case *ast.AssignStmt:
			for _, l := range x.Lhs {
				if rooted(l) {
					why = p.pos(x) + ": Module assigns " + render(l) + " before the router is built"
				}
			}
		case *ast.IncDecStmt:
			if rooted(x.X) {
				why = p.pos(x) + ": Module changes " + render(x.X)
			}
		case *ast.UnaryExpr:
			if x.Op == token.AND && rooted(x.X) {
				why = p.pos(x) + ": Module takes the address of " + render(x.X)
			}
		case *ast.FuncLit:
			for _, f := range x.Type.Params.List {
				for _, nm := range f.Names {
					if nm.Name == cfg {
						why = p.pos(x) + ": a closure parameter shadows " + cfg
					}
				}
			}
		case *ast.CallExpr:
			if id, ok := x.Fun.(*ast.Ident); ok && id.Name == "NewRouter" {
				calls++
				if len(x.Args) == 0 || render(x.Args[len(x.Args)-1]) != cfg+".ReadOnly" {
					why = p.pos(x) + ": NewRouter is not given " + cfg + ".ReadOnly"
				}
			}
		}
		return true
	})
	if calls != 1 {
		return fmt.Errorf("%s: Module calls NewRouter %d times: not understood", p.pos(fd), calls)
	}
	a.tab.ModulePassesFlag, a.tab.ModuleNote = why == "", why
	return nil
}

// Analyze reads internal/api of the working tree at repo.
func Analyze(repo string) (*Table, error) {
	mod, err := os.ReadFile(filepath.Join(repo, "go.mod"))
	if err != nil {
		return nil, err
	}
	module := ""
	for _, l := range strings.Split(string(mod), "\n") {
		if strings.HasPrefix(l, "module ") {
			module = strings.TrimSpace(strings.TrimPrefix(l, "module "))
		}
	}
	if module == "" {
		return nil, fmt.Errorf("no module line in %s/go.mod", repo)
	}
	a := &analyzer{repo: repo, module: module, pkgs: map[string]*pkg{}, tab: &Table{}}
	api := filepath.Join(repo, "internal", "api")
	if err := a.gate(api); err != nil {
		return nil, err
	}
	lv := &level{nodes: &a.tab.Routes, prefix: ""}
	if err := a.newRouter(api, lv, true); err != nil {
		return nil, err
	}
	if err := a.wiring(api); err != nil {
		return nil, err
	}
	if !a.tab.GateInstalled && a.tab.GateNote == "" {
		a.tab.GateNote = "no Use(ReadOnly) on the root mux"
	}
	if len(a.tab.Endpoints()) == 0 {
		return nil, fmt.Errorf("no endpoint found under %s", api)
	}
	return a.tab, nil
}

// Endpoints lists the endpoints of the tree, depth first in source order.
func (t *Table) Endpoints() []*Node {
	var out []*Node
	var walk func(ns []*Node)
	walk = func(ns []*Node) {
		for _, n := range ns {
			if n.Mount {
				walk(n.Sub)
			} else {
				out = append(out, n)
			}
		}
	}
	walk(t.Routes)
	return out
}

func (t *Table) Mounts() int {
	c := 0
	var walk func(ns []*Node)
	walk = func(ns []*Node) {
		for _, n := range ns {
			if n.Mount {
				c++
				walk(n.Sub)
			}
		}
	}
	walk(t.Routes)
	return c
}
