package minipg

import "reflect"

// Node is any AST node. All node types and their fields are exported so callers can walk the tree (see Walk).
type Node interface{ node() }

// Stmt is a statement node; Expr an expression node.
type Stmt interface {
	Node
	stmt()
	// StmtPos returns the byte offset of the statement's first token in the parsed text.
	StmtPos() int
}
type Expr interface {
	Node
	expr()
}

type stmtBase struct {
	Pos int    // offset of first token
	Src string // source text of the statement
}

func (s *stmtBase) node()        {}
func (s *stmtBase) stmt()        {}
func (s *stmtBase) StmtPos() int { return s.Pos }

// SourceText returns the statement's own text.
func (s *stmtBase) SourceText() string { return s.Src }

// ---- DDL ----

type ColumnDef struct {
	Name       string
	Type       *Type
	NotNull    bool
	PrimaryKey bool
	Unique     bool
	Default    Expr   // nil when absent
	References string // referenced table (not enforced)
}

func (*ColumnDef) node() {}

type CreateTable struct {
	stmtBase
	Name       string
	Columns    []*ColumnDef
	PrimaryKey []string   // table-level primary key (…)
	Uniques    [][]string // table-level unique (…)
}

type IndexElem struct {
	Column string // plain column, or ""
	Expr   Expr   // expression index element (Column == "")
	Desc   bool
}

func (*IndexElem) node() {}

type CreateIndex struct {
	stmtBase
	Name    string
	Unique  bool
	Table   string
	Using   string
	Elems   []*IndexElem
	Include []string
}

type CreateTypeComposite struct {
	stmtBase
	Name   string
	Fields []*ColumnDef
}

type CreateTypeEnum struct {
	stmtBase
	Name   string
	Labels []string
}

type ParamDef struct {
	Name    string // "" for unnamed ($n only)
	Type    *Type
	Default Expr
}

func (*ParamDef) node() {}

type CreateFunction struct {
	stmtBase
	Name       string
	OrReplace  bool
	Params     []*ParamDef
	Returns    *Type
	SetOf      bool
	Language   string // sql | plpgsql
	Strict     bool
	Volatility string
	Options    []string // other options as written (security definer, parallel safe, ...)
	Body       string   // body text
	BodyPos    int      // offset of the body text in the file
	SQLBody    []Stmt   // language sql
	PLBody     *PLBlock // language plpgsql
}

type AggOption struct {
	Name  string
	Value string
}

type CreateAggregate struct {
	stmtBase
	Name     string
	ArgTypes []*Type
	Options  []AggOption
	SFunc    string
	SType    *Type
	InitCond *string
}

type CreateTrigger struct {
	stmtBase
	Name     string
	Timing   string   // after | before
	Events   []string // insert | update | delete
	Table    string
	ForEach  string // row | statement
	Function string
}

// ---- DML / queries ----

type SelectItem struct {
	Expr  Expr
	Alias string
}

func (*SelectItem) node() {}

type OrderItem struct {
	Expr  Expr
	Desc  bool
	Nulls string // "", first, last
}

func (*OrderItem) node() {}

type CTE struct {
	Name    string
	Columns []string
	Query   *SelectStmt

	recState int32 // cache: bit0 computed, bit1 right arm refers to Name, bit2 left arm refers to Name
}

func (*CTE) node() {}

// FromItem is TableRef | SubqueryRef | FuncRef | JoinExpr.
type FromItem interface {
	Node
	fromItem()
}

type TableRef struct {
	Schema     string
	Name       string
	Alias      string
	ColAliases []string
	Pos        int
}

type SubqueryRef struct {
	Lateral    bool
	Query      *SelectStmt
	Alias      string
	ColAliases []string
}

type FuncRef struct {
	Lateral    bool
	Call       *FuncCall
	Alias      string
	ColAliases []string
}

type JoinExpr struct {
	Kind  string // inner | left | cross | right | full
	Left  FromItem
	Right FromItem
	On    Expr // nil for cross
}

func (*TableRef) node()        {}
func (*TableRef) fromItem()    {}
func (*SubqueryRef) node()     {}
func (*SubqueryRef) fromItem() {}
func (*FuncRef) node()         {}
func (*FuncRef) fromItem()     {}
func (*JoinExpr) node()        {}
func (*JoinExpr) fromItem()    {}

// SelectStmt is either a simple SELECT core (SetOp == "") or a set operation over Left/Right; ORDER BY / LIMIT / OFFSET /
// WITH attach to the node they were written on.
type SelectStmt struct {
	stmtBase
	With       []*CTE
	Recursive  bool
	SetOp      string // "" | union
	SetAll     bool
	Left       *SelectStmt
	Right      *SelectStmt
	Distinct   bool
	DistinctOn []Expr
	Items      []*SelectItem
	Into       []*PLTarget // PL/pgSQL: select … into
	From       []FromItem
	Where      Expr
	GroupBy    []Expr
	Having     Expr
	OrderBy    []*OrderItem
	Limit      Expr
	Offset     Expr
	Values     [][]Expr // VALUES (...), (...) used as a query

	aggState int32 // cache: 0 unknown, 1 no aggregates in select list/having/order by, 2 has aggregates
}

type SetClause struct {
	Column string
	Value  Expr
}

func (*SetClause) node() {}

type OnConflict struct {
	Columns   []string
	DoNothing bool
	Set       []*SetClause
	Where     Expr
}

func (*OnConflict) node() {}

type InsertStmt struct {
	stmtBase
	Table      string
	Columns    []string
	Values     [][]Expr    // VALUES rows; nil when Query is used
	Query      *SelectStmt // insert … select
	OnConflict *OnConflict
	Returning  []*SelectItem
	Into       []*PLTarget // PL/pgSQL: returning … into
}

type UpdateStmt struct {
	stmtBase
	Table     string
	Alias     string
	Set       []*SetClause
	Where     Expr
	Returning []*SelectItem
	Into      []*PLTarget
}

type DeleteStmt struct {
	stmtBase
	Table     string
	Alias     string
	Where     Expr
	Returning []*SelectItem
	Into      []*PLTarget
}

// ---- PL/pgSQL ----

type PLVarDecl struct {
	Name    string
	Type    *Type
	Default Expr
	Pos     int
}

func (*PLVarDecl) node() {}

type PLBlock struct {
	Decls []*PLVarDecl
	Body  []PLStmt
}

func (*PLBlock) node() {}

type PLStmt interface {
	Node
	plStmt()
}

// PLTarget is an assignment / INTO target: variable or variable.field.
type PLTarget struct {
	Name  string
	Field string
	Pos   int
}

func (*PLTarget) node() {}

type PLAssign struct {
	Target *PLTarget
	Value  Expr
	Pos    int
}
type PLIfBranch struct {
	Cond Expr
	Body []PLStmt
}

func (*PLIfBranch) node() {}

type PLIf struct {
	Branches []*PLIfBranch // if / elsif …
	Else     []PLStmt
	Pos      int
}
type PLPerform struct {
	Query *SelectStmt // perform X  ==  select X
	Pos   int
}
type PLForQuery struct {
	Targets []*PLTarget
	Query   *SelectStmt
	Body    []PLStmt
	Pos     int
}
type PLReturn struct {
	Value Expr // may be nil
	Pos   int
}
type PLSQL struct { // select-into / insert / update / delete
	Stmt Stmt
	Pos  int
}
type PLNull struct{ Pos int }

func (*PLAssign) node()     {}
func (*PLAssign) plStmt()   {}
func (*PLIf) node()         {}
func (*PLIf) plStmt()       {}
func (*PLPerform) node()    {}
func (*PLPerform) plStmt()  {}
func (*PLForQuery) node()   {}
func (*PLForQuery) plStmt() {}
func (*PLReturn) node()     {}
func (*PLReturn) plStmt()   {}
func (*PLSQL) node()        {}
func (*PLSQL) plStmt()      {}
func (*PLNull) node()       {}
func (*PLNull) plStmt()     {}

// ---- Expressions ----

type ColumnRef struct {
	Parts []string // a | a.b | a.b.c
	Pos   int
}
type Star struct {
	Table string // "" for bare *
	Pos   int
}
type NumberLit struct {
	Text string
	Pos  int

	val Value // parsed once (nil when Text is not an integer)
}
type StringLit struct {
	Val string
	Pos int

	boxed Value // Val as a Value, boxed once
}
type NullLit struct{ Pos int }
type BoolLit struct {
	Val bool
	Pos int
}
type ParamRef struct {
	N   int
	Pos int
}
type BinaryExpr struct {
	Op   string // and or = <> < <= > >= + - * / % || -> ->> @> <@ @@ #> ...
	L, R Expr
	Pos  int // offset of the operator
}
type UnaryExpr struct {
	Op  string // not - +
	X   Expr
	Pos int
}
type IsExpr struct {
	X    Expr
	Not  bool
	What string // null | true | false | distinct
	Y    Expr   // for "is [not] distinct from"
	Pos  int
}
type CastExpr struct {
	X    Expr
	Type *Type
	Pos  int
}
type FieldSelect struct { // (expr).field
	X     Expr
	Field string
	Pos   int
}
type FuncArg struct {
	Name  string // named notation: name := expr
	Value Expr
}

func (*FuncArg) node() {}

type FuncCall struct {
	Name     string
	Args     []*FuncArg
	Distinct bool
	Star     bool // count(*)
	Over     bool // window call: f(...) over ()
	Pos      int
}
type CaseWhen struct {
	Cond   Expr
	Result Expr
}

func (*CaseWhen) node() {}

type CaseExpr struct {
	Operand Expr
	Whens   []*CaseWhen
	Else    Expr
	Pos     int
}
type RowExpr struct {
	Items []Expr
	Pos   int
}
type ArrayExpr struct {
	Items []Expr
	Pos   int
}
type SubqueryExpr struct {
	Query *SelectStmt
	Pos   int
}
type ExistsExpr struct {
	Query *SelectStmt
	Pos   int
}
type AnyExpr struct { // L op any|all (R)
	L     Expr
	Op    string
	All   bool
	R     Expr        // array expression
	Query *SelectStmt // or sub-select
	Pos   int
}
type InExpr struct {
	X     Expr
	Not   bool
	List  []Expr
	Query *SelectStmt
	Pos   int
}
type BetweenExpr struct {
	X, Lo, Hi Expr
	Not       bool
	Pos       int
}

func (*ColumnRef) node()    {}
func (*ColumnRef) expr()    {}
func (*Star) node()         {}
func (*Star) expr()         {}
func (*NumberLit) node()    {}
func (*NumberLit) expr()    {}
func (*StringLit) node()    {}
func (*StringLit) expr()    {}
func (*NullLit) node()      {}
func (*NullLit) expr()      {}
func (*BoolLit) node()      {}
func (*BoolLit) expr()      {}
func (*ParamRef) node()     {}
func (*ParamRef) expr()     {}
func (*BinaryExpr) node()   {}
func (*BinaryExpr) expr()   {}
func (*UnaryExpr) node()    {}
func (*UnaryExpr) expr()    {}
func (*IsExpr) node()       {}
func (*IsExpr) expr()       {}
func (*CastExpr) node()     {}
func (*CastExpr) expr()     {}
func (*FieldSelect) node()  {}
func (*FieldSelect) expr()  {}
func (*FuncCall) node()     {}
func (*FuncCall) expr()     {}
func (*CaseExpr) node()     {}
func (*CaseExpr) expr()     {}
func (*RowExpr) node()      {}
func (*RowExpr) expr()      {}
func (*ArrayExpr) node()    {}
func (*ArrayExpr) expr()    {}
func (*SubqueryExpr) node() {}
func (*SubqueryExpr) expr() {}
func (*ExistsExpr) node()   {}
func (*ExistsExpr) expr()   {}
func (*AnyExpr) node()      {}
func (*AnyExpr) expr()      {}
func (*InExpr) node()       {}
func (*InExpr) expr()       {}
func (*BetweenExpr) node()  {}
func (*BetweenExpr) expr()  {}

// Walk calls fn for n and, when fn returns true, for every node reachable from n's exported fields (depth first, in
// field order). Function bodies (CreateFunction.SQLBody / PLBody) are included.
func Walk(n Node, fn func(Node) bool) {
	if n == nil {
		return
	}
	rv := reflect.ValueOf(n)
	if rv.Kind() == reflect.Ptr && rv.IsNil() {
		return
	}
	if !fn(n) {
		return
	}
	walkValue(rv, fn)
}

var nodeType = reflect.TypeOf((*Node)(nil)).Elem()

func walkValue(rv reflect.Value, fn func(Node) bool) {
	for rv.Kind() == reflect.Ptr || rv.Kind() == reflect.Interface {
		if rv.IsNil() {
			return
		}
		rv = rv.Elem()
	}
	if rv.Kind() != reflect.Struct {
		return
	}
	for i := 0; i < rv.NumField(); i++ {
		f := rv.Field(i)
		if !rv.Type().Field(i).IsExported() {
			if rv.Type().Field(i).Anonymous {
				continue
			}
			continue
		}
		walkField(f, fn)
	}
}

func walkField(f reflect.Value, fn func(Node) bool) {
	switch f.Kind() {
	case reflect.Ptr, reflect.Interface:
		if f.IsNil() {
			return
		}
		if f.Type().Implements(nodeType) || (f.Kind() == reflect.Interface && f.Elem().Type().Implements(nodeType)) {
			if n, ok := f.Interface().(Node); ok {
				Walk(n, fn)
			}
		}
	case reflect.Slice:
		for i := 0; i < f.Len(); i++ {
			walkField(f.Index(i), fn)
		}
	}
}
