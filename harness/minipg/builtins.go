package minipg

import (
	"math/big"
	"sort"
	"strings"
)

type builtinFunc struct {
	strict   bool
	min, max int // max < 0: variadic
	ret      *Type
	fn       func(ev *env, args []Value) (Value, error)
}

type builtinSRF struct {
	cols  []string // output column names ("" = use alias, else function name)
	types []*Type
	min   int
	max   int
	fn    func(ev *env, args []Value) ([][]Value, error)
}

var builtinFuncs map[string]*builtinFunc
var builtinSRFs map[string]*builtinSRF
var builtinAggs = map[string]bool{"sum": true, "min": true, "max": true, "count": true, "array_agg": true, "bool_or": true, "bool_and": true, "every": true, "jsonb_agg": true}
var specialForms = map[string]bool{"coalesce": true, "nullif": true, "greatest": true, "least": true, "row_number": true}

func isBuiltinName(n string) bool {
	if _, ok := builtinFuncs[n]; ok {
		return true
	}
	if _, ok := builtinSRFs[n]; ok {
		return true
	}
	return builtinAggs[n] || specialForms[n]
}

func (ev *env) toJSON(v Value) (JSON, error) {
	switch x := v.(type) {
	case nil:
		return JSON{Kind: JSONNull}, nil
	case *big.Int:
		return jsonNumberFromInt(x), nil
	case string:
		return jsonString(x), nil
	case bool:
		return JSON{Kind: JSONBool, Bool: x}, nil
	case Timestamp:
		return jsonString(x.format('T')), nil
	case JSON:
		return x, nil
	case Bytea:
		return jsonString(x.String()), nil
	case Array:
		out := make([]JSON, len(x))
		for i, el := range x {
			j, err := ev.toJSON(el)
			if err != nil {
				return JSON{}, err
			}
			out[i] = j
		}
		return JSON{Kind: JSONArray, Elems: out}, nil
	case Composite:
		var names []string
		if td, ok := ev.eng().types[x.Type]; ok && x.Type != "" {
			names = td.fields
		}
		keys := make([]string, len(x.Fields))
		vals := make([]JSON, len(x.Fields))
		for i, f := range x.Fields {
			if i < len(names) {
				keys[i] = names[i]
			} else {
				keys[i] = "f" + big.NewInt(int64(i+1)).String()
			}
			j, err := ev.toJSON(f)
			if err != nil {
				return JSON{}, err
			}
			vals[i] = j
		}
		return newJSONObject(keys, vals), nil
	}
	return JSON{}, unsupported("to_jsonb of %s", kindName(v))
}

func argJSON(v Value, fn string) (JSON, error) {
	switch x := v.(type) {
	case JSON:
		return x, nil
	case string:
		return ParseJSON(x)
	}
	return JSON{}, errf("undefined_function", "function %s(%s) does not exist", fn, kindName(v))
}

func argText(v Value, fn string) (string, error) {
	if s, ok := v.(string); ok {
		return s, nil
	}
	return "", errf("undefined_function", "function %s(%s) does not exist", fn, kindName(v))
}

func argInt(v Value, fn string) (*big.Int, error) {
	switch x := v.(type) {
	case *big.Int:
		return x, nil
	case string:
		return parseInteger(x, "integer")
	}
	return nil, errf("undefined_function", "function %s(%s) does not exist", fn, kindName(v))
}

func init() {
	builtinFuncs = map[string]*builtinFunc{
		"jsonb_build_object": {min: 0, max: -1, ret: typJSONB, fn: func(ev *env, a []Value) (Value, error) {
			if len(a)%2 != 0 {
				return nil, errf("invalid_parameter_value", "argument list must have even number of elements")
			}
			var keys []string
			var vals []JSON
			for i := 0; i < len(a); i += 2 {
				if a[i] == nil {
					return nil, errf("invalid_parameter_value", "argument %d: key must not be null", i+1)
				}
				var k string
				switch x := a[i].(type) {
				case JSON:
					if x.Kind == JSONString {
						k = x.Str
					} else {
						k = x.String()
					}
				case Composite, Array:
					return nil, errf("invalid_parameter_value", "key value must be scalar, not array, composite, or json")
				default:
					k = outText(x)
				}
				j, err := ev.toJSON(a[i+1])
				if err != nil {
					return nil, err
				}
				keys = append(keys, k)
				vals = append(vals, j)
			}
			return newJSONObject(keys, vals), nil
		}},
		"jsonb_build_array": {min: 0, max: -1, ret: typJSONB, fn: func(ev *env, a []Value) (Value, error) {
			out := make([]JSON, len(a))
			for i, v := range a {
				j, err := ev.toJSON(v)
				if err != nil {
					return nil, err
				}
				out[i] = j
			}
			return JSON{Kind: JSONArray, Elems: out}, nil
		}},
		"jsonb_pretty": {strict: true, min: 1, max: 1, ret: typText, fn: func(ev *env, a []Value) (Value, error) {
			j, err := argJSON(a[0], "jsonb_pretty")
			if err != nil {
				return nil, err
			}
			return j.Pretty(), nil
		}},
		"jsonb_array_length": {strict: true, min: 1, max: 1, ret: typNumeric, fn: func(ev *env, a []Value) (Value, error) {
			j, err := argJSON(a[0], "jsonb_array_length")
			if err != nil {
				return nil, err
			}
			switch j.Kind {
			case JSONArray:
				return big.NewInt(int64(len(j.Elems))), nil
			case JSONObject:
				return nil, errf("invalid_parameter_value", "cannot get array length of a non-array")
			}
			return nil, errf("invalid_parameter_value", "cannot get array length of a scalar")
		}},
		"jsonb_typeof": {strict: true, min: 1, max: 1, ret: typText, fn: func(ev *env, a []Value) (Value, error) {
			j, err := argJSON(a[0], "jsonb_typeof")
			if err != nil {
				return nil, err
			}
			return jsonTypeName(j), nil
		}},
		"jsonb_concat": {strict: true, min: 2, max: 2, ret: typJSONB, fn: func(ev *env, a []Value) (Value, error) {
			x, err := argJSON(a[0], "jsonb_concat")
			if err != nil {
				return nil, err
			}
			y, err := argJSON(a[1], "jsonb_concat")
			if err != nil {
				return nil, err
			}
			return jsonConcat(x, y), nil
		}},
		"string_to_array": {min: 2, max: 3, ret: typTextArray, fn: func(ev *env, a []Value) (Value, error) {
			if a[0] == nil {
				return nil, nil
			}
			s, err := argText(a[0], "string_to_array")
			if err != nil {
				return nil, err
			}
			var nullStr *string
			if len(a) == 3 && a[2] != nil {
				ns, err := argText(a[2], "string_to_array")
				if err != nil {
					return nil, err
				}
				nullStr = &ns
			}
			var parts []string
			switch {
			case s == "":
				parts = nil
			case a[1] == nil:
				for _, r := range s {
					parts = append(parts, string(r))
				}
			default:
				d, err := argText(a[1], "string_to_array")
				if err != nil {
					return nil, err
				}
				if d == "" {
					parts = []string{s}
				} else {
					parts = strings.Split(s, d)
				}
			}
			out := make(Array, len(parts))
			for i, p := range parts {
				if nullStr != nil && p == *nullStr {
					continue
				}
				out[i] = p
			}
			return out, nil
		}},
		"array_to_string": {min: 2, max: 3, ret: typText, fn: func(ev *env, a []Value) (Value, error) {
			if a[0] == nil || a[1] == nil {
				return nil, nil
			}
			arr, ok := a[0].(Array)
			d, ok2 := a[1].(string)
			if !ok || !ok2 {
				return nil, errf("undefined_function", "function array_to_string(%s, %s) does not exist", kindName(a[0]), kindName(a[1]))
			}
			var parts []string
			for _, el := range arr {
				if el == nil {
					if len(a) == 3 && a[2] != nil {
						parts = append(parts, outText(a[2]))
					}
					continue
				}
				parts = append(parts, outText(el))
			}
			return strings.Join(parts, d), nil
		}},
		"array_length": {strict: true, min: 2, max: 2, ret: typNumeric, fn: func(ev *env, a []Value) (Value, error) {
			arr, ok := a[0].(Array)
			if !ok {
				return nil, errf("undefined_function", "function array_length(%s, integer) does not exist", kindName(a[0]))
			}
			d, err := argInt(a[1], "array_length")
			if err != nil {
				return nil, err
			}
			if d.Cmp(big.NewInt(1)) != 0 || len(arr) == 0 {
				return nil, nil
			}
			return big.NewInt(int64(len(arr))), nil
		}},
		"cardinality": {strict: true, min: 1, max: 1, ret: typNumeric, fn: func(ev *env, a []Value) (Value, error) {
			arr, ok := a[0].(Array)
			if !ok {
				return nil, errf("undefined_function", "function cardinality(%s) does not exist", kindName(a[0]))
			}
			return big.NewInt(int64(len(arr))), nil
		}},
		"lower": {strict: true, min: 1, max: 1, ret: typText, fn: func(ev *env, a []Value) (Value, error) {
			s, err := argText(a[0], "lower")
			return strings.ToLower(s), err
		}},
		"upper": {strict: true, min: 1, max: 1, ret: typText, fn: func(ev *env, a []Value) (Value, error) {
			s, err := argText(a[0], "upper")
			return strings.ToUpper(s), err
		}},
		"length": {strict: true, min: 1, max: 1, ret: typNumeric, fn: func(ev *env, a []Value) (Value, error) {
			s, err := argText(a[0], "length")
			return big.NewInt(int64(len([]rune(s)))), err
		}},
		"abs": {strict: true, min: 1, max: 1, ret: typNumeric, fn: func(ev *env, a []Value) (Value, error) {
			n, err := argInt(a[0], "abs")
			if err != nil {
				return nil, err
			}
			return new(big.Int).Abs(n), nil
		}},
		"concat": {min: 0, max: -1, ret: typText, fn: func(ev *env, a []Value) (Value, error) {
			var sb strings.Builder
			for _, v := range a {
				if v != nil {
					sb.WriteString(outText(v))
				}
			}
			return sb.String(), nil
		}},
	}
	toj := &builtinFunc{strict: true, min: 1, max: 1, ret: typJSONB, fn: func(ev *env, a []Value) (Value, error) {
		j, err := ev.toJSON(a[0])
		if err != nil {
			return nil, err
		}
		return j, nil
	}}
	builtinFuncs["to_json"] = toj
	builtinFuncs["to_jsonb"] = toj

	jsonArg := func(v Value, fn string) (JSON, error) {
		j, err := argJSON(v, fn)
		return j, err
	}
	builtinSRFs = map[string]*builtinSRF{
		"unnest": {cols: []string{""}, types: []*Type{nil}, min: 1, max: 1, fn: func(ev *env, a []Value) ([][]Value, error) {
			if a[0] == nil {
				return nil, nil
			}
			arr, ok := a[0].(Array)
			if !ok {
				return nil, errf("undefined_function", "function unnest(%s) does not exist", kindName(a[0]))
			}
			out := make([][]Value, len(arr))
			for i, el := range arr {
				out[i] = []Value{el}
			}
			return out, nil
		}},
		"jsonb_array_elements": {cols: []string{"value"}, types: []*Type{typJSONB}, min: 1, max: 1, fn: func(ev *env, a []Value) ([][]Value, error) {
			if a[0] == nil {
				return nil, nil
			}
			j, err := jsonArg(a[0], "jsonb_array_elements")
			if err != nil {
				return nil, err
			}
			if j.Kind != JSONArray {
				if j.Kind == JSONObject {
					return nil, errf("invalid_parameter_value", "cannot extract elements from an object")
				}
				return nil, errf("invalid_parameter_value", "cannot extract elements from a scalar")
			}
			out := make([][]Value, len(j.Elems))
			for i, el := range j.Elems {
				out[i] = []Value{el}
			}
			return out, nil
		}},
		"jsonb_array_elements_text": {cols: []string{"value"}, types: []*Type{typText}, min: 1, max: 1, fn: func(ev *env, a []Value) ([][]Value, error) {
			if a[0] == nil {
				return nil, nil
			}
			j, err := jsonArg(a[0], "jsonb_array_elements_text")
			if err != nil {
				return nil, err
			}
			if j.Kind != JSONArray {
				if j.Kind == JSONObject {
					return nil, errf("invalid_parameter_value", "cannot extract elements from an object")
				}
				return nil, errf("invalid_parameter_value", "cannot extract elements from a scalar")
			}
			out := make([][]Value, len(j.Elems))
			for i, el := range j.Elems {
				out[i] = []Value{jsonElemText(el)}
			}
			return out, nil
		}},
		"jsonb_each": {cols: []string{"key", "value"}, types: []*Type{typText, typJSONB}, min: 1, max: 1, fn: func(ev *env, a []Value) ([][]Value, error) {
			return jsonEach(a[0], false)
		}},
		"jsonb_each_text": {cols: []string{"key", "value"}, types: []*Type{typText, typText}, min: 1, max: 1, fn: func(ev *env, a []Value) ([][]Value, error) {
			return jsonEach(a[0], true)
		}},
		"jsonb_object_keys": {cols: []string{"jsonb_object_keys"}, types: []*Type{typText}, min: 1, max: 1, fn: func(ev *env, a []Value) ([][]Value, error) {
			rows, err := jsonEach(a[0], true)
			if err != nil {
				return nil, err
			}
			for i := range rows {
				rows[i] = rows[i][:1]
			}
			return rows, nil
		}},
		"generate_series": {cols: []string{""}, types: []*Type{typNumeric}, min: 2, max: 3, fn: func(ev *env, a []Value) ([][]Value, error) {
			for _, v := range a {
				if v == nil {
					return nil, nil
				}
			}
			lo, err := argInt(a[0], "generate_series")
			if err != nil {
				return nil, err
			}
			hi, err := argInt(a[1], "generate_series")
			if err != nil {
				return nil, err
			}
			step := big.NewInt(1)
			if len(a) == 3 {
				if step, err = argInt(a[2], "generate_series"); err != nil {
					return nil, err
				}
			}
			if step.Sign() == 0 {
				return nil, errf("invalid_parameter_value", "step size cannot equal zero")
			}
			var out [][]Value
			for cur := new(big.Int).Set(lo); (step.Sign() > 0 && cur.Cmp(hi) <= 0) || (step.Sign() < 0 && cur.Cmp(hi) >= 0); cur = new(big.Int).Add(cur, step) {
				out = append(out, []Value{cur})
				if len(out) > 10000000 {
					return nil, unsupported("generate_series producing more than 10M rows")
				}
			}
			return out, nil
		}},
	}
}

func jsonElemText(el JSON) Value {
	switch el.Kind {
	case JSONNull:
		return nil
	case JSONString:
		return el.Str
	}
	return el.String()
}

func jsonEach(v Value, asText bool) ([][]Value, error) {
	name := "jsonb_each"
	if asText {
		name = "jsonb_each_text"
	}
	if v == nil {
		return nil, nil
	}
	j, err := argJSON(v, name)
	if err != nil {
		return nil, err
	}
	if j.Kind != JSONObject {
		if j.Kind == JSONArray {
			return nil, errf("invalid_parameter_value", "cannot call %s on an array", name)
		}
		return nil, errf("invalid_parameter_value", "cannot call %s on a non-object", name)
	}
	out := make([][]Value, len(j.Keys))
	for i, k := range j.Keys {
		if asText {
			out[i] = []Value{k, jsonElemText(j.Vals[i])}
		} else {
			out[i] = []Value{k, j.Vals[i]}
		}
	}
	return out, nil
}

// ---------------------------------------------------------------------------------------------------------------------
// Function calls

func (ev *env) isSRF(name string) bool {
	if f, ok := ev.eng().funcs[name]; ok {
		return f.setOf
	}
	_, ok := builtinSRFs[name]
	return ok
}

func (ev *env) evalArgsPositional(n *FuncCall) ([]Value, error) {
	out := make([]Value, len(n.Args))
	for i, a := range n.Args {
		if a.Name != "" {
			return nil, errf("undefined_function", "function %s does not accept named argument %q", n.Name, a.Name)
		}
		v, err := ev.eval(a.Value)
		if err != nil {
			return nil, err
		}
		out[i] = v
	}
	return out, nil
}

func (ev *env) evalFuncCall(n *FuncCall) (Value, error) {
	if n.Over {
		if n.Name != "row_number" || len(n.Args) != 0 {
			return nil, unsupported("window function %s", n.Name)
		}
		if ev.rownum == 0 {
			return nil, errf("windowing_error", "window functions are not allowed in this context")
		}
		return big.NewInt(ev.rownum), nil
	}
	eng := ev.eng()
	if eng.isAggregate(n.Name) {
		if ev.inAgg {
			return nil, errf("grouping_error", "aggregate function calls cannot be nested")
		}
		if ev.agg == nil {
			return nil, errf("grouping_error", "aggregate function %s is not allowed in this context", n.Name)
		}
		return ev.evalAggregate(n)
	}
	if n.Distinct || n.Star {
		return nil, errf("wrong_object_type", "DISTINCT / * specified, but %s is not an aggregate function", n.Name)
	}
	switch n.Name {
	case "coalesce":
		for _, a := range n.Args {
			v, err := ev.eval(a.Value)
			if err != nil {
				return nil, err
			}
			if v != nil {
				return v, nil
			}
		}
		return nil, nil
	case "nullif":
		if len(n.Args) != 2 {
			return nil, errf("syntax_error", "nullif requires two arguments")
		}
		a, err := ev.eval(n.Args[0].Value)
		if err != nil {
			return nil, err
		}
		b, err := ev.eval(n.Args[1].Value)
		if err != nil {
			return nil, err
		}
		eq, err := ev.compareOp("=", a, b, n.Args[0].Value, n.Args[1].Value)
		if err != nil {
			return nil, err
		}
		if eq == true {
			return nil, nil
		}
		return a, nil
	case "greatest", "least":
		var best Value
		for _, a := range n.Args {
			v, err := ev.eval(a.Value)
			if err != nil {
				return nil, err
			}
			if v == nil {
				continue
			}
			if best == nil {
				best = v
				continue
			}
			c, err := compareValues(v, best)
			if err != nil {
				return nil, err
			}
			if (n.Name == "greatest" && c > 0) || (n.Name == "least" && c < 0) {
				best = v
			}
		}
		return best, nil
	case "row_number":
		return nil, errf("windowing_error", "window function row_number requires an OVER clause")
	}
	if f, ok := eng.funcs[n.Name]; ok {
		args, null, err := ev.bindArgs(f, n)
		if err != nil {
			return nil, err
		}
		if f.setOf {
			return nil, unsupported("set-returning function %s called where a single value is expected (only FROM and top-level select-list use is implemented)", n.Name)
		}
		if null {
			return nil, nil
		}
		v, _, err := ev.callFunction(f, args, nil)
		return v, err
	}
	if bf, ok := builtinFuncs[n.Name]; ok {
		args, err := ev.evalArgsPositional(n)
		if err != nil {
			return nil, err
		}
		return ev.callBuiltin(n.Name, bf, args)
	}
	if _, ok := builtinSRFs[n.Name]; ok {
		return nil, unsupported("set-returning function %s called where a single value is expected (only FROM and top-level select-list use is implemented)", n.Name)
	}
	return nil, errf("undefined_function", "function %s does not exist", n.Name)
}

func (ev *env) callBuiltin(name string, bf *builtinFunc, args []Value) (Value, error) {
	if len(args) < bf.min || (bf.max >= 0 && len(args) > bf.max) {
		return nil, errf("undefined_function", "function %s with %d arguments does not exist", name, len(args))
	}
	if bf.strict {
		for _, a := range args {
			if a == nil {
				return nil, nil
			}
		}
	}
	return bf.fn(ev, args)
}

// bindArgs evaluates call arguments (positional, then named), fills defaults, and casts to the declared parameter types.
// null reports that the function is STRICT and some argument is NULL.
func (ev *env) bindArgs(f *funcDef, n *FuncCall) (args []Value, null bool, err error) {
	args = make([]Value, len(f.params))
	set := make([]bool, len(f.params))
	lits := make([]bool, len(f.params))
	seenNamed := false
	for i, a := range n.Args {
		idx := i
		if a.Name != "" {
			seenNamed = true
			idx = -1
			for j, p := range f.params {
				if p.Name == a.Name {
					idx = j
				}
			}
			if idx < 0 {
				return nil, false, errf("undefined_function", "function %s has no parameter named %q", f.name, a.Name)
			}
		} else if seenNamed {
			return nil, false, errf("syntax_error", "positional argument cannot follow named argument")
		}
		if idx >= len(f.params) {
			return nil, false, errf("undefined_function", "function %s called with too many arguments (%d)", f.name, len(n.Args))
		}
		if set[idx] {
			return nil, false, errf("undefined_function", "argument %q of %s used more than once", f.params[idx].Name, f.name)
		}
		v, err := ev.eval(a.Value)
		if err != nil {
			return nil, false, err
		}
		args[idx] = v
		set[idx] = true
		lits[idx] = isUntypedLit(a.Value)
	}
	for i, p := range f.params {
		if !set[i] {
			if p.Default == nil {
				return nil, false, errf("undefined_function", "function %s: missing argument %d (%s)", f.name, i+1, p.Name)
			}
			v, err := (&env{s: ev.s}).eval(p.Default)
			if err != nil {
				return nil, false, err
			}
			args[i] = v
			lits[i] = true
		}
		c, err := ev.eng().cast(args[i], p.Type, castImplicit, lits[i])
		if err != nil {
			return nil, false, wrapErr(err, "function "+f.name+", argument "+p.Name)
		}
		args[i] = c
		if c == nil && f.strict {
			null = true
		}
	}
	return args, null, nil
}

type triggerData struct {
	newRow Value
	oldRow Value
	table  string
	op     string
}

// callFunction runs a user-defined function. Scalar functions return (value, nil); set-returning ones (nil, relation).
func (ev *env) callFunction(f *funcDef, args []Value, trig *triggerData) (Value, *relation, error) {
	ev.s.depth++
	defer func() { ev.s.depth-- }()
	if ev.s.depth > 150 {
		return nil, nil, errf("statement_too_complex", "stack depth limit exceeded (function %s)", f.name)
	}
	fr := &frame{fn: f, lang: f.lang, vars: make([]*variable, 0, len(f.params)+8)}
	for i, p := range f.params {
		v := &variable{name: p.Name, typ: p.Type, val: args[i]}
		fr.pos = append(fr.pos, v)
		if p.Name != "" {
			fr.declare(v)
		}
	}
	root := &env{s: ev.s, frame: fr}
	var v Value
	var rel *relation
	var err error
	if f.lang == "plpgsql" {
		v, err = root.runPLFunction(f, trig)
	} else {
		v, rel, err = root.runSQLFunction(f)
	}
	if err != nil {
		if _, isMini := err.(*Error); isMini && !strings.Contains(err.Error(), "function "+f.name) {
			return nil, nil, wrapErr(err, "in function "+f.name)
		}
		return nil, nil, err
	}
	return v, rel, nil
}

func (ev *env) runSQLFunction(f *funcDef) (Value, *relation, error) {
	var last *relation
	for _, st := range f.sqlBody {
		rel, err := ev.execStatement(st)
		if err != nil {
			return nil, nil, err
		}
		last = rel
	}
	eng := ev.eng()
	rk, err := eng.kindOf(f.returns)
	if err != nil {
		return nil, nil, err
	}
	if rk == kVoid {
		if f.setOf {
			return nil, &relation{cols: []string{f.name}, types: []*Type{f.returns}, scalar: true}, nil
		}
		return nil, nil, nil
	}
	if last == nil {
		return nil, nil, errf("invalid_function_definition", "return type mismatch in function %s declared to return %s: final statement must be SELECT or INSERT/UPDATE/DELETE RETURNING", f.name, f.returns)
	}
	var out *relation
	if rk == kComposite && !f.returns.Array {
		td := eng.types[f.returns.Name]
		out = &relation{cols: td.fields, types: td.ftypes, rowType: td.name}
		whole := false
		if len(last.cols) == 1 && len(td.fields) != 1 {
			whole = true
		} else if len(last.cols) != len(td.fields) {
			return nil, nil, errf("invalid_function_definition", "return type mismatch in function %s declared to return %s: final statement returns %d columns, expected %d", f.name, f.returns, len(last.cols), len(td.fields))
		}
		for _, row := range last.rows {
			if whole {
				c, err := eng.cast(row[0], f.returns, castAssign, false)
				if err != nil {
					return nil, nil, err
				}
				if c == nil {
					out.rows = append(out.rows, make([]Value, len(td.fields)))
				} else {
					out.rows = append(out.rows, c.(Composite).Fields)
				}
				continue
			}
			nr := make([]Value, len(row))
			for i, v := range row {
				c, err := eng.cast(v, td.ftypes[i], castAssign, false)
				if err != nil {
					return nil, nil, wrapErr(err, "result column "+td.fields[i])
				}
				nr[i] = c
			}
			out.rows = append(out.rows, nr)
		}
		if !f.setOf {
			if len(out.rows) == 0 {
				return nil, nil, nil
			}
			return Composite{Type: td.name, Fields: out.rows[0]}, nil, nil
		}
		return nil, out, nil
	}
	if len(last.cols) != 1 {
		return nil, nil, errf("invalid_function_definition", "return type mismatch in function %s declared to return %s: final statement must return exactly one column", f.name, f.returns)
	}
	out = &relation{cols: []string{f.name}, types: []*Type{f.returns}, scalar: true}
	for _, row := range last.rows {
		c, err := eng.cast(row[0], f.returns, castAssign, true)
		if err != nil {
			return nil, nil, wrapErr(err, "result of function "+f.name)
		}
		out.rows = append(out.rows, []Value{c})
		if !f.setOf {
			break
		}
	}
	if !f.setOf {
		if len(out.rows) == 0 {
			return nil, nil, nil
		}
		return out.rows[0][0], nil, nil
	}
	return nil, out, nil
}

// callSRF evaluates a function call used as a row source (FROM item or select-list SRF) and describes its columns.
func (ev *env) callSRF(n *FuncCall, alias string, colAliases []string) (*relation, error) {
	eng := ev.eng()
	var rel *relation
	if f, ok := eng.funcs[n.Name]; ok {
		args, null, err := ev.bindArgs(f, n)
		if err != nil {
			return nil, err
		}
		rk, _ := eng.kindOf(f.returns)
		desc := func() *relation {
			if rk == kComposite && !f.returns.Array {
				td := eng.types[f.returns.Name]
				return &relation{cols: td.fields, types: td.ftypes, rowType: td.name}
			}
			return &relation{cols: []string{f.name}, types: []*Type{f.returns}, scalar: true}
		}
		if null {
			rel = desc()
			if !f.setOf {
				rel.rows = [][]Value{make([]Value, len(rel.cols))}
			}
		} else {
			v, r, err := ev.callFunction(f, args, nil)
			if err != nil {
				return nil, err
			}
			if f.setOf {
				rel = r
			} else {
				rel = desc()
				if c, ok := v.(Composite); ok && !rel.scalar {
					rel.rows = [][]Value{c.Fields}
				} else if !rel.scalar {
					rel.rows = [][]Value{make([]Value, len(rel.cols))}
				} else {
					rel.rows = [][]Value{{v}}
				}
			}
		}
		rel = &relation{cols: append([]string(nil), rel.cols...), types: rel.types, rows: rel.rows, rowType: rel.rowType, scalar: rel.scalar}
		if rel.scalar && alias != "" {
			rel.cols[0] = alias
		}
	} else if sf, ok := builtinSRFs[n.Name]; ok {
		args, err := ev.evalArgsPositional(n)
		if err != nil {
			return nil, err
		}
		if len(args) < sf.min || len(args) > sf.max {
			return nil, errf("undefined_function", "function %s with %d arguments does not exist", n.Name, len(args))
		}
		rows, err := sf.fn(ev, args)
		if err != nil {
			return nil, err
		}
		rel = &relation{cols: append([]string(nil), sf.cols...), types: sf.types, rows: rows, scalar: len(sf.cols) == 1}
		if rel.cols[0] == "" {
			rel.cols[0] = n.Name
			if alias != "" {
				rel.cols[0] = alias
			}
		}
	} else if bf, ok := builtinFuncs[n.Name]; ok {
		args, err := ev.evalArgsPositional(n)
		if err != nil {
			return nil, err
		}
		v, err := ev.callBuiltin(n.Name, bf, args)
		if err != nil {
			return nil, err
		}
		name := n.Name
		if alias != "" {
			name = alias
		}
		rel = &relation{cols: []string{name}, types: []*Type{bf.ret}, rows: [][]Value{{v}}, scalar: true}
	} else {
		return nil, unsupported("function %s in FROM", n.Name)
	}
	if len(colAliases) > 0 {
		if len(colAliases) > len(rel.cols) {
			return nil, errf("invalid_column_reference", "table %q has %d columns available but %d columns specified", alias, len(rel.cols), len(colAliases))
		}
		copy(rel.cols, colAliases)
	}
	return rel, nil
}

// ---------------------------------------------------------------------------------------------------------------------
// Aggregates

func (ev *env) evalAggregate(n *FuncCall) (Value, error) {
	sub := &env{s: ev.s, parent: ev.parent, rtes: ev.rtes, frame: ev.frame, ctes: ev.ctes, inAgg: true}
	rows := ev.agg.rows
	var inputs [][]Value
	for _, tup := range rows {
		sub.cur = tup
		if n.Star {
			inputs = append(inputs, nil)
			continue
		}
		vals := make([]Value, len(n.Args))
		for i, a := range n.Args {
			if a.Name != "" {
				return nil, unsupported("named arguments in aggregate call")
			}
			v, err := sub.eval(a.Value)
			if err != nil {
				return nil, err
			}
			vals[i] = v
		}
		inputs = append(inputs, vals)
	}
	if n.Distinct {
		if n.Star {
			return nil, errf("syntax_error", "DISTINCT * is not valid")
		}
		seen := map[string]bool{}
		var ded [][]Value
		for _, in := range inputs {
			k := valueKey(Array(in))
			if !seen[k] {
				seen[k] = true
				ded = append(ded, in)
			}
		}
		// PostgreSQL sorts the input of DISTINCT aggregates
		var serr error
		sort.SliceStable(ded, func(i, j int) bool {
			for k := range ded[i] {
				c, err := compareNullable(ded[i][k], ded[j][k])
				if err != nil && serr == nil {
					serr = err
				}
				if c != 0 {
					return c < 0
				}
			}
			return false
		})
		if serr != nil {
			return nil, serr
		}
		inputs = ded
	}
	eng := ev.eng()
	if ad, ok := eng.aggs[n.Name]; ok {
		if n.Star || len(n.Args) != ad.nargs {
			return nil, errf("undefined_function", "aggregate %s called with wrong number of arguments", n.Name)
		}
		var state Value
		if ad.initcond != nil {
			var err error
			if state, err = eng.cast(*ad.initcond, ad.stype, castExplicit, true); err != nil {
				return nil, wrapErr(err, "initcond of aggregate "+n.Name)
			}
		}
		strict := false
		var uf *funcDef
		var bf *builtinFunc
		if f, ok := eng.funcs[ad.sfunc]; ok {
			uf, strict = f, f.strict
		} else if b, ok := builtinFuncs[ad.sfunc]; ok {
			bf, strict = b, b.strict
		} else {
			return nil, errf("undefined_function", "function %s does not exist", ad.sfunc)
		}
		for _, in := range inputs {
			if strict {
				hasNull := false
				for _, v := range in {
					if v == nil {
						hasNull = true
					}
				}
				if hasNull {
					continue
				}
				if state == nil {
					if len(in) != 1 {
						return nil, errf("invalid_function_definition", "aggregate %s: strict transition function with NULL initial state needs exactly one input", n.Name)
					}
					var err error
					if state, err = eng.cast(in[0], ad.stype, castAssign, false); err != nil {
						return nil, err
					}
					continue
				}
			}
			args := append([]Value{state}, in...)
			var err error
			if uf != nil {
				if len(args) != len(uf.params) {
					return nil, errf("undefined_function", "transition function %s takes %d arguments, aggregate supplies %d", uf.name, len(uf.params), len(args))
				}
				for i := range args {
					if args[i], err = eng.cast(args[i], uf.params[i].Type, castImplicit, false); err != nil {
						return nil, err
					}
				}
				state, _, err = ev.callFunction(uf, args, nil)
			} else {
				state, err = ev.callBuiltin(ad.sfunc, bf, args)
			}
			if err != nil {
				return nil, err
			}
		}
		return state, nil
	}
	one := func() error {
		if n.Star || len(n.Args) != 1 {
			return errf("undefined_function", "aggregate %s expects exactly one argument", n.Name)
		}
		return nil
	}
	switch n.Name {
	case "count":
		if n.Star {
			return big.NewInt(int64(len(inputs))), nil
		}
		c := int64(0)
		for _, in := range inputs {
			nn := true
			for _, v := range in {
				if v == nil {
					nn = false
				}
			}
			if nn {
				c++
			}
		}
		return big.NewInt(c), nil
	case "sum":
		if err := one(); err != nil {
			return nil, err
		}
		var acc *big.Int
		for _, in := range inputs {
			if in[0] == nil {
				continue
			}
			x, ok := in[0].(*big.Int)
			if !ok {
				return nil, errf("undefined_function", "function sum(%s) does not exist", kindName(in[0]))
			}
			if acc == nil {
				acc = new(big.Int)
			}
			acc.Add(acc, x)
		}
		if acc == nil {
			return nil, nil
		}
		return acc, nil
	case "min", "max":
		if err := one(); err != nil {
			return nil, err
		}
		var best Value
		for _, in := range inputs {
			if in[0] == nil {
				continue
			}
			if best == nil {
				best = in[0]
				continue
			}
			c, err := compareValues(in[0], best)
			if err != nil {
				return nil, err
			}
			if (n.Name == "max" && c > 0) || (n.Name == "min" && c < 0) {
				best = in[0]
			}
		}
		return best, nil
	case "array_agg":
		if err := one(); err != nil {
			return nil, err
		}
		if len(inputs) == 0 {
			return nil, nil
		}
		out := make(Array, len(inputs))
		for i, in := range inputs {
			out[i] = in[0]
		}
		return out, nil
	case "jsonb_agg":
		if err := one(); err != nil {
			return nil, err
		}
		if len(inputs) == 0 {
			return nil, nil
		}
		out := make([]JSON, len(inputs))
		for i, in := range inputs {
			j, err := ev.toJSON(in[0])
			if err != nil {
				return nil, err
			}
			out[i] = j
		}
		return JSON{Kind: JSONArray, Elems: out}, nil
	case "bool_or", "bool_and", "every":
		if err := one(); err != nil {
			return nil, err
		}
		var acc Value
		for _, in := range inputs {
			if in[0] == nil {
				continue
			}
			b, ok := in[0].(bool)
			if !ok {
				return nil, errf("undefined_function", "function %s(%s) does not exist", n.Name, kindName(in[0]))
			}
			if acc == nil {
				acc = b
			} else if n.Name == "bool_or" {
				acc = acc.(bool) || b
			} else {
				acc = acc.(bool) && b
			}
		}
		return acc, nil
	}
	return nil, unsupported("aggregate %s", n.Name)
}
