package minipg

import (
	"encoding/hex"
	"math/big"
	"strconv"
	"strings"
)

type castMode int

const (
	castExplicit castMode = iota // x::type, cast(x as type), type input functions (COPY)
	castPL                       // PL/pgSQL assignment: I/O conversion allowed between any types
	castAssign                   // INSERT/UPDATE column assignment, function results
	castImplicit                 // function arguments
)

var (
	typNumeric   = &Type{Name: "numeric"}
	typBigint    = &Type{Name: "bigint"}
	typText      = &Type{Name: "text"}
	typBool      = &Type{Name: "bool"}
	typJSONB     = &Type{Name: "jsonb"}
	typTimestamp = &Type{Name: "timestamp"}
	typBytea     = &Type{Name: "bytea"}
	typTextArray = &Type{Name: "text", Array: true}
)

func typeOfValue(v Value) *Type {
	switch v.(type) {
	case *big.Int:
		return typNumeric
	case string:
		return typText
	case bool:
		return typBool
	case JSON:
		return typJSONB
	case Timestamp:
		return typTimestamp
	case Bytea:
		return typBytea
	}
	return nil
}

func castErr(v Value, t *Type) error {
	return errf("cannot_coerce", "cannot cast %s to %s", kindName(v), t.String())
}

// cast converts v to type t. isLit says that v comes from an untyped string literal (or NULL), which PostgreSQL resolves
// to whatever type the context requires.
func (e *Engine) cast(v Value, t *Type, mode castMode, isLit bool) (Value, error) {
	if t == nil {
		return v, nil
	}
	k, err := e.kindOf(t)
	if err != nil {
		return nil, err
	}
	if v == nil {
		return nil, nil
	}
	fromText := isLit || mode == castExplicit || mode == castPL
	switch k {
	case kAny:
		return v, nil
	case kVoid:
		return nil, nil
	case kNum:
		switch x := v.(type) {
		case *big.Int:
			return x, checkIntRange(x, t.Name)
		case string:
			if fromText {
				n, err := parseInteger(x, t.Name)
				if err != nil {
					return nil, err
				}
				return n, checkIntRange(n, t.Name)
			}
		case JSON:
			if mode == castExplicit || mode == castPL {
				if x.Kind != JSONNumber {
					if mode == castPL {
						n, err := parseInteger(x.String(), t.Name)
						return n, err
					}
					return nil, errf("invalid_parameter_value", "cannot cast jsonb %s to type %s", jsonTypeName(x), t.Name)
				}
				n, err := parseInteger(x.Str, t.Name)
				if err != nil {
					return nil, err
				}
				return n, checkIntRange(n, t.Name)
			}
		case bool:
			if mode == castExplicit && t.Name == "integer" {
				if x {
					return big.NewInt(1), nil
				}
				return big.NewInt(0), nil
			}
		}
		if mode == castPL {
			n, err := parseInteger(outText(v), t.Name)
			return n, err
		}
		return nil, castErr(v, t)
	case kText:
		var s string
		switch x := v.(type) {
		case string:
			s = x
		case bool:
			if mode == castImplicit {
				return nil, castErr(v, t)
			}
			s = "false"
			if x {
				s = "true"
			}
		default:
			if mode == castImplicit {
				return nil, castErr(v, t)
			}
			s = outText(v)
		}
		if t.Mod > 0 {
			if n := len([]rune(s)); n > t.Mod {
				if mode == castExplicit {
					s = string([]rune(s)[:t.Mod])
				} else if strings.TrimRight(string([]rune(s)[t.Mod:]), " ") == "" {
					s = string([]rune(s)[:t.Mod])
				} else {
					return nil, errf("string_data_right_truncation", "value too long for type character varying(%d)", t.Mod)
				}
			}
		}
		return s, nil
	case kBool:
		switch x := v.(type) {
		case bool:
			return x, nil
		case string:
			if fromText {
				switch strings.ToLower(strings.TrimSpace(x)) {
				case "t", "true", "y", "yes", "on", "1":
					return true, nil
				case "f", "false", "n", "no", "off", "0":
					return false, nil
				}
				return nil, errf("invalid_text_representation", "invalid input syntax for type boolean: %q", x)
			}
		case *big.Int:
			if mode == castExplicit {
				return x.Sign() != 0, nil
			}
		case JSON:
			if (mode == castExplicit || mode == castPL) && x.Kind == JSONBool {
				return x.Bool, nil
			}
		}
		return nil, castErr(v, t)
	case kJSON:
		switch x := v.(type) {
		case JSON:
			return x, nil
		case string:
			if fromText {
				return ParseJSON(x)
			}
		}
		if mode == castPL {
			return ParseJSON(outText(v))
		}
		return nil, castErr(v, t)
	case kTimestamp:
		switch x := v.(type) {
		case Timestamp:
			return x, nil
		case string:
			if fromText {
				return ParseTimestamp(x)
			}
		}
		return nil, castErr(v, t)
	case kBytea:
		switch x := v.(type) {
		case Bytea:
			return x, nil
		case string:
			if fromText {
				return parseBytea(x)
			}
		}
		return nil, castErr(v, t)
	case kEnum:
		if s, ok := v.(string); ok {
			for _, l := range e.types[t.Name].labels {
				if l == s {
					return s, nil
				}
			}
			return nil, errf("invalid_text_representation", "invalid input value for enum %s: %q", t.Name, s)
		}
		return nil, castErr(v, t)
	case kComposite:
		td := e.types[t.Name]
		switch x := v.(type) {
		case Composite:
			if x.Type == t.Name {
				return x, nil
			}
			if len(x.Fields) != len(td.fields) {
				return nil, errf("cannot_coerce", "cannot cast type %s to %s: input has %d columns, target has %d", compName(x), t.Name, len(x.Fields), len(td.fields))
			}
			out := make([]Value, len(x.Fields))
			for i, f := range x.Fields {
				m := mode
				if m == castImplicit {
					m = castAssign
				}
				c, err := e.cast(f, td.ftypes[i], m, false)
				if err != nil {
					return nil, wrapErr(err, "field "+td.fields[i]+" of "+t.Name)
				}
				out[i] = c
			}
			return Composite{Type: t.Name, Fields: out}, nil
		case string:
			if fromText {
				parts, err := parseCompositeLiteral(x)
				if err != nil {
					return nil, err
				}
				if len(parts) != len(td.fields) {
					return nil, errf("invalid_text_representation", "malformed record literal: %q", x)
				}
				out := make([]Value, len(parts))
				for i, p := range parts {
					if p == nil {
						continue
					}
					c, err := e.cast(*p, td.ftypes[i], castExplicit, true)
					if err != nil {
						return nil, err
					}
					out[i] = c
				}
				return Composite{Type: t.Name, Fields: out}, nil
			}
		}
		return nil, castErr(v, t)
	case kArray:
		elem := *t
		elem.Array = false
		switch x := v.(type) {
		case Array:
			out := make(Array, len(x))
			for i, el := range x {
				c, err := e.cast(el, &elem, mode, false)
				if err != nil {
					return nil, err
				}
				out[i] = c
			}
			return out, nil
		case string:
			if fromText {
				parts, err := parseArrayLiteral(x)
				if err != nil {
					return nil, err
				}
				out := make(Array, len(parts))
				for i, p := range parts {
					if p == nil {
						continue
					}
					c, err := e.cast(*p, &elem, castExplicit, true)
					if err != nil {
						return nil, err
					}
					out[i] = c
				}
				return out, nil
			}
		}
		return nil, castErr(v, t)
	case kJSONPath:
		switch x := v.(type) {
		case jsonPath:
			return x, nil
		case string:
			return parseJSONPath(x)
		}
		return nil, castErr(v, t)
	case kTrigger:
		return v, nil
	}
	return nil, castErr(v, t)
}

func compName(c Composite) string {
	if c.Type == "" {
		return "record"
	}
	return c.Type
}

func jsonTypeName(j JSON) string {
	switch j.Kind {
	case JSONNull:
		return "null"
	case JSONString:
		return "string"
	case JSONNumber:
		return "number"
	case JSONBool:
		return "boolean"
	case JSONArray:
		return "array"
	}
	return "object"
}

func parseBytea(s string) (Value, error) {
	if strings.HasPrefix(s, `\x`) {
		b, err := hex.DecodeString(strings.Map(func(r rune) rune {
			if r == ' ' || r == '\n' || r == '\t' {
				return -1
			}
			return r
		}, s[2:]))
		if err != nil {
			return nil, errf("invalid_text_representation", "invalid hexadecimal data for type bytea")
		}
		return Bytea(b), nil
	}
	// escape format
	var out []byte
	for i := 0; i < len(s); i++ {
		if s[i] != '\\' {
			out = append(out, s[i])
			continue
		}
		if i+1 < len(s) && s[i+1] == '\\' {
			out = append(out, '\\')
			i++
			continue
		}
		if i+3 < len(s) {
			n, err := strconv.ParseUint(s[i+1:i+4], 8, 8)
			if err == nil {
				out = append(out, byte(n))
				i += 3
				continue
			}
		}
		return nil, errf("invalid_text_representation", "invalid input syntax for type bytea")
	}
	return Bytea(out), nil
}

// parseCompositeLiteral parses '(a,"b c",,d)' into fields; nil = NULL.
func parseCompositeLiteral(s string) ([]*string, error) {
	bad := errf("invalid_text_representation", "malformed record literal: %q", s)
	t := strings.TrimSpace(s)
	if len(t) < 2 || t[0] != '(' || t[len(t)-1] != ')' {
		return nil, bad
	}
	t = t[1 : len(t)-1]
	var out []*string
	i := 0
	for {
		var sb strings.Builder
		quoted := false
		for i < len(t) && t[i] != ',' {
			switch {
			case t[i] == '"':
				quoted = true
				i++
				for {
					if i >= len(t) {
						return nil, bad
					}
					if t[i] == '\\' && i+1 < len(t) {
						sb.WriteByte(t[i+1])
						i += 2
						continue
					}
					if t[i] == '"' {
						if i+1 < len(t) && t[i+1] == '"' {
							sb.WriteByte('"')
							i += 2
							continue
						}
						i++
						break
					}
					sb.WriteByte(t[i])
					i++
				}
			case t[i] == '\\' && i+1 < len(t):
				sb.WriteByte(t[i+1])
				i += 2
			default:
				sb.WriteByte(t[i])
				i++
			}
		}
		if sb.Len() == 0 && !quoted {
			out = append(out, nil)
		} else {
			v := sb.String()
			out = append(out, &v)
		}
		if i >= len(t) {
			return out, nil
		}
		i++ // comma
	}
}

// parseArrayLiteral parses '{a,"b c",NULL}' (one dimension).
func parseArrayLiteral(s string) ([]*string, error) {
	bad := errf("invalid_text_representation", "malformed array literal: %q", s)
	t := strings.TrimSpace(s)
	if len(t) < 2 || t[0] != '{' || t[len(t)-1] != '}' {
		return nil, bad
	}
	t = t[1 : len(t)-1]
	if strings.TrimSpace(t) == "" {
		return []*string{}, nil
	}
	var out []*string
	i := 0
	for {
		for i < len(t) && (t[i] == ' ' || t[i] == '\n' || t[i] == '\t') {
			i++
		}
		var sb strings.Builder
		quoted := false
		if i < len(t) && t[i] == '{' {
			return nil, unsupported("multi-dimensional array literal")
		}
		if i < len(t) && t[i] == '"' {
			quoted = true
			i++
			for {
				if i >= len(t) {
					return nil, bad
				}
				if t[i] == '\\' && i+1 < len(t) {
					sb.WriteByte(t[i+1])
					i += 2
					continue
				}
				if t[i] == '"' {
					i++
					break
				}
				sb.WriteByte(t[i])
				i++
			}
			for i < len(t) && t[i] != ',' {
				if t[i] != ' ' {
					return nil, bad
				}
				i++
			}
		} else {
			for i < len(t) && t[i] != ',' {
				if t[i] == '\\' && i+1 < len(t) {
					i++
				}
				sb.WriteByte(t[i])
				i++
			}
		}
		v := sb.String()
		if !quoted {
			v = strings.TrimSpace(v)
			if v == "" {
				return nil, bad
			}
		}
		if !quoted && strings.EqualFold(v, "null") {
			out = append(out, nil)
		} else {
			out = append(out, &v)
		}
		if i >= len(t) {
			return out, nil
		}
		i++
	}
}

// parseJSONPath understands exactly the predicate the ledger store emits: $[N] == "string".
func parseJSONPath(s string) (Value, error) {
	t := strings.TrimSpace(s)
	fail := unsupported("jsonpath expression %q (only $[N] == \"string\" is implemented)", s)
	if !strings.HasPrefix(t, "$[") {
		return nil, fail
	}
	end := strings.IndexByte(t, ']')
	if end < 0 || !isDigits(t[2:end]) {
		return nil, fail
	}
	idx, _ := strconv.Atoi(t[2:end])
	rest := strings.TrimSpace(t[end+1:])
	if !strings.HasPrefix(rest, "==") {
		return nil, fail
	}
	rest = strings.TrimSpace(rest[2:])
	j, err := ParseJSON(rest)
	if err != nil || j.Kind != JSONString {
		return nil, fail
	}
	return jsonPath{index: idx, str: j.Str}, nil
}
