// Package minipg is a small in-memory stand-in for PostgreSQL, sufficient to PARSE and EXECUTE the complete text of the
// formance-ledger bucket schema (migrations/0-init-schema.sql) and to serve the statements emitted by the real
// ledgerstore.Store through a database/sql driver.
//
// The schema text is tokenised (lexer.go) and parsed by a recursive-descent parser (parser*.go) into an exported AST
// (ast.go) on every Load; function bodies (language sql and plpgsql) are parsed into the same AST and interpreted
// (eval.go, select.go, exec.go, plpgsql.go). There are no textual templates: a mutated operator, a dropped predicate or
// a swapped argument in the SQL text is executed as mutated. A statement, clause, type, operator or function that minipg
// does not implement makes Load fail with an error naming the statement; at run time unsupported constructs give a
// "minipg: unsupported: …" error, never a silently different answer.
//
// SEMANTICS: (the trusted assumptions about PostgreSQL that this package implements)
//
// Values and types
//   - numeric / bigint / integer / smallint / bigserial are arbitrary-precision INTEGERS (*big.Int); bigint/integer/smallint
//     are range-checked on cast. Any non-integer numeric (1.5, inexact division) raises "unsupported".
//   - varchar / text are Go strings; varchar(n) raises on assignment of a longer value, truncates on explicit cast. String
//     comparison, ORDER BY, min/max and GROUP ordering are BYTEWISE ("C" collation).
//   - timestamp [without time zone] is microseconds since 1970-01-01, no zone. Text input accepts
//     YYYY-MM-DD[(T| )HH:MM[:SS[.fraction]]][Z|±HH[:MM]]; fractions beyond 6 digits are rounded half-up to µs; a zone
//     suffix is accepted and IGNORED (wall-clock fields kept as written) - PostgreSQL's documented behaviour. Output is
//     "YYYY-MM-DD HH:MM:SS[.ffffff]" (to_jsonb uses "T"). timestamptz is not implemented.
//   - jsonb and json are the same canonical value: objects have unique keys (last wins on input) ordered shorter-first then
//     bytewise, numbers keep PostgreSQL's numeric text (1e2 -> 100, 1.50 -> 1.50) and compare numerically, JSON null is
//     distinct from SQL NULL, text output uses ", " and ": " separators.
//   - enum types are strings restricted to their labels (cast of another label raises); composite types and table row
//     types are Composite{Type, Fields}; row constructors (a, b) are anonymous records coercible to any composite type of
//     the same width; arrays are one-dimensional; bytea is []byte (hex output).
//   - An untyped string literal adopts the type required by its context (other operand of a comparison, parameter or
//     column type). A non-literal text value is NOT implicitly converted to timestamp/numeric/jsonb in function arguments
//     or column assignment (error), but IS converted in PL/pgSQL assignments (I/O conversion) and explicit casts.
//
// Expressions
//   - Three-valued logic: comparison, arithmetic and || with NULL give NULL; AND/OR/NOT are Kleene; WHERE / ON / HAVING /
//     IF / CASE WHEN take the branch only when the condition is TRUE. IS [NOT] NULL (row IS NULL = all fields NULL),
//     IS [NOT] DISTINCT FROM, coalesce, nullif, greatest, least, BETWEEN, IN, = ANY/ALL (array or sub-select).
//   - Operator precedence as PostgreSQL: OR < AND < NOT < IS < comparison < BETWEEN/IN < other operators (|| -> ->> @> @@)
//     < + - < * / % < unary minus < :: < field selection.
//   - jsonb: -> (key / index, missing => SQL NULL), ->> (JSON null => SQL NULL, string unquoted, other => jsonb text),
//     || (object||object merges at TOP LEVEL only, right wins; otherwise array concatenation with non-arrays wrapped),
//   - text / - int / - text[], @> and <@ (objects recursively, arrays as sets, top-level array contains scalar), ?,
//     @@ with a jsonpath of the single form $[N] == "string" (anything else: unsupported).
//   - Built-in functions: jsonb_build_object, jsonb_build_array, jsonb_pretty, jsonb_array_length, jsonb_typeof, jsonb_concat,
//     to_json, to_jsonb, string_to_array, array_to_string, array_length, cardinality, lower, upper, length, abs, concat;
//     set-returning: unnest, jsonb_array_elements[_text], jsonb_each[_text], jsonb_object_keys, generate_series. Strict
//     built-ins return NULL (no rows for set-returning ones) on NULL input; jsonb_each_text / jsonb_array_elements on a JSON
//     null or on the wrong container kind RAISE. Set-returning functions are allowed in FROM and as top-level select-list items.
//   - Built-in aggregates: sum (NULLs skipped, NULL on no input), min, max, count(*), count(x), array_agg (keeps NULLs, NULL
//     on no input), bool_or, bool_and, every, jsonb_agg; DISTINCT inside an aggregate sorts its input. User-defined
//     aggregates (sfunc, stype, initcond): state starts at initcond (else NULL); with a STRICT sfunc NULL inputs are skipped
//     and, if the state is NULL, the first non-NULL input becomes the state. row_number() over () is the only window function.
//
// Queries
//   - WITH [RECURSIVE] (a CTE is visible to later CTEs and the main query, not to itself unless RECURSIVE; recursive CTEs are
//     "non-recursive UNION [ALL] recursive", iterated to fixpoint; CTEs shadow tables and are evaluated at most once),
//     FROM with tables, aliases, column aliases, sub-selects, function calls (always lateral), comma/CROSS/INNER/LEFT JOIN,
//     [LEFT] JOIN LATERAL; WHERE; GROUP BY; HAVING; DISTINCT; DISTINCT ON; ORDER BY (output name, position or expression;
//     ASC => NULLS LAST, DESC => NULLS FIRST); LIMIT / OFFSET; UNION [ALL]; VALUES; scalar, EXISTS, IN and ANY sub-queries
//     (also correlated). RIGHT/FULL/NATURAL joins, USING, INTERSECT/EXCEPT, window clauses, FOR UPDATE: unsupported.
//   - Scan order of a base table is INSERTION order (an UPDATE keeps the row in place); ORDER BY is a STABLE sort over the
//     input order, so ties in "ORDER BY … LIMIT 1" and first(...) are resolved by insertion order. GROUP BY emits groups
//     sorted by the grouping key (as Sort + GroupAggregate); rows inside a group keep input order. DISTINCT ON keeps the
//     first row per key after ORDER BY, whose leading expressions must match the DISTINCT ON list (error otherwise);
//     without ORDER BY the rows are sorted by the DISTINCT ON expressions.
//   - In a grouped query every column of that query level used outside an aggregate must be a GROUP BY expression (error).
//   - Output columns are named like PostgreSQL: alias, else column name, else function name, "case", "?column?", ….
//     For a function in FROM returning a scalar the column is named after the alias (OUT-parameter name for
//     jsonb_array_elements: "value"); a bare reference to the alias yields the scalar / the whole row as a composite.
//   - Name resolution: a bare name is looked up as a column of the FROM entries of the current query level, then of the
//     enclosing levels, then as a whole-row reference, then as a variable/parameter. In language-sql functions columns
//     win over parameters; in PL/pgSQL a name that is both a variable and a column raises "ambiguous" (variable_conflict =
//     error). a.b is table.column, else variable.field, else functionname.parameter.
//   - WHERE conjuncts that only involve already-joined, non-nullable FROM entries are evaluated early (predicate pushdown);
//     this never changes results of side-effect-free predicates.
//
// Functions
//   - language sql: the body's statements run in order, the last one gives the result; parameters by name and $n; DEFAULT
//     values; named arguments (name := x / name => x); arguments are cast to the declared parameter types; STRICT => NULL
//     (no rows) on any NULL argument; RETURNS SETOF T yields rows (composite T: its fields; scalar: one column); a
//     scalar-returning function returns the first column of the first row or NULL; RETURNS void executes its statement.
//   - PL/pgSQL: DECLARE with initialisers; x := e / x = e incl. composite field assignment (a field of a NULL composite
//     reads NULL; assigning a field of a NULL composite instantiates it with the other fields NULL); SELECT … INTO (INTO
//     after the select list or at the end): no row => targets set to NULL and FOUND false, else first row and FOUND true;
//     a single composite target is filled positionally; IF/ELSIF/ELSE; PERFORM; FOR targets IN query LOOP (values cast to
//     the declared types via I/O conversion, e.g. text -> jsonb parses JSON); RETURN; RAISE; NULL; INSERT/UPDATE/DELETE
//     [RETURNING … INTO]; FOUND; triggers get NEW/OLD/TG_OP/TG_TABLE_NAME. Loops other than FOR-over-query, EXCEPTION
//     blocks, EXECUTE, cursors: unsupported (Load error).
//
// Data modification
//   - INSERT: unlisted columns get their DEFAULT (or NULL); a bigserial column draws nextval at every insert ATTEMPT, also
//     when ON CONFLICT takes the update path or the statement later fails (sequence values are burnt and never rolled
//     back, not even by ROLLBACK). All VALUES rows / the SELECT are evaluated before the first row is inserted.
//   - PRIMARY KEY, UNIQUE and CREATE UNIQUE INDEX are enforced (NULLs never conflict): violation => unique_violation error.
//     ON CONFLICT (cols) must match a unique index; DO UPDATE sees the existing row under the table name and the proposed
//     row as "excluded"; when its WHERE is not TRUE nothing happens for that row; DO NOTHING skips. NOT NULL is enforced
//     (a composite whose fields are all NULL is not NULL). Foreign keys and CHECK are not enforced (CHECK: Load error).
//   - UPDATE/DELETE compute all affected rows against the state at statement start, then apply them.
//   - Row-level AFTER INSERT/UPDATE/DELETE triggers fire once per affected row at the end of the statement that affected it
//     (also for statements inside functions), rows in order, triggers of one event in name order. No matching row / ON
//     CONFLICT WHERE false => no trigger. Triggers nest. BEFORE / statement-level / WHEN triggers: Load error.
//   - Every top-level statement is atomic: an error anywhere (nested triggers included) leaves the tables unchanged.
//     The driver's BEGIN/ROLLBACK restores a snapshot taken at BEGIN. There is no concurrency control (one session).
//
// Driver
//   - database/sql connector over one DB; complete SQL text only (no bind arguments); numeric -> string, timestamp ->
//     time.Time (UTC), jsonb -> []byte, varchar/enum -> string, bytea -> []byte, bool -> bool, composite/array -> text.
//   - COPY "schema"."table" (cols) FROM STDIN (lib/pq protocol): Exec(args…) buffers a row, Exec() inserts all buffered
//     rows as one statement (values go through the column types' text input functions; the schema qualifier is ignored),
//     then the AFTER ROW triggers fire in row order, as PostgreSQL's COPY does.
package minipg
