package minipg

import (
	"context"
	"database/sql/driver"
	"fmt"
	"io"
	"math/big"
	"strings"
	"time"
)

// Connector returns a database/sql connector whose connections all operate on d.
//
// Supported: QueryContext / ExecContext with complete SQL text (bun inlines its arguments), BEGIN/COMMIT/ROLLBACK through
// BeginTx (rollback restores a snapshot of the tables; sequences stay advanced, as in PostgreSQL), and Prepare of pq's
// `COPY "schema"."table" ("col", …) FROM STDIN` statement (rows buffered by Exec(args…), flushed by the final Exec()).
func Connector(d *DB) driver.Connector { return &connector{db: d} }

type connector struct{ db *DB }

func (c *connector) Connect(context.Context) (driver.Conn, error) { return &conn{db: c.db}, nil }
func (c *connector) Driver() driver.Driver                        { return drv{c} }

type drv struct{ c *connector }

func (d drv) Open(string) (driver.Conn, error) { return &conn{db: d.c.db}, nil }

type conn struct {
	db   *DB
	snap snapshot
	inTx bool
}

func (c *conn) Close() error                       { return nil }
func (c *conn) Ping(context.Context) error         { return nil }
func (c *conn) ResetSession(context.Context) error { return nil }
func (c *conn) Begin() (driver.Tx, error)          { return c.BeginTx(context.Background(), driver.TxOptions{}) }

func (c *conn) BeginTx(ctx context.Context, opts driver.TxOptions) (driver.Tx, error) {
	if c.inTx {
		return nil, errf("active_sql_transaction", "there is already a transaction in progress")
	}
	c.db.mu.Lock()
	c.snap = c.db.snapshot()
	c.db.mu.Unlock()
	c.inTx = true
	return &tx{c: c}, nil
}

type tx struct{ c *conn }

func (t *tx) Commit() error {
	t.c.inTx = false
	t.c.snap = nil
	return nil
}

func (t *tx) Rollback() error {
	if t.c.inTx {
		t.c.db.mu.Lock()
		t.c.db.restore(t.c.snap)
		t.c.db.mu.Unlock()
	}
	t.c.inTx = false
	t.c.snap = nil
	return nil
}

func firstWord(q string) string {
	q = strings.TrimSpace(q)
	for i := 0; i < len(q); i++ {
		ch := q[i]
		if !(ch >= 'a' && ch <= 'z' || ch >= 'A' && ch <= 'Z') {
			return strings.ToLower(q[:i])
		}
	}
	return strings.ToLower(q)
}

func (c *conn) control(q string) (handled bool, err error) {
	switch firstWord(q) {
	case "begin", "start":
		_, err := c.BeginTx(context.Background(), driver.TxOptions{})
		return true, err
	case "commit", "end":
		return true, (&tx{c: c}).Commit()
	case "rollback", "abort":
		return true, (&tx{c: c}).Rollback()
	case "set", "reset", "savepoint", "release", "lock", "vacuum", "analyze", "listen", "notify", "copy":
		return true, unsupported("statement %q through the driver", firstWord(q))
	}
	return false, nil
}

func (c *conn) QueryContext(ctx context.Context, q string, args []driver.NamedValue) (driver.Rows, error) {
	if len(args) > 0 {
		return nil, unsupported("driver-level query arguments (the SQL text must be complete)")
	}
	if handled, err := c.control(q); handled {
		return &rows{}, err
	}
	r, err := c.db.Query(q)
	if err != nil {
		return nil, err
	}
	return &rows{res: r}, nil
}

func (c *conn) ExecContext(ctx context.Context, q string, args []driver.NamedValue) (driver.Result, error) {
	if len(args) > 0 {
		return nil, unsupported("driver-level query arguments (the SQL text must be complete)")
	}
	if handled, err := c.control(q); handled {
		return driver.RowsAffected(0), err
	}
	r, err := c.db.Query(q)
	if err != nil {
		return nil, err
	}
	return driver.RowsAffected(len(r.Rows)), nil
}

func (c *conn) Prepare(q string) (driver.Stmt, error) {
	if firstWord(q) == "copy" {
		return c.prepareCopy(q)
	}
	if _, err := ParseStatements(q); err != nil {
		if fw := firstWord(q); fw != "begin" && fw != "commit" && fw != "rollback" {
			return nil, err
		}
	}
	return &textStmt{c: c, q: q}, nil
}

type textStmt struct {
	c *conn
	q string
}

func (s *textStmt) Close() error  { return nil }
func (s *textStmt) NumInput() int { return 0 }
func (s *textStmt) Exec(args []driver.Value) (driver.Result, error) {
	return s.c.ExecContext(context.Background(), s.q, nil)
}
func (s *textStmt) Query(args []driver.Value) (driver.Rows, error) {
	return s.c.QueryContext(context.Background(), s.q, nil)
}

// ---- COPY … FROM STDIN ----

type copyStmt struct {
	c      *conn
	table  *tableDef
	cols   []int
	rows   [][]driver.Value
	closed bool
}

func (c *conn) prepareCopy(q string) (driver.Stmt, error) {
	p, err := newParser(q, 0)
	if err != nil {
		return nil, err
	}
	p.next() // copy
	_, name, err := p.qualifiedName()
	if err != nil {
		return nil, err
	}
	td, ok := c.db.eng.tables[name]
	if !ok {
		return nil, errf("undefined_table", "relation %q does not exist", name)
	}
	st := &copyStmt{c: c, table: td}
	if p.isOp("(") {
		cols, err := p.parseColumnList()
		if err != nil {
			return nil, err
		}
		seen := map[int]bool{}
		for _, cn := range cols {
			i, ok := td.colIdx[cn]
			if !ok {
				return nil, errf("undefined_column", "column %q of relation %q does not exist", cn, name)
			}
			if seen[i] {
				return nil, errf("duplicate_column", "column %q specified more than once", cn)
			}
			seen[i] = true
			st.cols = append(st.cols, i)
		}
	} else {
		for i := range td.cols {
			st.cols = append(st.cols, i)
		}
	}
	if !p.acceptKw("from") || !p.acceptKw("stdin") || p.peek().Kind != TEOF {
		return nil, unsupported("COPY form %q (only COPY table (cols) FROM STDIN)", q)
	}
	return st, nil
}

func (s *copyStmt) Close() error  { s.closed = true; return nil }
func (s *copyStmt) NumInput() int { return -1 }
func (s *copyStmt) Query([]driver.Value) (driver.Rows, error) {
	return nil, errf("feature_not_supported", "COPY statement cannot be queried")
}

func (s *copyStmt) Exec(args []driver.Value) (driver.Result, error) {
	if s.closed {
		return nil, errf("invalid_sql_statement_name", "COPY statement is closed")
	}
	if len(args) > 0 {
		if len(args) != len(s.cols) {
			return nil, errf("bad_copy_file_format", "COPY row has %d values, expected %d", len(args), len(s.cols))
		}
		s.rows = append(s.rows, append([]driver.Value(nil), args...))
		return driver.RowsAffected(0), nil
	}
	// flush: the buffered rows are inserted as ONE statement (see copyRows); a failing row fails the whole COPY, which then
	// has no effect, and the surrounding transaction is rolled back by the caller.
	rows := s.rows
	s.rows = nil
	db := s.c.db
	db.mu.Lock()
	defer db.mu.Unlock()
	snap := db.snapshot()
	n, err := db.copyRows(s.table, s.cols, rows)
	if err != nil {
		db.restore(snap)
		return nil, err
	}
	return driver.RowsAffected(n), nil
}

// copyRows converts COPY input values through the column types' input functions and inserts them as ONE statement:
// all rows are inserted first, then the AFTER ROW triggers fire in row order (PostgreSQL's COPY behaviour).
func (d *DB) copyRows(def *tableDef, cols []int, rows [][]driver.Value) (n int, err error) {
	defer func() {
		if r := recover(); r != nil {
			err = fmt.Errorf("minipg: internal error: %v", r)
		}
	}()
	td := d.tables[def.name]
	ev := &env{s: &session{db: d}}
	var events []trigEvent
	td.own()
	for ri, in := range rows {
		row := make([]Value, len(def.cols))
		given := make([]bool, len(def.cols))
		for i, dv := range in {
			c := cols[i]
			v, err := d.eng.copyValue(dv, def.cols[c].typ)
			if err != nil {
				return 0, wrapErr(err, fmt.Sprintf("COPY %s, line %d, column %s", def.name, ri+1, def.cols[c].name))
			}
			row[c] = v
			given[c] = true
		}
		for c, cd := range def.cols {
			if given[c] {
				continue
			}
			switch {
			case cd.serial:
				row[c] = big.NewInt(td.seq)
				td.seq++
			case cd.def != nil:
				v, err := ev.eval(cd.def)
				if err != nil {
					return 0, err
				}
				if row[c], err = d.eng.cast(v, cd.typ, castAssign, isUntypedLit(cd.def)); err != nil {
					return 0, err
				}
			}
		}
		if err := checkNotNull(td, row); err != nil {
			return 0, err
		}
		for _, u := range def.uniques {
			k, err := findConflict(td, u, row, -1)
			if err != nil {
				return 0, err
			}
			if k >= 0 {
				return 0, uniqueViolation(td, u, row)
			}
		}
		td.rows = append(td.rows, row)
		events = append(events, trigEvent{op: "insert", newRow: row})
	}
	if err := ev.fireTriggers(td, events); err != nil {
		return 0, err
	}
	return len(rows), nil
}

// copyValue converts one driver-level COPY argument (after database/sql's default conversion) to a column value.
func (e *Engine) copyValue(dv driver.Value, t *Type) (Value, error) {
	k, err := e.kindOf(t)
	if err != nil {
		return nil, err
	}
	switch x := dv.(type) {
	case nil:
		return nil, nil
	case string:
		return e.cast(x, t, castExplicit, true)
	case []byte:
		if k == kBytea {
			return Bytea(append([]byte(nil), x...)), nil
		}
		// pq sends []byte as bytea hex text; for non-bytea columns PostgreSQL would parse "\x…" with the column's input
		// function and (almost always) fail. database/sql hands json.RawMessage / numeric text over as []byte too when a
		// Valuer returns []byte, so treat the bytes as the text of the value.
		return e.cast(string(x), t, castExplicit, true)
	case int64:
		return e.cast(big.NewInt(x), t, castAssign, false)
	case bool:
		return e.cast(x, t, castAssign, false)
	case time.Time:
		// pq formats time.Time with its zone offset; timestamp without time zone keeps the wall-clock fields as written
		y, mo, d := x.Date()
		h, mi, s := x.Clock()
		us := int64((x.Nanosecond() + 500) / 1000)
		ts := Timestamp(daysFromCivil(int64(y), int64(mo), int64(d))*usPerDay + ((int64(h)*60+int64(mi))*60+int64(s))*usPerSec + us)
		return e.cast(ts, t, castAssign, false)
	case float64:
		return nil, unsupported("float value in COPY")
	}
	return nil, unsupported("COPY argument of type %T", dv)
}

// ---- result rows ----

type rows struct {
	res *Result
	i   int
}

func (r *rows) Columns() []string {
	if r.res == nil {
		return nil
	}
	return r.res.Cols
}
func (r *rows) Close() error { return nil }

func (r *rows) Next(dest []driver.Value) error {
	if r.res == nil || r.i >= len(r.res.Rows) {
		return io.EOF
	}
	row := r.res.Rows[r.i]
	r.i++
	for i := range dest {
		if i < len(row) {
			dest[i] = DriverValue(row[i])
		} else {
			dest[i] = nil
		}
	}
	return nil
}

// DriverValue converts a Value to what the driver hands to database/sql: numeric -> string, timestamp -> time.Time (UTC),
// jsonb -> []byte of its text, varchar -> string, bytea -> []byte, bool -> bool, composite/array -> text form.
func DriverValue(v Value) driver.Value {
	switch x := v.(type) {
	case nil:
		return nil
	case *big.Int:
		return x.String()
	case string:
		return x
	case bool:
		return x
	case Timestamp:
		return x.Time()
	case JSON:
		return []byte(x.String())
	case Bytea:
		return append([]byte(nil), x...)
	}
	return outText(v)
}
