package minipg

import (
	"database/sql"
	"strings"
	"testing"
	"time"
)

func TestDriverPlain(t *testing.T) {
	d := miniDB(t)
	db := sql.OpenDB(Connector(d))
	defer db.Close()
	if _, err := db.Exec(`insert into t(k, v, j, ts) values ('a', 12345678901234567890123, '{"x": [1, 2]}', '2023-01-01T10:00:00.5+02:00')`); err != nil {
		t.Fatal(err)
	}
	var (
		id  int64
		k   string
		v   string
		j   []byte
		ts  time.Time
		c   sql.NullString
		p   sql.NullString
		isA bool
	)
	if err := db.QueryRow(`select id, k, v, j, ts, c, p, k = 'a' from t`).Scan(&id, &k, &v, &j, &ts, &c, &p, &isA); err != nil {
		t.Fatal(err)
	}
	if id != 1 || k != "a" || v != "12345678901234567890123" || string(j) != `{"x": [1, 2]}` || !ts.Equal(time.Date(2023, 1, 1, 10, 0, 0, 500000000, time.UTC)) || c.Valid || p.Valid || !isA {
		t.Fatalf("scan: %v %v %v %s %v %v %v %v", id, k, v, j, ts, c, p, isA)
	}
	tx, err := db.Begin()
	if err != nil {
		t.Fatal(err)
	}
	if _, err := tx.Exec(`insert into t(k) values ('b')`); err != nil {
		t.Fatal(err)
	}
	var n int
	if err := tx.QueryRow(`select count(*) from t`).Scan(&n); err != nil || n != 2 {
		t.Fatalf("in tx: %d %v", n, err)
	}
	if err := tx.Rollback(); err != nil {
		t.Fatal(err)
	}
	if err := db.QueryRow(`select count(*) from (select * from t) data`).Scan(&n); err != nil || n != 1 {
		t.Fatalf("after rollback: %d %v", n, err)
	}
	// the audit rows written by the trigger inside the rolled-back transaction are gone too, the sequence is not reset
	expect(t, d, `select count(*) from audit`, "1")
	if _, err := db.Exec(`insert into t(k) values ('c')`); err != nil {
		t.Fatal(err)
	}
	expect(t, d, `select id from t where k = 'c'`, "3")
	if _, err := db.Exec(`select $1`, 1); err == nil || !strings.Contains(err.Error(), "unsupported") {
		t.Fatalf("bind arguments: %v", err)
	}
	if _, err := db.Exec(`select k from t where k like 'a%'`); err == nil || !strings.Contains(err.Error(), "unsupported") {
		t.Fatalf("LIKE: %v", err)
	}
	// COPY through Prepare
	tx, _ = db.Begin()
	st, err := tx.Prepare(`COPY "anyschema"."t" ("k", "v", "j", "ts") FROM STDIN`)
	if err != nil {
		t.Fatal(err)
	}
	if _, err := st.Exec("x", int64(5), []byte(`{"a": 1}`), time.Date(2023, 5, 6, 7, 8, 9, 0, time.FixedZone("x", 7200))); err != nil {
		t.Fatal(err)
	}
	if _, err := st.Exec("y", nil, nil, "2023-05-06 00:00:00"); err != nil {
		t.Fatal(err)
	}
	if _, err := st.Exec(); err != nil {
		t.Fatal(err)
	}
	st.Close()
	if err := tx.Commit(); err != nil {
		t.Fatal(err)
	}
	expect(t, d, `select k, v, j, ts from t where id > 3 order by id`, "x|5|{\"a\": 1}|2023-05-06 07:08:09\ny|NULL|NULL|2023-05-06 00:00:00")
	expect(t, d, `select what, k from audit where seq > 3 order by seq`, "INSERT|x\nINSERT|y")
}
