package minipg

import (
	"fmt"
	"sort"
	"strings"
	"sync"
)

type typeDef struct {
	name    string
	enum    bool
	labels  []string
	fields  []string
	ftypes  []*Type
	isTable bool
}

func (td *typeDef) fieldIndex(f string) int {
	for i, n := range td.fields {
		if n == f {
			return i
		}
	}
	return -1
}

type colDef struct {
	name    string
	typ     *Type
	notNull bool
	def     Expr
	serial  bool
}

type uniqueDef struct {
	name string
	cols []int
}

type triggerDef struct {
	name   string
	events map[string]bool
	fn     string
}

type tableDef struct {
	name     string
	cols     []*colDef
	colIdx   map[string]int
	colNames []string
	colTypes []*Type
	uniques  []*uniqueDef
	triggers []*triggerDef // sorted by name
}

type funcDef struct {
	name    string
	params  []*ParamDef
	returns *Type
	setOf   bool
	lang    string
	strict  bool
	sqlBody []Stmt
	plBody  *PLBlock
	ast     *CreateFunction
}

type aggDef struct {
	name     string
	sfunc    string
	stype    *Type
	initcond *string
	nargs    int
}

// Engine is a parsed and registered schema: types, tables, indexes, functions, aggregates and triggers.
type Engine struct {
	stmts      []Stmt
	types      map[string]*typeDef
	tables     map[string]*tableDef
	tableOrder []string
	funcs      map[string]*funcDef
	funcOrder  []string
	aggs       map[string]*aggDef
	trigNames  []string
}

// Statements returns the parsed schema statements (exported AST).
func (e *Engine) Statements() []Stmt { return e.stmts }

// FunctionNames lists the user-defined functions by language, and the trigger names.
func (e *Engine) FunctionNames() (plpgsql, sqlfns, triggers []string) {
	for _, n := range e.funcOrder {
		f := e.funcs[n]
		if f.lang == "plpgsql" {
			plpgsql = append(plpgsql, n)
		} else {
			sqlfns = append(sqlfns, n)
		}
	}
	triggers = append(triggers, e.trigNames...)
	return
}

// TableNames lists the tables in creation order.
func (e *Engine) TableNames() []string { return append([]string(nil), e.tableOrder...) }

func (e *Engine) kindOf(t *Type) (typeKind, error) {
	if t == nil {
		return kAny, nil
	}
	if t.Array {
		return kArray, nil
	}
	switch t.Name {
	case "numeric", "bigint", "integer", "smallint", "bigserial", "serial":
		return kNum, nil
	case "varchar", "text":
		return kText, nil
	case "bool":
		return kBool, nil
	case "jsonb", "json":
		return kJSON, nil
	case "timestamp":
		return kTimestamp, nil
	case "bytea":
		return kBytea, nil
	case "void":
		return kVoid, nil
	case "trigger":
		return kTrigger, nil
	case "record", "anyelement", "anyarray", "anynonarray", "anycompatible", "any":
		return kAny, nil
	case "jsonpath":
		return kJSONPath, nil
	}
	if td, ok := e.types[t.Name]; ok {
		if td.enum {
			return kEnum, nil
		}
		return kComposite, nil
	}
	return kUnknown, unsupported("type %q", t.String())
}

func (e *Engine) checkType(t *Type, ctx string) error {
	if t == nil {
		return nil
	}
	elem := *t
	elem.Array = false
	if _, err := e.kindOf(&elem); err != nil {
		return wrapErr(err, ctx)
	}
	return nil
}

// Load parses the complete schema text and registers every object. Any statement or construct that is not understood
// makes Load fail with an error naming the statement; nothing is skipped.
func Load(schemaSQL string) (*Engine, error) {
	stmts, err := ParseStatements(schemaSQL)
	if err != nil {
		return nil, err
	}
	e := &Engine{stmts: stmts, types: map[string]*typeDef{}, tables: map[string]*tableDef{}, funcs: map[string]*funcDef{}, aggs: map[string]*aggDef{}}
	for _, st := range stmts {
		if err := e.register(st); err != nil {
			first := st.(interface{ SourceText() string }).SourceText()
			if i := strings.IndexByte(first, '\n'); i >= 0 {
				first = first[:i]
			}
			return nil, wrapErr(err, fmt.Sprintf("statement %q (line %d, offset %d)", strings.TrimSpace(first), lineOf(schemaSQL, st.StmtPos()), st.StmtPos()))
		}
	}
	if err := e.validate(); err != nil {
		return nil, err
	}
	return e, nil
}

func (e *Engine) nameTaken(n string) bool {
	_, a := e.tables[n]
	_, b := e.types[n]
	return a || b
}

func (e *Engine) register(st Stmt) error {
	switch s := st.(type) {
	case *CreateTypeEnum:
		if e.nameTaken(s.Name) {
			return errf("duplicate_object", "type %q already exists", s.Name)
		}
		e.types[s.Name] = &typeDef{name: s.Name, enum: true, labels: s.Labels}
	case *CreateTypeComposite:
		if e.nameTaken(s.Name) {
			return errf("duplicate_object", "type %q already exists", s.Name)
		}
		td := &typeDef{name: s.Name}
		for _, f := range s.Fields {
			if err := e.checkType(f.Type, "field "+f.Name); err != nil {
				return err
			}
			td.fields = append(td.fields, f.Name)
			td.ftypes = append(td.ftypes, f.Type)
		}
		e.types[s.Name] = td
	case *CreateTable:
		if e.nameTaken(s.Name) {
			return errf("duplicate_table", "relation %q already exists", s.Name)
		}
		tb := &tableDef{name: s.Name, colIdx: map[string]int{}}
		td := &typeDef{name: s.Name, isTable: true}
		addUnique := func(name string, cols []string, notNull bool) error {
			u := &uniqueDef{name: name}
			for _, c := range cols {
				i, ok := tb.colIdx[c]
				if !ok {
					return errf("undefined_column", "column %q named in key does not exist", c)
				}
				u.cols = append(u.cols, i)
				if notNull {
					tb.cols[i].notNull = true
				}
			}
			tb.uniques = append(tb.uniques, u)
			return nil
		}
		for _, c := range s.Columns {
			if _, dup := tb.colIdx[c.Name]; dup {
				return errf("duplicate_column", "column %q specified more than once", c.Name)
			}
			if err := e.checkType(c.Type, "column "+c.Name); err != nil {
				return err
			}
			cd := &colDef{name: c.Name, typ: c.Type, notNull: c.NotNull, def: c.Default}
			if c.Type.Name == "bigserial" || c.Type.Name == "serial" {
				cd.serial = true
				cd.notNull = true
				if c.Default != nil {
					return errf("syntax_error", "multiple default values for serial column %q", c.Name)
				}
			}
			tb.colIdx[c.Name] = len(tb.cols)
			tb.cols = append(tb.cols, cd)
			tb.colNames = append(tb.colNames, c.Name)
			tb.colTypes = append(tb.colTypes, c.Type)
			td.fields = append(td.fields, c.Name)
			td.ftypes = append(td.ftypes, c.Type)
		}
		npk := 0
		for _, c := range s.Columns {
			if c.PrimaryKey {
				npk++
				if err := addUnique(s.Name+"_pkey", []string{c.Name}, true); err != nil {
					return err
				}
			}
			if c.Unique {
				if err := addUnique(s.Name+"_"+c.Name+"_key", []string{c.Name}, false); err != nil {
					return err
				}
			}
		}
		if s.PrimaryKey != nil {
			npk++
			if err := addUnique(s.Name+"_pkey", s.PrimaryKey, true); err != nil {
				return err
			}
		}
		if npk > 1 {
			return errf("invalid_table_definition", "multiple primary keys for table %q are not allowed", s.Name)
		}
		for _, u := range s.Uniques {
			if err := addUnique(s.Name+"_"+strings.Join(u, "_")+"_key", u, false); err != nil {
				return err
			}
		}
		e.tables[s.Name] = tb
		e.tableOrder = append(e.tableOrder, s.Name)
		e.types[s.Name] = td
	case *CreateIndex:
		tb, ok := e.tables[s.Table]
		if !ok {
			return errf("undefined_table", "relation %q does not exist", s.Table)
		}
		for _, el := range s.Elems {
			if el.Column != "" {
				if _, ok := tb.colIdx[el.Column]; !ok {
					return errf("undefined_column", "column %q does not exist", el.Column)
				}
			}
		}
		for _, c := range s.Include {
			if _, ok := tb.colIdx[c]; !ok {
				return errf("undefined_column", "column %q does not exist", c)
			}
		}
		if s.Unique {
			u := &uniqueDef{name: s.Name}
			for _, el := range s.Elems {
				if el.Column == "" {
					return unsupported("unique index on an expression")
				}
				u.cols = append(u.cols, tb.colIdx[el.Column])
			}
			tb.uniques = append(tb.uniques, u)
		}
	case *CreateFunction:
		if _, exists := e.funcs[s.Name]; exists && !s.OrReplace {
			return errf("duplicate_function", "function %q already exists", s.Name)
		}
		if _, isAgg := e.aggs[s.Name]; isAgg {
			return errf("duplicate_function", "%q is an aggregate function", s.Name)
		}
		for _, p := range s.Params {
			if err := e.checkType(p.Type, "parameter "+p.Name); err != nil {
				return err
			}
		}
		if err := e.checkType(s.Returns, "return type"); err != nil {
			return err
		}
		sawDefault := false
		for _, p := range s.Params {
			if p.Default != nil {
				sawDefault = true
			} else if sawDefault {
				return errf("invalid_function_definition", "input parameters after one with a default value must also have defaults")
			}
		}
		if _, exists := e.funcs[s.Name]; !exists {
			e.funcOrder = append(e.funcOrder, s.Name)
		}
		e.funcs[s.Name] = &funcDef{name: s.Name, params: s.Params, returns: s.Returns, setOf: s.SetOf, lang: s.Language, strict: s.Strict, sqlBody: s.SQLBody, plBody: s.PLBody, ast: s}
	case *CreateAggregate:
		if _, ok := e.aggs[s.Name]; ok {
			return errf("duplicate_function", "aggregate %q already exists", s.Name)
		}
		if _, ok := e.funcs[s.Name]; ok {
			return errf("duplicate_function", "function %q already exists", s.Name)
		}
		if isBuiltinName(s.Name) {
			return unsupported("user aggregate %q shadows a built-in function", s.Name)
		}
		if err := e.checkType(s.SType, "stype"); err != nil {
			return err
		}
		if _, ok := e.funcs[s.SFunc]; !ok {
			if _, ok := builtinFuncs[s.SFunc]; !ok {
				return errf("undefined_function", "function %s does not exist", s.SFunc)
			}
		}
		e.aggs[s.Name] = &aggDef{name: s.Name, sfunc: s.SFunc, stype: s.SType, initcond: s.InitCond, nargs: len(s.ArgTypes)}
	case *CreateTrigger:
		tb, ok := e.tables[s.Table]
		if !ok {
			return errf("undefined_table", "relation %q does not exist", s.Table)
		}
		if s.Timing != "after" || s.ForEach != "row" {
			return unsupported("trigger %q: only AFTER … FOR EACH ROW triggers are implemented", s.Name)
		}
		f, ok := e.funcs[s.Function]
		if !ok {
			return errf("undefined_function", "function %s() does not exist", s.Function)
		}
		if f.returns.Name != "trigger" || f.lang != "plpgsql" {
			return errf("invalid_object_definition", "function %s must be a plpgsql function returning trigger", s.Function)
		}
		for _, t := range tb.triggers {
			if t.name == s.Name {
				return errf("duplicate_object", "trigger %q for relation %q already exists", s.Name, s.Table)
			}
		}
		td := &triggerDef{name: s.Name, events: map[string]bool{}, fn: s.Function}
		for _, ev := range s.Events {
			td.events[ev] = true
		}
		tb.triggers = append(tb.triggers, td)
		sort.SliceStable(tb.triggers, func(i, j int) bool { return tb.triggers[i].name < tb.triggers[j].name })
		e.trigNames = append(e.trigNames, s.Name)
	default:
		return unsupported("statement of type %T in a schema", st)
	}
	return nil
}

// validate checks, once everything is registered, that every type named in a cast/declaration and every function called
// anywhere in the schema is known to minipg (so that an unsupported construct is reported at Load, not at run time).
func (e *Engine) validate() error {
	for _, st := range e.stmts {
		var verr error
		ctx := ""
		if cf, ok := st.(*CreateFunction); ok {
			ctx = "function " + cf.Name
			if e.funcs[cf.Name].ast != cf {
				continue // replaced later
			}
		}
		Walk(st, func(n Node) bool {
			if verr != nil {
				return false
			}
			switch x := n.(type) {
			case *CastExpr:
				verr = e.checkType(x.Type, "cast")
			case *PLVarDecl:
				verr = e.checkType(x.Type, "variable "+x.Name)
			case *FuncCall:
				if !e.knownFunction(x.Name) {
					verr = errf("undefined_function", "function %s(...) does not exist or is not implemented by minipg (offset %d)", x.Name, x.Pos)
				}
				if x.Over && x.Name != "row_number" {
					verr = unsupported("window function %s (offset %d)", x.Name, x.Pos)
				}
			case *BinaryExpr:
				if !knownOperator(x.Op) {
					verr = unsupported("operator %s (offset %d)", x.Op, x.Pos)
				}
			case *TableRef:
				// resolved at run time (CTEs shadow tables)
			}
			return true
		})
		if verr != nil {
			if ctx != "" {
				verr = wrapErr(verr, ctx)
			}
			first := st.(interface{ SourceText() string }).SourceText()
			if i := strings.IndexByte(first, '\n'); i >= 0 {
				first = first[:i]
			}
			return wrapErr(verr, fmt.Sprintf("statement %q (offset %d)", strings.TrimSpace(first), st.StmtPos()))
		}
	}
	return nil
}

func (e *Engine) knownFunction(name string) bool {
	if _, ok := e.funcs[name]; ok {
		return true
	}
	if _, ok := e.aggs[name]; ok {
		return true
	}
	return isBuiltinName(name)
}

func (e *Engine) isAggregate(name string) bool {
	if _, ok := e.aggs[name]; ok {
		return true
	}
	_, ok := builtinAggs[name]
	return ok
}

// ---------------------------------------------------------------------------------------------------------------------
// DB

type tableData struct {
	def  *tableDef
	rows [][]Value // each row slice is immutable once stored
	cow  bool      // rows backing array is shared with a snapshot/clone: copy before modifying
	seq  int64     // next value of the bigserial sequence
}

func (t *tableData) own() {
	if t.cow {
		t.rows = append(make([][]Value, 0, len(t.rows)+8), t.rows...)
		t.cow = false
	}
}

// DB is one in-memory database over an Engine's schema.
type DB struct {
	eng    *Engine
	mu     sync.Mutex
	tables map[string]*tableData
}

// Result is a query result.
type Result struct {
	Cols  []string
	Types []*Type // declared type where statically known, else nil
	Rows  [][]Value
}

// NewDB returns a fresh empty database: all tables empty, sequences at 1.
func (e *Engine) NewDB() *DB {
	d := &DB{eng: e, tables: map[string]*tableData{}}
	for n, def := range e.tables {
		d.tables[n] = &tableData{def: def, seq: 1}
	}
	return d
}

// Engine returns the schema this database runs.
func (d *DB) Engine() *Engine { return d.eng }

// Clone returns an independent deep copy (rows are immutable and shared copy-on-write; sequences are copied).
func (d *DB) Clone() *DB {
	d.mu.Lock()
	defer d.mu.Unlock()
	return d.cloneLocked()
}

func (d *DB) cloneLocked() *DB {
	c := &DB{eng: d.eng, tables: map[string]*tableData{}}
	for n, t := range d.tables {
		t.cow = true
		c.tables[n] = &tableData{def: t.def, rows: t.rows, cow: true, seq: t.seq}
	}
	return c
}

type snapshot map[string][][]Value

func (d *DB) snapshot() snapshot {
	s := snapshot{}
	for n, t := range d.tables {
		t.cow = true
		s[n] = t.rows
	}
	return s
}

// restore puts table contents back; sequences are NOT restored (nextval is never rolled back in PostgreSQL).
func (d *DB) restore(s snapshot) {
	for n, t := range d.tables {
		t.rows = s[n]
		t.cow = true
	}
}

// TableRows returns a copy of the current rows of a table (scan order), for inspection by the harness.
func (d *DB) TableRows(name string) (cols []string, rows [][]Value, err error) {
	d.mu.Lock()
	defer d.mu.Unlock()
	t, ok := d.tables[name]
	if !ok {
		return nil, nil, errf("undefined_table", "relation %q does not exist", name)
	}
	return append([]string(nil), t.def.colNames...), append([][]Value(nil), t.rows...), nil
}

// Exec runs one or more ';'-separated statements. Each top-level statement is atomic: on error it has no effect.
func (d *DB) Exec(sql string) error {
	_, err := d.run(sql)
	return err
}

// Query runs a statement and returns its result rows (SELECT, or INSERT/UPDATE/DELETE … RETURNING).
func (d *DB) Query(sql string) (*Result, error) {
	return d.run(sql)
}

func (d *DB) run(sql string) (*Result, error) {
	stmts, err := ParseStatements(sql)
	if err != nil {
		return nil, err
	}
	d.mu.Lock()
	defer d.mu.Unlock()
	var last *Result
	for _, st := range stmts {
		r, err := d.runStmtLocked(st)
		if err != nil {
			return nil, err
		}
		last = r
	}
	if last == nil {
		last = &Result{}
	}
	return last, nil
}

func (d *DB) runStmtLocked(st Stmt) (res *Result, err error) {
	switch st.(type) {
	case *SelectStmt, *InsertStmt, *UpdateStmt, *DeleteStmt:
	default:
		return nil, unsupported("statement of type %T at run time (schema objects are fixed at Load)", st)
	}
	snap := d.snapshot()
	defer func() {
		if r := recover(); r != nil {
			err = fmt.Errorf("minipg: internal error: %v", r)
		}
		if err != nil {
			d.restore(snap)
			res = nil
		}
	}()
	s := &session{db: d}
	ev := &env{s: s}
	rel, err := ev.execStatement(st)
	if err != nil {
		return nil, err
	}
	if rel == nil {
		return &Result{}, nil
	}
	return &Result{Cols: rel.cols, Types: rel.types, Rows: rel.rows}, nil
}
