package minipg

import (
	"fmt"
	"strings"
	"testing"
)

func mustLoad(t testing.TB) *Engine {
	e, err := Load(readSchema(t))
	if err != nil {
		t.Fatal(err)
	}
	return e
}

// txLog builds the INSERT for a NEW_TRANSACTION log.
func txLog(ledger string, id int, txid int, ts string, postings string, extra string) string {
	data := fmt.Sprintf(`{"transaction": {"id": %d, "timestamp": "%s", "postings": %s, "metadata": {}%s}, "accountMetadata": {}}`, txid, ts, postings, extra)
	return fmt.Sprintf(`insert into logs(ledger, id, type, hash, date, data, idempotency_key) values ('%s', %d, 'NEW_TRANSACTION', '\x00', '2023-06-01 00:00:00', '%s', '')`, ledger, id, data)
}

func posting(src, dst, asset string, amount int) string {
	return fmt.Sprintf(`{"source": "%s", "destination": "%s", "asset": "%s", "amount": %d}`, src, dst, asset, amount)
}

func mustExec(t testing.TB, d *DB, sql string) {
	t.Helper()
	if err := d.Exec(sql); err != nil {
		t.Fatalf("exec %s: %v", sql, err)
	}
}

func queryText(t testing.TB, d *DB, sql string) string {
	t.Helper()
	r, err := d.Query(sql)
	if err != nil {
		t.Fatalf("query %s: %v", sql, err)
	}
	var sb strings.Builder
	for _, row := range r.Rows {
		for i, v := range row {
			if i > 0 {
				sb.WriteString("|")
			}
			sb.WriteString(Text(v))
		}
		sb.WriteString("\n")
	}
	return sb.String()
}

func expect(t testing.TB, d *DB, sql, want string) {
	t.Helper()
	got := queryText(t, d, sql)
	if strings.TrimSpace(got) != strings.TrimSpace(want) {
		t.Errorf("query %s\n got:\n%s\nwant:\n%s", sql, got, want)
	}
}

func TestOrdinaryTransactions(t *testing.T) {
	d := mustLoad(t).NewDB()
	mustExec(t, d, txLog("l1", 0, 0, "2023-01-01T10:00:00Z", "["+posting("world", "a", "USD", 100)+"]", ""))
	mustExec(t, d, txLog("l1", 1, 1, "2023-01-02T10:00:00Z", "["+posting("a", "b", "USD", 30)+"]", ""))
	expect(t, d, `select account_address, is_source, post_commit_volumes, post_commit_effective_volumes from moves order by seq`, `
world|t|(0,100)|(0,100)
a|f|(100,0)|(100,0)
a|t|(100,30)|(100,30)
b|f|(30,0)|(30,0)`)
	expect(t, d, `select get_account_balance('l1', 'a', 'USD')`, "70")
	expect(t, d, `select * from get_all_account_volumes('l1', 'a')`, "USD|(100,30)")
	expect(t, d, `select * from get_all_account_effective_volumes('l1', 'a')`, "USD|(100,30)")
	expect(t, d, `select * from get_all_assets('l1')`, "USD")
	expect(t, d, `select get_account_aggregated_volumes('l1', 'a')`, `{"USD": {"input": 100, "output": 30}}`)
	expect(t, d, `select get_aggregated_volumes_for_transaction('l1', 2)`, `{"a": {"USD": {"input": 100, "output": 30}}, "b": {"USD": {"input": 30, "output": 0}}}`)
	expect(t, d, `select * from aggregate_ledger_volumes('l1')`, "USD|(130,130)")
	expect(t, d, `select id, timestamp, reference from get_transaction('l1', 1)`, "1|2023-01-02 10:00:00|NULL")
	expect(t, d, `select explode_address('a:b:c')`, `{"0": "a", "1": "b", "2": "c", "3": null}`)
	expect(t, d, `select volumes_to_jsonb(('USD', (1, 2)))`, `{"USD": {"input": 1, "output": 2}}`)
	expect(t, d, `select address, address_array, metadata from accounts order by seq`, `
world|["world"]|{}
a|["a"]|{}
b|["b"]|{}`)
	expect(t, d, `select sources, destinations, sources_arrays from transactions where id = 1`, `["a"]|["b"]|[{"0": "a", "1": null}]`)
	// per transaction: revision 1 from the AFTER INSERT trigger, then revision 0 from insert_transaction itself
	expect(t, d, `select transactions_seq, revision from transactions_metadata order by seq`, "1|1\n1|0\n2|1\n2|0")
	// accounts.seq 3 was burnt by the conflicting upsert of "a" in the second transaction
	expect(t, d, `select accounts_seq, revision from accounts_metadata order by seq`, "1|1\n2|1\n4|1")
}

func TestTwoLedgers(t *testing.T) {
	d := mustLoad(t).NewDB()
	mustExec(t, d, txLog("l1", 0, 0, "2023-01-01T10:00:00Z", "["+posting("world", "a", "USD", 100)+"]", ""))
	mustExec(t, d, txLog("l2", 0, 0, "2023-01-01T10:00:00Z", "["+posting("world", "a", "USD", 5)+"]", ""))
	expect(t, d, `select get_account_balance('l1', 'a', 'USD'), get_account_balance('l2', 'a', 'USD')`, "100|5")
	expect(t, d, `select ledger, post_commit_volumes from moves where account_address = 'a' order by seq`, "l1|(100,0)\nl2|(5,0)")
}

func TestQuirks(t *testing.T) {
	e := mustLoad(t)
	// (a) world -> world on a fresh ledger
	d := e.NewDB()
	mustExec(t, d, txLog("l1", 0, 0, "2023-01-01T10:00:00Z", "["+posting("world", "world", "USD", 7)+"]", ""))
	expect(t, d, `select is_source, post_commit_volumes from moves order by seq`, "t|(0,7)\nf|(7,0)")
	// (b) back-dated transaction
	d = e.NewDB()
	mustExec(t, d, txLog("l1", 0, 0, "2023-01-10T00:00:00Z", "["+posting("world", "a", "USD", 10)+"]", ""))
	mustExec(t, d, txLog("l1", 1, 1, "2023-01-05T00:00:00Z", "["+posting("world", "a", "USD", 5)+"]", ""))
	expect(t, d, `select account_address, effective_date, post_commit_volumes, post_commit_effective_volumes from moves order by seq`, `
world|2023-01-10 00:00:00|(0,10)|(0,15)
a|2023-01-10 00:00:00|(10,0)|(15,0)
world|2023-01-05 00:00:00|(0,15)|(,)
a|2023-01-05 00:00:00|(15,0)|(,)`)
	// (c) zone suffix ignored
	d = e.NewDB()
	mustExec(t, d, txLog("l1", 0, 0, "2023-01-01T10:00:00+02:00", "["+posting("world", "a", "USD", 10)+"]", ""))
	expect(t, d, `select timestamp from transactions`, "2023-01-01 10:00:00")
}

func TestMetadataNoNewRevision(t *testing.T) {
	d := mustLoad(t).NewDB()
	set := func(id int) string {
		return fmt.Sprintf(`insert into logs(ledger, id, type, hash, date, data) values ('l1', %d, 'SET_METADATA', '\x00', '2023-06-0%d 00:00:00', '{"targetType": "ACCOUNT", "targetId": "a", "metadata": {"k": "v"}}')`, id, id+1)
	}
	mustExec(t, d, set(0))
	expect(t, d, `select revision, metadata from accounts_metadata order by seq`, `1|{"k": "v"}`)
	mustExec(t, d, set(1))
	expect(t, d, `select revision, metadata from accounts_metadata order by seq`, `1|{"k": "v"}`)
	// the conflicting insert burnt a sequence value
	mustExec(t, d, strings.Replace(set(2), `"v"`, `"w"`, 1))
	expect(t, d, `select seq, revision, metadata from accounts_metadata order by seq`, "1|1|{\"k\": \"v\"}\n2|2|{\"k\": \"w\"}")
	expect(t, d, `select seq, metadata from accounts`, `1|{"k": "w"}`)
}

func TestAtomicityAndUnique(t *testing.T) {
	d := mustLoad(t).NewDB()
	mustExec(t, d, txLog("l1", 0, 0, "2023-01-01T10:00:00Z", "["+posting("world", "a", "USD", 100)+"]", ""))
	// same tx id again, different log id: fails in transactions_ledger inside nested triggers; nothing must remain
	err := d.Exec(txLog("l1", 1, 0, "2023-01-01T10:00:00Z", "["+posting("world", "b", "USD", 1)+"]", ""))
	if err == nil || !strings.Contains(err.Error(), "unique_violation") {
		t.Fatalf("want unique_violation, got %v", err)
	}
	expect(t, d, `select count(*) from logs`, "1")
	expect(t, d, `select count(*) from moves`, "2")
	expect(t, d, `select count(*) from accounts`, "2")
	if err := d.Exec(`insert into logs(ledger, id, type, hash, date, data) values ('l1', 5, 'BOGUS', '\x00', '2023-06-01 00:00:00', '{}')`); err == nil {
		t.Fatal("bad enum label accepted")
	}
}

func TestMutation(t *testing.T) {
	src := readSchema(t)
	mut := strings.Replace(src, "_post_commit_volumes.outputs + _amount", "_post_commit_volumes.outputs - _amount", 1)
	if mut == src {
		t.Fatal("mutation site not found")
	}
	e, err := Load(mut)
	if err != nil {
		t.Fatal(err)
	}
	d := e.NewDB()
	mustExec(t, d, txLog("l1", 0, 0, "2023-01-01T10:00:00Z", "["+posting("world", "a", "USD", 100)+"]", ""))
	expect(t, d, `select post_commit_volumes from moves order by seq`, "(0,-100)\n(100,0)")
	// a dropped predicate
	mut2 := strings.Replace(src, "and s.ledger = _ledger\norder by seq desc\nlimit 1\n$$", "order by seq desc\nlimit 1\n$$", 1)
	if mut2 == src {
		t.Fatal("mutation site 2 not found")
	}
	e2, err := Load(mut2)
	if err != nil {
		t.Fatal(err)
	}
	d = e2.NewDB()
	mustExec(t, d, txLog("l1", 0, 0, "2023-01-01T10:00:00Z", "["+posting("world", "a", "USD", 100)+"]", ""))
	mustExec(t, d, txLog("l2", 0, 0, "2023-01-01T10:00:00Z", "["+posting("world", "a", "USD", 5)+"]", ""))
	expect(t, d, `select get_account_balance('l1', 'a', 'USD')`, "5")
	// unparseable text must be reported
	if _, err := Load(strings.Replace(src, "limit 1;", "limit 1 fetch first;", 1)); err == nil {
		t.Fatal("broken schema accepted")
	} else {
		t.Log(err)
	}
}
