package minipg

import (
	"math/big"
	"strings"
)

type session struct {
	db       *DB
	depth    int
	rowCount int // rows affected by the last DML statement
}

type relation struct {
	cols    []string
	types   []*Type
	rows    [][]Value
	rowType string // composite type of a whole row ("" = anonymous record)
	scalar  bool   // function returning a scalar: a whole-row reference yields the single value
}

type rte struct {
	alias    string
	rel      *relation // column description (rows unused here)
	nullRow  []Value
	qualOnly bool // columns only reachable through the alias (ON CONFLICT's "excluded")
}

type variable struct {
	name string
	typ  *Type
	val  Value
}

type frame struct {
	fn    *funcDef
	lang  string      // sql | plpgsql
	vars  []*variable // looked up from the end: later declarations shadow earlier ones
	pos   []*variable
	found bool
}

func (f *frame) lookup(name string) *variable {
	for i := len(f.vars) - 1; i >= 0; i-- {
		if f.vars[i].name == name {
			return f.vars[i]
		}
	}
	return nil
}

func (f *frame) declare(v *variable) { f.vars = append(f.vars, v) }

type aggCtx struct {
	rows [][][]Value
}

type env struct {
	s      *session
	parent *env
	rtes   []*rte
	cur    [][]Value // current row per rte; nil entry = not (yet) visible
	frame  *frame
	ctes   *cteScope
	agg    *aggCtx
	inAgg  bool
	rownum int64
}

func (ev *env) eng() *Engine { return ev.s.db.eng }

func (ev *env) child() *env {
	return &env{s: ev.s, parent: ev, frame: ev.frame, ctes: ev.ctes}
}

func (ev *env) isPL() bool { return ev.frame != nil && ev.frame.lang == "plpgsql" }

// ---------------------------------------------------------------------------------------------------------------------
// Name resolution

type resolved struct {
	val   Value
	typ   *Type
	level int // 0 = this env; -1 = variable
	rte   int
	col   int // -1 = whole row
	isCol bool
}

func (ev *env) findColumn(name string) (resolved, bool, error) {
	level := 0
	for lv := ev; lv != nil; lv = lv.parent {
		n := 0
		var r resolved
		for i, rt := range lv.rtes {
			if i >= len(lv.cur) || lv.cur[i] == nil || rt.rel == nil || rt.qualOnly {
				continue
			}
			for c, cn := range rt.rel.cols {
				if cn == name {
					n++
					r = resolved{val: lv.cur[i][c], level: level, rte: i, col: c, isCol: true}
					if c < len(rt.rel.types) {
						r.typ = rt.rel.types[c]
					}
				}
			}
		}
		if n > 1 {
			return resolved{}, false, errf("ambiguous_column", "column reference %q is ambiguous", name)
		}
		if n == 1 {
			return r, true, nil
		}
		level++
	}
	return resolved{}, false, nil
}

func (ev *env) findRTE(alias string) (*env, int, int) {
	level := 0
	for lv := ev; lv != nil; lv = lv.parent {
		for i, rt := range lv.rtes {
			if i < len(lv.cur) && lv.cur[i] != nil && rt.alias == alias {
				return lv, i, level
			}
		}
		level++
	}
	return nil, -1, 0
}

func (ev *env) wholeRow(lv *env, i int) (Value, *Type) {
	rt := lv.rtes[i]
	row := lv.cur[i]
	if rt.rel != nil && rt.rel.scalar && len(row) == 1 {
		var t *Type
		if len(rt.rel.types) == 1 {
			t = rt.rel.types[0]
		}
		return row[0], t
	}
	if len(row) > 0 && len(rt.nullRow) > 0 && &row[0] == &rt.nullRow[0] {
		return nil, nil
	}
	tn := ""
	if rt.rel != nil {
		tn = rt.rel.rowType
	}
	var t *Type
	if tn != "" {
		t = &Type{Name: tn}
	}
	return Composite{Type: tn, Fields: row}, t
}

func (ev *env) findVar(name string) *variable {
	if ev.frame == nil {
		return nil
	}
	return ev.frame.lookup(name)
}

func (ev *env) fieldOf(v Value, t *Type, field string) (Value, *Type, error) {
	var tn string
	if c, ok := v.(Composite); ok {
		tn = c.Type
	} else if v == nil && t != nil {
		tn = t.Name
	} else if v == nil {
		return nil, nil, nil
	} else {
		return nil, nil, errf("wrong_object_type", "column notation .%s applied to type %s, which is not a composite type", field, kindName(v))
	}
	if tn == "" {
		c := v.(Composite)
		if strings.HasPrefix(field, "f") && isDigits(field[1:]) {
			if i := int(atoi(field[1:])); i >= 1 && i <= len(c.Fields) {
				return c.Fields[i-1], nil, nil
			}
		}
		return nil, nil, errf("undefined_column", "could not identify column %q in record data type", field)
	}
	td, ok := ev.eng().types[tn]
	if !ok || td.enum {
		return nil, nil, errf("wrong_object_type", "type %s is not composite", tn)
	}
	i := td.fieldIndex(field)
	if i < 0 {
		return nil, nil, errf("undefined_column", "column %q not found in data type %s", field, tn)
	}
	if v == nil {
		return nil, td.ftypes[i], nil
	}
	c := v.(Composite)
	if i >= len(c.Fields) {
		return nil, td.ftypes[i], nil
	}
	return c.Fields[i], td.ftypes[i], nil
}

func (ev *env) resolveRef(cr *ColumnRef) (resolved, error) {
	parts := cr.Parts
	switch len(parts) {
	case 1:
		name := parts[0]
		r, ok, err := ev.findColumn(name)
		if err != nil {
			return resolved{}, err
		}
		v := ev.findVar(name)
		if name == "found" && v == nil && ev.isPL() && !ok {
			return resolved{val: ev.frame.found, typ: typBool, level: -1}, nil
		}
		if ok {
			if v != nil && ev.isPL() {
				return resolved{}, errf("ambiguous_column", "column reference %q is ambiguous: it could refer to either a PL/pgSQL variable or a table column", name)
			}
			return r, nil
		}
		if lv, i, level := ev.findRTE(name); lv != nil {
			if v != nil && ev.isPL() {
				return resolved{}, errf("ambiguous_column", "reference %q is ambiguous: it could refer to either a PL/pgSQL variable or a table", name)
			}
			val, t := ev.wholeRow(lv, i)
			return resolved{val: val, typ: t, level: level, rte: i, col: -1, isCol: true}, nil
		}
		if v != nil {
			return resolved{val: v.val, typ: v.typ, level: -1}, nil
		}
		return resolved{}, errf("undefined_column", "column %q does not exist", name)
	case 2:
		a, b := parts[0], parts[1]
		lv, i, level := ev.findRTE(a)
		v := ev.findVar(a)
		if lv != nil {
			rt := lv.rtes[i]
			if rt.rel != nil {
				for c, cn := range rt.rel.cols {
					if cn == b {
						if v != nil && ev.isPL() {
							if _, _, err := ev.fieldOf(v.val, v.typ, b); err == nil {
								return resolved{}, errf("ambiguous_column", "column reference \"%s.%s\" is ambiguous", a, b)
							}
						}
						r := resolved{val: lv.cur[i][c], level: level, rte: i, col: c, isCol: true}
						if c < len(rt.rel.types) {
							r.typ = rt.rel.types[c]
						}
						return r, nil
					}
				}
			}
		}
		if v != nil {
			fv, ft, err := ev.fieldOf(v.val, v.typ, b)
			if err != nil {
				return resolved{}, err
			}
			return resolved{val: fv, typ: ft, level: -1}, nil
		}
		if ev.frame != nil && ev.frame.fn != nil && ev.frame.fn.name == a {
			if pv := ev.findVar(b); pv != nil {
				return resolved{val: pv.val, typ: pv.typ, level: -1}, nil
			}
		}
		if lv != nil {
			return resolved{}, errf("undefined_column", "column %s.%s does not exist", a, b)
		}
		return resolved{}, errf("undefined_table", "missing FROM-clause entry for table %q", a)
	case 3:
		if v := ev.findVar(parts[0]); v != nil {
			fv, ft, err := ev.fieldOf(v.val, v.typ, parts[1])
			if err != nil {
				return resolved{}, err
			}
			fv2, ft2, err := ev.fieldOf(fv, ft, parts[2])
			if err != nil {
				return resolved{}, err
			}
			return resolved{val: fv2, typ: ft2, level: -1}, nil
		}
		// schema.table.column
		return ev.resolveRef(&ColumnRef{Parts: parts[1:], Pos: cr.Pos})
	}
	return resolved{}, unsupported("column reference %s", strings.Join(parts, "."))
}

// staticType gives the declared type of an expression when it is cheaply known (used to resolve untyped literals).
func (ev *env) staticType(x Expr) *Type {
	switch n := x.(type) {
	case *ColumnRef:
		if r, err := ev.resolveRef(n); err == nil {
			return r.typ
		}
	case *CastExpr:
		return n.Type
	case *FieldSelect:
		if v, t, err := ev.evalTyped(n.X); err == nil {
			if _, ft, err := ev.fieldOf(v, t, n.Field); err == nil {
				return ft
			}
		}
	case *FuncCall:
		if f, ok := ev.eng().funcs[n.Name]; ok && !f.setOf {
			return f.returns
		}
	case *ParamRef:
		if ev.frame != nil && n.N <= len(ev.frame.pos) {
			return ev.frame.pos[n.N-1].typ
		}
	}
	return nil
}

func isUntypedLit(x Expr) bool {
	switch x.(type) {
	case *StringLit, *NullLit:
		return true
	}
	return false
}

// ---------------------------------------------------------------------------------------------------------------------
// Expression evaluation

func truth(v Value) (isTrue bool, err error) {
	if v == nil {
		return false, nil
	}
	b, ok := v.(bool)
	if !ok {
		return false, errf("datatype_mismatch", "argument of boolean context must be type boolean, not type %s", kindName(v))
	}
	return b, nil
}

func (ev *env) evalBool(x Expr) (bool, error) {
	v, err := ev.eval(x)
	if err != nil {
		return false, err
	}
	return truth(v)
}

// evalTyped evaluates x and also reports its declared type when statically known.
func (ev *env) evalTyped(x Expr) (Value, *Type, error) {
	switch n := x.(type) {
	case *ColumnRef:
		r, err := ev.resolveRef(n)
		return r.val, r.typ, err
	case *CastExpr:
		v, err := ev.eval(x)
		return v, n.Type, err
	case *FieldSelect:
		v, t, err := ev.evalTyped(n.X)
		if err != nil {
			return nil, nil, err
		}
		return ev.fieldOf(v, t, n.Field)
	}
	v, err := ev.eval(x)
	return v, nil, err
}

func (ev *env) eval(x Expr) (Value, error) {
	switch n := x.(type) {
	case *NumberLit:
		if n.val != nil {
			return n.val, nil
		}
		return parseInteger(n.Text, "numeric")
	case *StringLit:
		if n.boxed != nil {
			return n.boxed, nil
		}
		return n.Val, nil
	case *NullLit:
		return nil, nil
	case *BoolLit:
		return n.Val, nil
	case *ParamRef:
		if ev.frame == nil || n.N > len(ev.frame.pos) {
			return nil, errf("undefined_parameter", "there is no parameter $%d", n.N)
		}
		return ev.frame.pos[n.N-1].val, nil
	case *ColumnRef:
		r, err := ev.resolveRef(n)
		return r.val, err
	case *Star:
		return nil, errf("syntax_error", "* is not allowed in this context")
	case *UnaryExpr:
		v, err := ev.eval(n.X)
		if err != nil {
			return nil, err
		}
		if v == nil {
			return nil, nil
		}
		switch n.Op {
		case "not":
			b, ok := v.(bool)
			if !ok {
				return nil, errf("datatype_mismatch", "argument of NOT must be type boolean, not type %s", kindName(v))
			}
			return !b, nil
		case "-":
			i, ok := v.(*big.Int)
			if !ok {
				if s, isStr := v.(string); isStr && isUntypedLit(n.X) {
					pi, err := parseInteger(s, "numeric")
					if err != nil {
						return nil, err
					}
					return new(big.Int).Neg(pi), nil
				}
				return nil, errf("undefined_function", "operator does not exist: - %s", kindName(v))
			}
			return new(big.Int).Neg(i), nil
		}
		return nil, unsupported("unary operator %s", n.Op)
	case *BinaryExpr:
		return ev.evalBinary(n)
	case *IsExpr:
		return ev.evalIs(n)
	case *CastExpr:
		v, err := ev.eval(n.X)
		if err != nil {
			return nil, err
		}
		return ev.eng().cast(v, n.Type, castExplicit, isUntypedLit(n.X))
	case *FieldSelect:
		v, t, err := ev.evalTyped(n.X)
		if err != nil {
			return nil, err
		}
		fv, _, err := ev.fieldOf(v, t, n.Field)
		return fv, err
	case *FuncCall:
		return ev.evalFuncCall(n)
	case *CaseExpr:
		var op Value
		if n.Operand != nil {
			var err error
			if op, err = ev.eval(n.Operand); err != nil {
				return nil, err
			}
		}
		for _, w := range n.Whens {
			if n.Operand != nil {
				wv, err := ev.eval(w.Cond)
				if err != nil {
					return nil, err
				}
				r, err := ev.compareOp("=", op, wv, n.Operand, w.Cond)
				if err != nil {
					return nil, err
				}
				if r == true {
					return ev.eval(w.Result)
				}
				continue
			}
			ok, err := ev.evalBool(w.Cond)
			if err != nil {
				return nil, err
			}
			if ok {
				return ev.eval(w.Result)
			}
		}
		if n.Else != nil {
			return ev.eval(n.Else)
		}
		return nil, nil
	case *RowExpr:
		fields := make([]Value, len(n.Items))
		for i, it := range n.Items {
			v, err := ev.eval(it)
			if err != nil {
				return nil, err
			}
			fields[i] = v
		}
		return Composite{Fields: fields}, nil
	case *ArrayExpr:
		out := make(Array, len(n.Items))
		for i, it := range n.Items {
			v, err := ev.eval(it)
			if err != nil {
				return nil, err
			}
			out[i] = v
		}
		return out, nil
	case *SubqueryExpr:
		rel, err := ev.runSelect(n.Query)
		if err != nil {
			return nil, err
		}
		if len(rel.cols) != 1 {
			return nil, errf("syntax_error", "subquery must return only one column")
		}
		if len(rel.rows) > 1 {
			return nil, errf("cardinality_violation", "more than one row returned by a subquery used as an expression")
		}
		if len(rel.rows) == 0 {
			return nil, nil
		}
		return rel.rows[0][0], nil
	case *ExistsExpr:
		rel, err := ev.runSelect(n.Query)
		if err != nil {
			return nil, err
		}
		return len(rel.rows) > 0, nil
	case *AnyExpr:
		return ev.evalAny(n)
	case *InExpr:
		return ev.evalIn(n)
	case *BetweenExpr:
		v, err := ev.eval(n.X)
		if err != nil {
			return nil, err
		}
		lo, err := ev.eval(n.Lo)
		if err != nil {
			return nil, err
		}
		hi, err := ev.eval(n.Hi)
		if err != nil {
			return nil, err
		}
		a, err := ev.compareOp(">=", v, lo, n.X, n.Lo)
		if err != nil {
			return nil, err
		}
		b, err := ev.compareOp("<=", v, hi, n.X, n.Hi)
		if err != nil {
			return nil, err
		}
		r := kleeneAnd(a, b)
		if n.Not {
			return kleeneNot(r), nil
		}
		return r, nil
	}
	return nil, unsupported("expression node %T", x)
}

func kleeneAnd(a, b Value) Value {
	if a == false || b == false {
		return false
	}
	if a == nil || b == nil {
		return nil
	}
	return true
}

func kleeneOr(a, b Value) Value {
	if a == true || b == true {
		return true
	}
	if a == nil || b == nil {
		return nil
	}
	return false
}

func kleeneNot(a Value) Value {
	if a == nil {
		return nil
	}
	return !(a.(bool))
}

func (ev *env) evalIs(n *IsExpr) (Value, error) {
	v, err := ev.eval(n.X)
	if err != nil {
		return nil, err
	}
	var r bool
	switch n.What {
	case "null":
		r = v == nil
		if c, ok := v.(Composite); ok {
			// row IS NULL: all fields null; row IS NOT NULL: all fields non-null
			allNull, allNotNull := true, true
			for _, f := range c.Fields {
				if f == nil {
					allNotNull = false
				} else {
					allNull = false
				}
			}
			if n.Not {
				return allNotNull, nil
			}
			return allNull, nil
		}
	case "true", "false":
		if v != nil {
			b, ok := v.(bool)
			if !ok {
				return nil, errf("datatype_mismatch", "argument of IS %s must be type boolean", strings.ToUpper(n.What))
			}
			r = b == (n.What == "true")
		}
	case "distinct":
		y, err := ev.eval(n.Y)
		if err != nil {
			return nil, err
		}
		if v == nil || y == nil {
			r = !(v == nil && y == nil)
		} else {
			eq, err := ev.compareOp("=", v, y, n.X, n.Y)
			if err != nil {
				return nil, err
			}
			r = eq != true
		}
	}
	if n.Not {
		r = !r
	}
	return r, nil
}

// coerceLiteral resolves an untyped string literal against the other operand.
func (ev *env) coerceLiteral(lit Value, otherExpr Expr, other Value) (Value, error) {
	s, ok := lit.(string)
	if !ok {
		return lit, nil
	}
	var t *Type
	switch other.(type) {
	case nil:
		return lit, nil // the comparison yields NULL whatever the literal is
	case *big.Int, Timestamp, JSON, bool, Bytea:
		t = typeOfValue(other)
	default:
		if t = ev.staticType(otherExpr); t == nil {
			t = typeOfValue(other)
		}
	}
	if t == nil {
		if _, isArr := other.(Array); isArr {
			return ev.eng().cast(s, typTextArray, castExplicit, true)
		}
		return lit, nil
	}
	return ev.eng().cast(s, t, castImplicit, true)
}

func (ev *env) coercePair(l, r Value, lx, rx Expr) (Value, Value, error) {
	var err error
	_, lIsLit := lx.(*StringLit)
	_, rIsLit := rx.(*StringLit)
	if lIsLit && !rIsLit {
		l, err = ev.coerceLiteral(l, rx, r)
	} else if rIsLit && !lIsLit {
		r, err = ev.coerceLiteral(r, lx, l)
	}
	return l, r, err
}

// compareOp implements = <> < <= > >= with NULL propagation and literal coercion.
func (ev *env) compareOp(op string, l, r Value, lx, rx Expr) (Value, error) {
	l, r, err := ev.coercePair(l, r, lx, rx)
	if err != nil {
		return nil, err
	}
	if l == nil || r == nil {
		return nil, nil
	}
	if lc, ok := l.(Composite); ok {
		if rc, ok := r.(Composite); ok {
			return compareRows(op, lc, rc)
		}
	}
	if lj, ok := l.(JSON); ok && (op == "=" || op == "<>") {
		if rj, ok := r.(JSON); ok {
			return lj.Equal(rj) == (op == "="), nil
		}
	}
	c, err := compareValues(l, r)
	if err != nil {
		return nil, errf("undefined_function", "operator does not exist: %s %s %s", kindName(l), op, kindName(r))
	}
	switch op {
	case "=":
		return c == 0, nil
	case "<>":
		return c != 0, nil
	case "<":
		return c < 0, nil
	case "<=":
		return c <= 0, nil
	case ">":
		return c > 0, nil
	case ">=":
		return c >= 0, nil
	}
	return nil, unsupported("comparison operator %s", op)
}

// compareRows: SQL row comparison (NULL fields make the result unknown unless decided earlier).
func compareRows(op string, a, b Composite) (Value, error) {
	if len(a.Fields) != len(b.Fields) {
		return nil, errf("datatype_mismatch", "cannot compare record types with different numbers of columns")
	}
	if op == "=" || op == "<>" {
		var res Value = true
		for i := range a.Fields {
			if a.Fields[i] == nil || b.Fields[i] == nil {
				res = kleeneAnd(res, nil)
				continue
			}
			c, err := compareValues(a.Fields[i], b.Fields[i])
			if err != nil {
				return nil, err
			}
			res = kleeneAnd(res, c == 0)
		}
		if op == "<>" {
			return kleeneNot(res), nil
		}
		return res, nil
	}
	for i := range a.Fields {
		if a.Fields[i] == nil || b.Fields[i] == nil {
			return nil, nil
		}
		c, err := compareValues(a.Fields[i], b.Fields[i])
		if err != nil {
			return nil, err
		}
		if c != 0 {
			switch op {
			case "<", "<=":
				return c < 0, nil
			default:
				return c > 0, nil
			}
		}
	}
	return op == "<=" || op == ">=", nil
}

func knownOperator(op string) bool {
	switch op {
	case "and", "or", "=", "<>", "<", "<=", ">", ">=", "+", "-", "*", "/", "%", "||", "->", "->>", "@>", "<@", "@@", "?":
		return true
	}
	return false
}

func (ev *env) evalBinary(n *BinaryExpr) (Value, error) {
	switch n.Op {
	case "and", "or":
		l, err := ev.eval(n.L)
		if err != nil {
			return nil, err
		}
		if l != nil {
			if _, ok := l.(bool); !ok {
				return nil, errf("datatype_mismatch", "argument of %s must be type boolean, not type %s", strings.ToUpper(n.Op), kindName(l))
			}
		}
		// PostgreSQL does not guarantee evaluation order, but short-circuits in practice
		if n.Op == "and" && l == false {
			return false, nil
		}
		if n.Op == "or" && l == true {
			return true, nil
		}
		r, err := ev.eval(n.R)
		if err != nil {
			return nil, err
		}
		if r != nil {
			if _, ok := r.(bool); !ok {
				return nil, errf("datatype_mismatch", "argument of %s must be type boolean, not type %s", strings.ToUpper(n.Op), kindName(r))
			}
		}
		if n.Op == "and" {
			return kleeneAnd(l, r), nil
		}
		return kleeneOr(l, r), nil
	}
	l, err := ev.eval(n.L)
	if err != nil {
		return nil, err
	}
	r, err := ev.eval(n.R)
	if err != nil {
		return nil, err
	}
	switch n.Op {
	case "=", "<>", "<", "<=", ">", ">=":
		return ev.compareOp(n.Op, l, r, n.L, n.R)
	}
	return ev.applyOperator(n.Op, l, r, n.L, n.R)
}

func (ev *env) applyOperator(op string, l, r Value, lx, rx Expr) (Value, error) {
	_, lLit := lx.(*StringLit)
	_, rLit := rx.(*StringLit)
	noOp := func() (Value, error) {
		return nil, errf("undefined_function", "operator does not exist: %s %s %s", kindName(l), op, kindName(r))
	}
	litNum := func(v Value, isLit bool) (Value, error) {
		if s, ok := v.(string); ok && isLit {
			return parseInteger(s, "numeric")
		}
		return v, nil
	}
	litJSON := func(v Value, isLit bool) (Value, error) {
		if s, ok := v.(string); ok && isLit {
			return ParseJSON(s)
		}
		return v, nil
	}
	switch op {
	case "+", "*", "/", "%":
		var err error
		if l, err = litNum(l, lLit); err != nil {
			return nil, err
		}
		if r, err = litNum(r, rLit); err != nil {
			return nil, err
		}
		if l == nil || r == nil {
			return nil, nil
		}
		a, ok1 := l.(*big.Int)
		b, ok2 := r.(*big.Int)
		if !ok1 || !ok2 {
			return noOp()
		}
		switch op {
		case "+":
			return new(big.Int).Add(a, b), nil
		case "*":
			return new(big.Int).Mul(a, b), nil
		default:
			if b.Sign() == 0 {
				return nil, errf("division_by_zero", "division by zero")
			}
			q, m := new(big.Int).QuoRem(a, b, new(big.Int))
			if op == "%" {
				return m, nil
			}
			if m.Sign() != 0 {
				return nil, unsupported("inexact division %s / %s (minipg numerics are integers; integer and numeric division differ)", a, b)
			}
			return q, nil
		}
	case "-":
		if _, isJ := l.(JSON); isJ {
			if r == nil {
				return nil, nil
			}
			switch k := r.(type) {
			case string:
				return jsonDeleteKey(l.(JSON), k)
			case *big.Int:
				if !k.IsInt64() {
					return l, nil
				}
				return jsonDeleteIndex(l.(JSON), int(k.Int64()))
			case Array:
				cur := l.(JSON)
				for _, el := range k {
					if s, ok := el.(string); ok {
						var err error
						if cur, err = jsonDeleteKey(cur, s); err != nil {
							return nil, err
						}
					}
				}
				return cur, nil
			}
			return noOp()
		}
		var err error
		if _, rIsJ := r.(JSON); !rIsJ {
			if l, err = litNum(l, lLit); err != nil {
				return nil, err
			}
			if _, lIsNum := l.(*big.Int); lIsNum || l == nil {
				if r, err = litNum(r, rLit); err != nil {
					return nil, err
				}
			}
		}
		if l == nil || r == nil {
			return nil, nil
		}
		a, ok1 := l.(*big.Int)
		b, ok2 := r.(*big.Int)
		if !ok1 || !ok2 {
			return noOp()
		}
		return new(big.Int).Sub(a, b), nil
	case "||":
		_, lj := l.(JSON)
		_, rj := r.(JSON)
		if lj || rj {
			var err error
			if l, err = litJSON(l, lLit); err != nil {
				return nil, err
			}
			if r, err = litJSON(r, rLit); err != nil {
				return nil, err
			}
			if l == nil || r == nil {
				return nil, nil
			}
			a, ok1 := l.(JSON)
			b, ok2 := r.(JSON)
			if !ok1 || !ok2 {
				return noOp()
			}
			return jsonConcat(a, b), nil
		}
		la, lIsArr := l.(Array)
		ra, rIsArr := r.(Array)
		if lIsArr || rIsArr {
			if l == nil || r == nil {
				// array || NULL yields the array
				if lIsArr {
					return la, nil
				}
				return ra, nil
			}
			switch {
			case lIsArr && rIsArr:
				return append(append(Array{}, la...), ra...), nil
			case lIsArr:
				return append(append(Array{}, la...), r), nil
			default:
				return append(Array{l}, ra...), nil
			}
		}
		if l == nil || r == nil {
			return nil, nil
		}
		_, ls := l.(string)
		_, rs := r.(string)
		if !ls && !rs {
			return noOp()
		}
		return outText(l) + outText(r), nil
	case "->", "->>":
		var err error
		if l, err = litJSON(l, lLit); err != nil {
			return nil, err
		}
		if l == nil || r == nil {
			return nil, nil
		}
		j, ok := l.(JSON)
		if !ok {
			return noOp()
		}
		var m JSON
		var found bool
		switch k := r.(type) {
		case string:
			m, found = j.Get(k)
		case *big.Int:
			if k.IsInt64() {
				m, found = j.Index(int(k.Int64()))
			}
		default:
			return noOp()
		}
		if !found {
			return nil, nil
		}
		if op == "->" {
			return m, nil
		}
		switch m.Kind {
		case JSONNull:
			return nil, nil
		case JSONString:
			return m.Str, nil
		}
		return m.String(), nil
	case "@>", "<@":
		var err error
		if l, err = litJSON(l, lLit); err != nil {
			return nil, err
		}
		if r, err = litJSON(r, rLit); err != nil {
			return nil, err
		}
		if l == nil || r == nil {
			return nil, nil
		}
		a, ok1 := l.(JSON)
		b, ok2 := r.(JSON)
		if !ok1 || !ok2 {
			return nil, unsupported("operator %s on %s and %s (only jsonb containment is implemented)", op, kindName(l), kindName(r))
		}
		if op == "<@" {
			a, b = b, a
		}
		return jsonContains(a, b), nil
	case "?":
		if l == nil || r == nil {
			return nil, nil
		}
		j, ok := l.(JSON)
		k, ok2 := r.(string)
		if !ok || !ok2 {
			return noOp()
		}
		switch j.Kind {
		case JSONObject:
			_, f := j.Get(k)
			return f, nil
		case JSONArray:
			for _, el := range j.Elems {
				if el.Kind == JSONString && el.Str == k {
					return true, nil
				}
			}
			return false, nil
		case JSONString:
			return j.Str == k, nil
		}
		return false, nil
	case "@@":
		if l == nil || r == nil {
			return nil, nil
		}
		j, ok := l.(JSON)
		if !ok {
			return noOp()
		}
		if s, isStr := r.(string); isStr {
			pv, err := parseJSONPath(s)
			if err != nil {
				return nil, err
			}
			r = pv
		}
		jp, ok := r.(jsonPath)
		if !ok {
			return noOp()
		}
		// lax mode: $[N] on a non-array treats the value as a one-element array; a missing element gives no match -> NULL... but
		// jsonb @@ jsonpath returns NULL only when the predicate result is not boolean; a comparison over an empty sequence is false.
		var el JSON
		var found bool
		if j.Kind == JSONArray {
			if jp.index < len(j.Elems) {
				el, found = j.Elems[jp.index], true
			}
		} else if jp.index == 0 {
			el, found = j, true
		}
		if !found {
			return false, nil
		}
		if el.Kind == JSONArray { // lax mode unwraps arrays for comparison
			for _, e2 := range el.Elems {
				if e2.Kind == JSONString && e2.Str == jp.str {
					return true, nil
				}
			}
			return false, nil
		}
		return el.Kind == JSONString && el.Str == jp.str, nil
	}
	return nil, unsupported("operator %s", op)
}

func (ev *env) evalAny(n *AnyExpr) (Value, error) {
	l, err := ev.eval(n.L)
	if err != nil {
		return nil, err
	}
	var elems []Value
	if n.Query != nil {
		rel, err := ev.runSelect(n.Query)
		if err != nil {
			return nil, err
		}
		if len(rel.cols) != 1 {
			return nil, errf("syntax_error", "subquery has too many columns")
		}
		for _, row := range rel.rows {
			elems = append(elems, row[0])
		}
	} else {
		r, err := ev.eval(n.R)
		if err != nil {
			return nil, err
		}
		if r == nil {
			return nil, nil
		}
		if s, ok := r.(string); ok && isUntypedLit(n.R) {
			if r, err = ev.eng().cast(s, typTextArray, castExplicit, true); err != nil {
				return nil, err
			}
			if lt := typeOfValue(l); lt != nil && lt != typText {
				at := *lt
				at.Array = true
				if r, err = ev.eng().cast(r, &at, castExplicit, true); err != nil {
					return nil, err
				}
			}
		}
		arr, ok := r.(Array)
		if !ok {
			return nil, errf("undefined_function", "op ANY/ALL (array) requires array on right side, got %s", kindName(r))
		}
		elems = arr
	}
	var acc Value = false
	if n.All {
		acc = true
	}
	for _, el := range elems {
		c, err := ev.compareOp(n.Op, l, el, n.L, nil)
		if err != nil {
			return nil, err
		}
		if n.All {
			acc = kleeneAnd(acc, c)
			if acc == false {
				return false, nil
			}
		} else {
			acc = kleeneOr(acc, c)
			if acc == true {
				return true, nil
			}
		}
	}
	return acc, nil
}

func (ev *env) evalIn(n *InExpr) (Value, error) {
	l, err := ev.eval(n.X)
	if err != nil {
		return nil, err
	}
	var acc Value = false
	if n.Query != nil {
		rel, err := ev.runSelect(n.Query)
		if err != nil {
			return nil, err
		}
		if len(rel.cols) != 1 {
			return nil, errf("syntax_error", "subquery has too many columns")
		}
		for _, row := range rel.rows {
			c, err := ev.compareOp("=", l, row[0], n.X, nil)
			if err != nil {
				return nil, err
			}
			acc = kleeneOr(acc, c)
		}
	} else {
		for _, it := range n.List {
			v, err := ev.eval(it)
			if err != nil {
				return nil, err
			}
			c, err := ev.compareOp("=", l, v, n.X, it)
			if err != nil {
				return nil, err
			}
			acc = kleeneOr(acc, c)
		}
	}
	if n.Not {
		return kleeneNot(acc), nil
	}
	return acc, nil
}
