package minipg

import (
	"math/big"
	"strings"
)

type trigEvent struct {
	op     string // insert | update | delete
	newRow []Value
	oldRow []Value
}

func (ev *env) tableFor(name string) (*tableData, error) {
	td, ok := ev.s.db.tables[name]
	if !ok {
		return nil, errf("undefined_table", "relation %q does not exist", name)
	}
	return td, nil
}

func tableRel(td *tableData) *relation {
	return &relation{cols: td.def.colNames, types: td.def.colTypes, rowType: td.def.name}
}

// findConflict returns the index of a row that has the same non-NULL key as row on unique index u (skip = row to ignore).
func findConflict(td *tableData, u *uniqueDef, row []Value, skip int) (int, error) {
	for _, c := range u.cols {
		if row[c] == nil {
			return -1, nil
		}
	}
	for i, r := range td.rows {
		if i == skip {
			continue
		}
		same := true
		for _, c := range u.cols {
			if r[c] == nil {
				same = false
				break
			}
			cmp, err := compareValues(r[c], row[c])
			if err != nil {
				return -1, err
			}
			if cmp != 0 {
				same = false
				break
			}
		}
		if same {
			return i, nil
		}
	}
	return -1, nil
}

func uniqueViolation(td *tableData, u *uniqueDef, row []Value) error {
	var names, vals []string
	for _, c := range u.cols {
		names = append(names, td.def.colNames[c])
		vals = append(vals, outText(row[c]))
	}
	return errf("unique_violation", "duplicate key value violates unique constraint %q: Key (%s)=(%s) already exists", u.name, strings.Join(names, ", "), strings.Join(vals, ", "))
}

func checkNotNull(td *tableData, row []Value) error {
	for i, c := range td.def.cols {
		if c.notNull && row[i] == nil {
			return errf("not_null_violation", "null value in column %q of relation %q violates not-null constraint", c.name, td.def.name)
		}
	}
	return nil
}

func (ev *env) fireTriggers(td *tableData, events []trigEvent) error {
	if len(td.def.triggers) == 0 {
		return nil
	}
	eng := ev.eng()
	for _, e := range events {
		for _, tg := range td.def.triggers {
			if !tg.events[e.op] {
				continue
			}
			f := eng.funcs[tg.fn]
			data := &triggerData{table: td.def.name, op: e.op}
			if e.newRow != nil {
				data.newRow = Composite{Type: td.def.name, Fields: e.newRow}
			}
			if e.oldRow != nil {
				data.oldRow = Composite{Type: td.def.name, Fields: e.oldRow}
			}
			if _, _, err := ev.callFunction(f, nil, data); err != nil {
				return wrapErr(err, "trigger "+tg.name)
			}
		}
	}
	return nil
}

func (ev *env) returning(items []*SelectItem, td *tableData, alias string, rows [][]Value) (*relation, error) {
	if items == nil {
		return nil, nil
	}
	q := ev.child()
	q.rtes = []*rte{{alias: alias, rel: tableRel(td), nullRow: make([]Value, len(td.def.cols))}}
	rel := &relation{}
	type oc struct {
		expr Expr
		col  int
	}
	var outs []oc
	for _, it := range items {
		if st, ok := it.Expr.(*Star); ok {
			if st.Table != "" && st.Table != alias {
				return nil, errf("undefined_table", "missing FROM-clause entry for table %q", st.Table)
			}
			for c, cn := range td.def.colNames {
				rel.cols = append(rel.cols, cn)
				rel.types = append(rel.types, td.def.colTypes[c])
				outs = append(outs, oc{col: c})
			}
			continue
		}
		name := it.Alias
		if name == "" {
			name = exprName(it.Expr)
		}
		rel.cols = append(rel.cols, name)
		var t *Type
		if cr, ok := it.Expr.(*ColumnRef); ok {
			if i, ok := td.def.colIdx[cr.Parts[len(cr.Parts)-1]]; ok {
				t = td.def.colTypes[i]
			}
		}
		rel.types = append(rel.types, t)
		outs = append(outs, oc{expr: it.Expr})
	}
	for _, row := range rows {
		q.cur = [][]Value{row}
		out := make([]Value, len(outs))
		for i, o := range outs {
			if o.expr == nil {
				out[i] = row[o.col]
				continue
			}
			v, err := q.eval(o.expr)
			if err != nil {
				return nil, err
			}
			out[i] = v
		}
		rel.rows = append(rel.rows, out)
	}
	return rel, nil
}

func (ev *env) execInsert(s *InsertStmt) (*relation, error) {
	td, err := ev.tableFor(s.Table)
	if err != nil {
		return nil, err
	}
	eng := ev.eng()
	def := td.def
	// target columns
	var targets []int
	if s.Columns == nil {
		for i := range def.cols {
			targets = append(targets, i)
		}
	} else {
		seen := map[int]bool{}
		for _, c := range s.Columns {
			i, ok := def.colIdx[c]
			if !ok {
				return nil, errf("undefined_column", "column %q of relation %q does not exist", c, def.name)
			}
			if seen[i] {
				return nil, errf("duplicate_column", "column %q specified more than once", c)
			}
			seen[i] = true
			targets = append(targets, i)
		}
	}
	// arbiter index
	var arbiter *uniqueDef
	if oc := s.OnConflict; oc != nil && len(oc.Columns) > 0 {
		want := map[int]bool{}
		for _, c := range oc.Columns {
			i, ok := def.colIdx[c]
			if !ok {
				return nil, errf("undefined_column", "column %q does not exist", c)
			}
			want[i] = true
		}
		for _, u := range def.uniques {
			if len(u.cols) != len(want) {
				continue
			}
			all := true
			for _, c := range u.cols {
				if !want[c] {
					all = false
				}
			}
			if all {
				arbiter = u
				break
			}
		}
		if arbiter == nil {
			return nil, errf("invalid_column_reference", "there is no unique or exclusion constraint matching the ON CONFLICT specification")
		}
		for _, sc := range oc.Set {
			if _, ok := def.colIdx[sc.Column]; !ok {
				return nil, errf("undefined_column", "column %q of relation %q does not exist", sc.Column, def.name)
			}
		}
	}
	// source rows (fully evaluated before anything is inserted)
	type srcRow struct {
		vals []Value
		lits []bool
	}
	var src []srcRow
	if s.Query != nil {
		rel, err := ev.runSelect(s.Query)
		if err != nil {
			return nil, err
		}
		if len(rel.cols) > len(targets) {
			return nil, errf("syntax_error", "INSERT has more expressions than target columns")
		}
		if s.Columns != nil && len(rel.cols) < len(targets) {
			return nil, errf("syntax_error", "INSERT has more target columns than expressions")
		}
		for _, r := range rel.rows {
			src = append(src, srcRow{vals: r, lits: make([]bool, len(r))})
		}
	} else {
		for _, vr := range s.Values {
			if len(vr) > len(targets) {
				return nil, errf("syntax_error", "INSERT has more expressions than target columns")
			}
			if s.Columns != nil && len(vr) < len(targets) {
				return nil, errf("syntax_error", "INSERT has more target columns than expressions")
			}
			sr := srcRow{vals: make([]Value, len(vr)), lits: make([]bool, len(vr))}
			for i, x := range vr {
				v, err := ev.eval(x)
				if err != nil {
					return nil, err
				}
				sr.vals[i] = v
				sr.lits[i] = isUntypedLit(x)
			}
			src = append(src, sr)
		}
	}
	var events []trigEvent
	var affected [][]Value
	touched := map[int]bool{}
	td.own()
	for _, sr := range src {
		row := make([]Value, len(def.cols))
		given := make([]bool, len(def.cols))
		for i, v := range sr.vals {
			c := targets[i]
			cv, err := eng.cast(v, def.cols[c].typ, castAssign, sr.lits[i])
			if err != nil {
				return nil, wrapErr(err, "column "+def.cols[c].name+" of "+def.name)
			}
			row[c] = cv
			given[c] = true
		}
		for c, cd := range def.cols {
			if given[c] {
				continue
			}
			switch {
			case cd.serial:
				row[c] = big.NewInt(td.seq)
				td.seq++
			case cd.def != nil:
				v, err := (&env{s: ev.s}).eval(cd.def)
				if err != nil {
					return nil, err
				}
				cv, err := eng.cast(v, cd.typ, castAssign, isUntypedLit(cd.def))
				if err != nil {
					return nil, wrapErr(err, "default of column "+cd.name)
				}
				row[c] = cv
			}
		}
		if err := checkNotNull(td, row); err != nil {
			return nil, err
		}
		// conflict handling: arbiter first
		if arbiter != nil || (s.OnConflict != nil && s.OnConflict.DoNothing) {
			ci := -1
			if arbiter != nil {
				if ci, err = findConflict(td, arbiter, row, -1); err != nil {
					return nil, err
				}
			} else {
				for _, u := range def.uniques {
					if ci, err = findConflict(td, u, row, -1); err != nil {
						return nil, err
					}
					if ci >= 0 {
						break
					}
				}
			}
			if ci >= 0 {
				if s.OnConflict.DoNothing {
					continue
				}
				if touched[ci] {
					return nil, errf("cardinality_violation", "ON CONFLICT DO UPDATE command cannot affect row a second time")
				}
				existing := td.rows[ci]
				q := ev.child()
				q.rtes = []*rte{{alias: def.name, rel: tableRel(td)}, {alias: "excluded", rel: tableRel(td), qualOnly: true}}
				q.cur = [][]Value{existing, row}
				if s.OnConflict.Where != nil {
					ok, err := q.evalBool(s.OnConflict.Where)
					if err != nil {
						return nil, err
					}
					if !ok {
						continue
					}
				}
				nr := append([]Value(nil), existing...)
				for _, sc := range s.OnConflict.Set {
					c := def.colIdx[sc.Column]
					v, err := q.eval(sc.Value)
					if err != nil {
						return nil, err
					}
					cv, err := eng.cast(v, def.cols[c].typ, castAssign, isUntypedLit(sc.Value))
					if err != nil {
						return nil, wrapErr(err, "column "+sc.Column)
					}
					nr[c] = cv
				}
				if err := checkNotNull(td, nr); err != nil {
					return nil, err
				}
				for _, u := range def.uniques {
					k, err := findConflict(td, u, nr, ci)
					if err != nil {
						return nil, err
					}
					if k >= 0 {
						return nil, uniqueViolation(td, u, nr)
					}
				}
				td.rows[ci] = nr
				touched[ci] = true
				events = append(events, trigEvent{op: "update", newRow: nr, oldRow: existing})
				affected = append(affected, nr)
				continue
			}
		}
		for _, u := range def.uniques {
			k, err := findConflict(td, u, row, -1)
			if err != nil {
				return nil, err
			}
			if k >= 0 {
				return nil, uniqueViolation(td, u, row)
			}
		}
		td.rows = append(td.rows, row)
		touched[len(td.rows)-1] = true
		events = append(events, trigEvent{op: "insert", newRow: row})
		affected = append(affected, row)
	}
	ev.s.rowCount = len(affected)
	n := len(affected)
	if err := ev.fireTriggers(td, events); err != nil {
		return nil, err
	}
	rel, err := ev.returning(s.Returning, td, def.name, affected)
	ev.s.rowCount = n
	return rel, err
}

func (ev *env) execUpdate(s *UpdateStmt) (*relation, error) {
	td, err := ev.tableFor(s.Table)
	if err != nil {
		return nil, err
	}
	eng := ev.eng()
	def := td.def
	alias := s.Alias
	if alias == "" {
		alias = def.name
	}
	seenCol := map[string]bool{}
	for _, sc := range s.Set {
		if _, ok := def.colIdx[sc.Column]; !ok {
			return nil, errf("undefined_column", "column %q of relation %q does not exist", sc.Column, def.name)
		}
		if seenCol[sc.Column] {
			return nil, errf("syntax_error", "multiple assignments to same column %q", sc.Column)
		}
		seenCol[sc.Column] = true
	}
	q := ev.child()
	q.rtes = []*rte{{alias: alias, rel: tableRel(td)}}
	type upd struct {
		idx int
		nr  []Value
	}
	var upds []upd
	for i, row := range td.rows {
		q.cur = [][]Value{row}
		if s.Where != nil {
			ok, err := q.evalBool(s.Where)
			if err != nil {
				return nil, err
			}
			if !ok {
				continue
			}
		}
		nr := append([]Value(nil), row...)
		for _, sc := range s.Set {
			c := def.colIdx[sc.Column]
			v, err := q.eval(sc.Value)
			if err != nil {
				return nil, err
			}
			cv, err := eng.cast(v, def.cols[c].typ, castAssign, isUntypedLit(sc.Value))
			if err != nil {
				return nil, wrapErr(err, "column "+sc.Column+" of "+def.name)
			}
			nr[c] = cv
		}
		if err := checkNotNull(td, nr); err != nil {
			return nil, err
		}
		upds = append(upds, upd{idx: i, nr: nr})
	}
	var events []trigEvent
	var affected [][]Value
	if len(upds) > 0 {
		td.own()
	}
	for _, u := range upds {
		old := td.rows[u.idx]
		for _, ux := range def.uniques {
			changed := false
			for _, c := range ux.cols {
				if cmp, err := compareNullable(old[c], u.nr[c]); err != nil || cmp != 0 {
					changed = true
				}
			}
			if !changed {
				continue
			}
			k, err := findConflict(td, ux, u.nr, u.idx)
			if err != nil {
				return nil, err
			}
			if k >= 0 {
				return nil, uniqueViolation(td, ux, u.nr)
			}
		}
		td.rows[u.idx] = u.nr
		events = append(events, trigEvent{op: "update", newRow: u.nr, oldRow: old})
		affected = append(affected, u.nr)
	}
	n := len(affected)
	if err := ev.fireTriggers(td, events); err != nil {
		return nil, err
	}
	rel, err := ev.returning(s.Returning, td, alias, affected)
	ev.s.rowCount = n
	return rel, err
}

func (ev *env) execDelete(s *DeleteStmt) (*relation, error) {
	td, err := ev.tableFor(s.Table)
	if err != nil {
		return nil, err
	}
	def := td.def
	alias := s.Alias
	if alias == "" {
		alias = def.name
	}
	q := ev.child()
	q.rtes = []*rte{{alias: alias, rel: tableRel(td)}}
	var kept, gone [][]Value
	for _, row := range td.rows {
		q.cur = [][]Value{row}
		del := true
		if s.Where != nil {
			if del, err = q.evalBool(s.Where); err != nil {
				return nil, err
			}
		}
		if del {
			gone = append(gone, row)
		} else {
			kept = append(kept, row)
		}
	}
	var events []trigEvent
	if len(gone) > 0 {
		td.rows = kept
		td.cow = false
		for _, r := range gone {
			events = append(events, trigEvent{op: "delete", oldRow: r})
		}
	}
	n := len(gone)
	if err := ev.fireTriggers(td, events); err != nil {
		return nil, err
	}
	rel, err := ev.returning(s.Returning, td, alias, gone)
	ev.s.rowCount = n
	return rel, err
}
