package minipg

import (
	"math/big"
	"sort"
	"strings"
	"unicode/utf16"
	"unicode/utf8"
)

// JSONKind discriminates JSON values.
type JSONKind uint8

const (
	JSONNull JSONKind = iota
	JSONString
	JSONNumber
	JSONBool
	JSONArray
	JSONObject
)

// JSON is a canonical jsonb value. Objects have unique keys stored in jsonb order (shorter keys first, then bytewise);
// numbers are kept as PostgreSQL-normalised numeric text. JSON values are immutable once built.
type JSON struct {
	Kind  JSONKind
	Str   string // JSONString: the string; JSONNumber: numeric text
	Bool  bool
	Elems []JSON   // JSONArray
	Keys  []string // JSONObject
	Vals  []JSON   // JSONObject, parallel to Keys
}

func jsonString(s string) JSON { return JSON{Kind: JSONString, Str: s} }
func jsonNumberFromInt(n *big.Int) JSON {
	return JSON{Kind: JSONNumber, Str: n.String()}
}

func jsonKeyLess(a, b string) bool {
	if len(a) != len(b) {
		return len(a) < len(b)
	}
	return a < b
}

// newJSONObject builds an object from pairs in input order: duplicate keys keep the LAST value.
func newJSONObject(keys []string, vals []JSON) JSON {
	sorted := true
	for i := 1; i < len(keys); i++ {
		if !jsonKeyLess(keys[i-1], keys[i]) {
			sorted = false
			break
		}
	}
	if sorted { // already in jsonb order without duplicates
		return JSON{Kind: JSONObject, Keys: keys, Vals: vals}
	}
	idx := make([]int, len(keys))
	for i := range idx {
		idx[i] = i
	}
	sort.SliceStable(idx, func(a, b int) bool { return jsonKeyLess(keys[idx[a]], keys[idx[b]]) })
	ok := make([]string, 0, len(keys))
	ov := make([]JSON, 0, len(keys))
	for _, i := range idx {
		if n := len(ok); n > 0 && ok[n-1] == keys[i] {
			ov[n-1] = vals[i] // stable sort: later input comes later, so last wins
			continue
		}
		ok = append(ok, keys[i])
		ov = append(ov, vals[i])
	}
	return JSON{Kind: JSONObject, Keys: ok, Vals: ov}
}

// ---------------------------------------------------------------------------------------------------------------------
// Parsing

type jsonParser struct {
	s   string
	pos int
}

// ParseJSON parses JSON text into canonical jsonb form.
func ParseJSON(s string) (JSON, error) {
	p := &jsonParser{s: s}
	p.ws()
	v, err := p.value(0)
	if err != nil {
		return JSON{}, err
	}
	p.ws()
	if p.pos != len(p.s) {
		return JSON{}, p.err("unexpected trailing characters")
	}
	return v, nil
}

func (p *jsonParser) err(msg string) error {
	t := p.s
	if len(t) > 60 {
		t = t[:60] + "..."
	}
	return errf("invalid_text_representation", "invalid input syntax for type json: %s at offset %d of %q", msg, p.pos, t)
}

func (p *jsonParser) ws() {
	for p.pos < len(p.s) {
		switch p.s[p.pos] {
		case ' ', '\t', '\n', '\r':
			p.pos++
		default:
			return
		}
	}
}

func (p *jsonParser) value(depth int) (JSON, error) {
	if depth > 2000 {
		return JSON{}, p.err("nesting too deep")
	}
	if p.pos >= len(p.s) {
		return JSON{}, p.err("unexpected end of input")
	}
	switch c := p.s[p.pos]; {
	case c == '{':
		p.pos++
		var keys []string
		var vals []JSON
		p.ws()
		if p.pos < len(p.s) && p.s[p.pos] == '}' {
			p.pos++
			return JSON{Kind: JSONObject}, nil
		}
		for {
			p.ws()
			if p.pos >= len(p.s) || p.s[p.pos] != '"' {
				return JSON{}, p.err("expected string key")
			}
			k, err := p.str()
			if err != nil {
				return JSON{}, err
			}
			p.ws()
			if p.pos >= len(p.s) || p.s[p.pos] != ':' {
				return JSON{}, p.err("expected ':'")
			}
			p.pos++
			p.ws()
			v, err := p.value(depth + 1)
			if err != nil {
				return JSON{}, err
			}
			keys = append(keys, k)
			vals = append(vals, v)
			p.ws()
			if p.pos < len(p.s) && p.s[p.pos] == ',' {
				p.pos++
				continue
			}
			if p.pos < len(p.s) && p.s[p.pos] == '}' {
				p.pos++
				return newJSONObject(keys, vals), nil
			}
			return JSON{}, p.err("expected ',' or '}'")
		}
	case c == '[':
		p.pos++
		elems := []JSON{}
		p.ws()
		if p.pos < len(p.s) && p.s[p.pos] == ']' {
			p.pos++
			return JSON{Kind: JSONArray, Elems: elems}, nil
		}
		for {
			p.ws()
			v, err := p.value(depth + 1)
			if err != nil {
				return JSON{}, err
			}
			elems = append(elems, v)
			p.ws()
			if p.pos < len(p.s) && p.s[p.pos] == ',' {
				p.pos++
				continue
			}
			if p.pos < len(p.s) && p.s[p.pos] == ']' {
				p.pos++
				return JSON{Kind: JSONArray, Elems: elems}, nil
			}
			return JSON{}, p.err("expected ',' or ']'")
		}
	case c == '"':
		s, err := p.str()
		if err != nil {
			return JSON{}, err
		}
		return jsonString(s), nil
	case c == 't' && strings.HasPrefix(p.s[p.pos:], "true"):
		p.pos += 4
		return JSON{Kind: JSONBool, Bool: true}, nil
	case c == 'f' && strings.HasPrefix(p.s[p.pos:], "false"):
		p.pos += 5
		return JSON{Kind: JSONBool, Bool: false}, nil
	case c == 'n' && strings.HasPrefix(p.s[p.pos:], "null"):
		p.pos += 4
		return JSON{Kind: JSONNull}, nil
	case c == '-' || (c >= '0' && c <= '9'):
		return p.number()
	}
	return JSON{}, p.err("unexpected character")
}

func (p *jsonParser) str() (string, error) {
	p.pos++ // opening quote
	var sb strings.Builder
	for {
		if p.pos >= len(p.s) {
			return "", p.err("unterminated string")
		}
		c := p.s[p.pos]
		switch {
		case c == '"':
			p.pos++
			return sb.String(), nil
		case c < 0x20:
			return "", p.err("control character in string")
		case c == '\\':
			p.pos++
			if p.pos >= len(p.s) {
				return "", p.err("unterminated escape")
			}
			e := p.s[p.pos]
			p.pos++
			switch e {
			case '"', '\\', '/':
				sb.WriteByte(e)
			case 'b':
				sb.WriteByte('\b')
			case 'f':
				sb.WriteByte('\f')
			case 'n':
				sb.WriteByte('\n')
			case 'r':
				sb.WriteByte('\r')
			case 't':
				sb.WriteByte('\t')
			case 'u':
				r, err := p.hex4()
				if err != nil {
					return "", err
				}
				if utf16.IsSurrogate(rune(r)) {
					if r >= 0xDC00 || !strings.HasPrefix(p.s[p.pos:], `\u`) {
						return "", p.err("invalid unicode surrogate pair")
					}
					p.pos += 2
					r2, err := p.hex4()
					if err != nil {
						return "", err
					}
					if r2 < 0xDC00 || r2 > 0xDFFF {
						return "", p.err("invalid unicode surrogate pair")
					}
					sb.WriteRune(utf16.DecodeRune(rune(r), rune(r2)))
				} else {
					if r == 0 {
						return "", errf("untranslatable_character", `unsupported Unicode escape sequence: \u0000 cannot be converted to text`)
					}
					sb.WriteRune(rune(r))
				}
			default:
				return "", p.err("invalid escape sequence")
			}
		default:
			_, n := utf8.DecodeRuneInString(p.s[p.pos:])
			sb.WriteString(p.s[p.pos : p.pos+n])
			p.pos += n
		}
	}
}

func (p *jsonParser) hex4() (int, error) {
	if p.pos+4 > len(p.s) {
		return 0, p.err("truncated \\u escape")
	}
	n := 0
	for i := 0; i < 4; i++ {
		c := p.s[p.pos+i]
		switch {
		case c >= '0' && c <= '9':
			n = n*16 + int(c-'0')
		case c >= 'a' && c <= 'f':
			n = n*16 + int(c-'a') + 10
		case c >= 'A' && c <= 'F':
			n = n*16 + int(c-'A') + 10
		default:
			return 0, p.err("invalid \\u escape")
		}
	}
	p.pos += 4
	return n, nil
}

func (p *jsonParser) number() (JSON, error) {
	start := p.pos
	neg := false
	if p.s[p.pos] == '-' {
		neg = true
		p.pos++
	}
	is := p.pos
	for p.pos < len(p.s) && p.s[p.pos] >= '0' && p.s[p.pos] <= '9' {
		p.pos++
	}
	intPart := p.s[is:p.pos]
	if intPart == "" || (len(intPart) > 1 && intPart[0] == '0') {
		p.pos = start
		return JSON{}, p.err("invalid number")
	}
	frac := ""
	if p.pos < len(p.s) && p.s[p.pos] == '.' {
		p.pos++
		fs := p.pos
		for p.pos < len(p.s) && p.s[p.pos] >= '0' && p.s[p.pos] <= '9' {
			p.pos++
		}
		frac = p.s[fs:p.pos]
		if frac == "" {
			return JSON{}, p.err("invalid number")
		}
	}
	exp := int64(0)
	if p.pos < len(p.s) && (p.s[p.pos] == 'e' || p.s[p.pos] == 'E') {
		p.pos++
		eneg := false
		if p.pos < len(p.s) && (p.s[p.pos] == '+' || p.s[p.pos] == '-') {
			eneg = p.s[p.pos] == '-'
			p.pos++
		}
		es := p.pos
		for p.pos < len(p.s) && p.s[p.pos] >= '0' && p.s[p.pos] <= '9' {
			p.pos++
		}
		if es == p.pos {
			return JSON{}, p.err("invalid number")
		}
		if p.pos-es > 6 {
			return JSON{}, errf("numeric_value_out_of_range", "value overflows numeric format")
		}
		exp = atoi(p.s[es:p.pos])
		if eneg {
			exp = -exp
		}
	}
	return JSON{Kind: JSONNumber, Str: canonNumeric(neg, intPart, frac, exp)}, nil
}

// canonNumeric reproduces numeric_in + numeric_out: value = digits * 10^exp, display scale = max(0, len(frac)-exp).
func canonNumeric(neg bool, intPart, frac string, exp int64) string {
	mant, _ := new(big.Int).SetString(intPart+frac, 10)
	scale := int64(len(frac)) - exp
	var out string
	if scale <= 0 {
		if scale < 0 {
			mant.Mul(mant, new(big.Int).Exp(big.NewInt(10), big.NewInt(-scale), nil))
		}
		out = mant.String()
	} else {
		s := mant.String()
		for int64(len(s)) < scale+1 {
			s = "0" + s
		}
		out = s[:int64(len(s))-scale] + "." + s[int64(len(s))-scale:]
	}
	if neg && mant.Sign() != 0 {
		out = "-" + out
	}
	return out
}

// ---------------------------------------------------------------------------------------------------------------------
// Output

func quoteJSONString(s string) string {
	var sb strings.Builder
	writeJSONString(&sb, s)
	return sb.String()
}

func writeJSONString(sb *strings.Builder, s string) {
	const hexd = "0123456789abcdef"
	sb.WriteByte('"')
	for i := 0; i < len(s); i++ {
		c := s[i]
		switch c {
		case '"':
			sb.WriteString(`\"`)
		case '\\':
			sb.WriteString(`\\`)
		case '\b':
			sb.WriteString(`\b`)
		case '\f':
			sb.WriteString(`\f`)
		case '\n':
			sb.WriteString(`\n`)
		case '\r':
			sb.WriteString(`\r`)
		case '\t':
			sb.WriteString(`\t`)
		default:
			if c < 0x20 {
				sb.WriteString(`\u00`)
				sb.WriteByte(hexd[c>>4])
				sb.WriteByte(hexd[c&15])
			} else {
				sb.WriteByte(c)
			}
		}
	}
	sb.WriteByte('"')
}

// String renders jsonb text exactly as PostgreSQL prints it: {"a": 1, "b": [1, 2]}.
func (j JSON) String() string {
	var sb strings.Builder
	j.write(&sb)
	return sb.String()
}

func (j JSON) write(sb *strings.Builder) {
	switch j.Kind {
	case JSONNull:
		sb.WriteString("null")
	case JSONString:
		writeJSONString(sb, j.Str)
	case JSONNumber:
		sb.WriteString(j.Str)
	case JSONBool:
		if j.Bool {
			sb.WriteString("true")
		} else {
			sb.WriteString("false")
		}
	case JSONArray:
		sb.WriteByte('[')
		for i, e := range j.Elems {
			if i > 0 {
				sb.WriteString(", ")
			}
			e.write(sb)
		}
		sb.WriteByte(']')
	case JSONObject:
		sb.WriteByte('{')
		for i, k := range j.Keys {
			if i > 0 {
				sb.WriteString(", ")
			}
			writeJSONString(sb, k)
			sb.WriteString(": ")
			j.Vals[i].write(sb)
		}
		sb.WriteByte('}')
	}
}

// Pretty renders like jsonb_pretty (4-space indentation).
func (j JSON) Pretty() string {
	var sb strings.Builder
	j.pretty(&sb, 0)
	return sb.String()
}

func (j JSON) pretty(sb *strings.Builder, level int) {
	indent := func(n int) {
		sb.WriteByte('\n')
		for i := 0; i < n; i++ {
			sb.WriteString("    ")
		}
	}
	switch j.Kind {
	case JSONArray:
		sb.WriteByte('[')
		for i, e := range j.Elems {
			if i > 0 {
				sb.WriteByte(',')
			}
			indent(level + 1)
			e.pretty(sb, level+1)
		}
		indent(level)
		sb.WriteByte(']')
	case JSONObject:
		sb.WriteByte('{')
		for i, k := range j.Keys {
			if i > 0 {
				sb.WriteByte(',')
			}
			indent(level + 1)
			writeJSONString(sb, k)
			sb.WriteString(": ")
			j.Vals[i].pretty(sb, level+1)
		}
		indent(level)
		sb.WriteByte('}')
	default:
		j.write(sb)
	}
}

// ---------------------------------------------------------------------------------------------------------------------
// Comparison

func numRat(s string) *big.Rat {
	r, ok := new(big.Rat).SetString(s)
	if !ok {
		return new(big.Rat)
	}
	return r
}

func jsonNumEqual(a, b string) bool {
	if a == b {
		return true
	}
	return numRat(a).Cmp(numRat(b)) == 0
}

func (j JSON) isScalar() bool { return j.Kind != JSONArray && j.Kind != JSONObject }

// Equal is jsonb equality (numbers compare numerically).
func (j JSON) Equal(o JSON) bool {
	if j.Kind != o.Kind {
		return false
	}
	switch j.Kind {
	case JSONNull:
		return true
	case JSONString:
		return j.Str == o.Str
	case JSONNumber:
		return jsonNumEqual(j.Str, o.Str)
	case JSONBool:
		return j.Bool == o.Bool
	case JSONArray:
		if len(j.Elems) != len(o.Elems) {
			return false
		}
		for i := range j.Elems {
			if !j.Elems[i].Equal(o.Elems[i]) {
				return false
			}
		}
		return true
	case JSONObject:
		if len(j.Keys) != len(o.Keys) {
			return false
		}
		for i := range j.Keys {
			if j.Keys[i] != o.Keys[i] || !j.Vals[i].Equal(o.Vals[i]) {
				return false
			}
		}
		return true
	}
	return false
}

// keyString: canonical text in which numerically equal numbers are spelled identically.
func (j JSON) keyString() string {
	var sb strings.Builder
	j.writeKey(&sb)
	return sb.String()
}

func (j JSON) writeKey(sb *strings.Builder) {
	switch j.Kind {
	case JSONNumber:
		s := j.Str
		if strings.Contains(s, ".") {
			s = strings.TrimRight(s, "0")
			s = strings.TrimSuffix(s, ".")
		}
		if s == "-0" || s == "" {
			s = "0"
		}
		sb.WriteString(s)
	case JSONArray:
		sb.WriteByte('[')
		for i, e := range j.Elems {
			if i > 0 {
				sb.WriteByte(',')
			}
			e.writeKey(sb)
		}
		sb.WriteByte(']')
	case JSONObject:
		sb.WriteByte('{')
		for i, k := range j.Keys {
			if i > 0 {
				sb.WriteByte(',')
			}
			writeJSONString(sb, k)
			sb.WriteByte(':')
			j.Vals[i].writeKey(sb)
		}
		sb.WriteByte('}')
	default:
		j.write(sb)
	}
}

// jsonb btree order: Object > Array > Boolean > Number > String > Null; containers with more members are greater.
func jsonRank(k JSONKind) int {
	switch k {
	case JSONNull:
		return 0
	case JSONString:
		return 1
	case JSONNumber:
		return 2
	case JSONBool:
		return 3
	case JSONArray:
		return 4
	}
	return 5
}

func compareJSON(a, b JSON) int {
	if a.Kind != b.Kind {
		if jsonRank(a.Kind) < jsonRank(b.Kind) {
			return -1
		}
		return 1
	}
	switch a.Kind {
	case JSONString:
		return strings.Compare(a.Str, b.Str)
	case JSONNumber:
		return numRat(a.Str).Cmp(numRat(b.Str))
	case JSONBool:
		switch {
		case a.Bool == b.Bool:
			return 0
		case !a.Bool:
			return -1
		}
		return 1
	case JSONArray:
		if len(a.Elems) != len(b.Elems) {
			if len(a.Elems) < len(b.Elems) {
				return -1
			}
			return 1
		}
		for i := range a.Elems {
			if c := compareJSON(a.Elems[i], b.Elems[i]); c != 0 {
				return c
			}
		}
	case JSONObject:
		if len(a.Keys) != len(b.Keys) {
			if len(a.Keys) < len(b.Keys) {
				return -1
			}
			return 1
		}
		for i := range a.Keys {
			if a.Keys[i] != b.Keys[i] {
				if jsonKeyLess(a.Keys[i], b.Keys[i]) {
					return -1
				}
				return 1
			}
			if c := compareJSON(a.Vals[i], b.Vals[i]); c != 0 {
				return c
			}
		}
	}
	return 0
}

// ---------------------------------------------------------------------------------------------------------------------
// Operators

// Get returns the member for key (objects only).
func (j JSON) Get(key string) (JSON, bool) {
	if j.Kind != JSONObject {
		return JSON{}, false
	}
	i := sort.Search(len(j.Keys), func(i int) bool { return !jsonKeyLess(j.Keys[i], key) })
	if i < len(j.Keys) && j.Keys[i] == key {
		return j.Vals[i], true
	}
	return JSON{}, false
}

// Index returns the array element at i (negative counts from the end).
func (j JSON) Index(i int) (JSON, bool) {
	if j.Kind != JSONArray {
		return JSON{}, false
	}
	if i < 0 {
		i += len(j.Elems)
	}
	if i < 0 || i >= len(j.Elems) {
		return JSON{}, false
	}
	return j.Elems[i], true
}

func jsonConcat(a, b JSON) JSON {
	if a.Kind == JSONObject && b.Kind == JSONObject {
		keys := append(append([]string{}, a.Keys...), b.Keys...)
		vals := append(append([]JSON{}, a.Vals...), b.Vals...)
		return newJSONObject(keys, vals)
	}
	elems := []JSON{}
	add := func(x JSON) {
		if x.Kind == JSONArray {
			elems = append(elems, x.Elems...)
		} else {
			elems = append(elems, x)
		}
	}
	add(a)
	add(b)
	return JSON{Kind: JSONArray, Elems: elems}
}

func jsonDeleteKey(a JSON, key string) (JSON, error) {
	switch a.Kind {
	case JSONObject:
		keys := make([]string, 0, len(a.Keys))
		vals := make([]JSON, 0, len(a.Keys))
		for i, k := range a.Keys {
			if k != key {
				keys = append(keys, k)
				vals = append(vals, a.Vals[i])
			}
		}
		return JSON{Kind: JSONObject, Keys: keys, Vals: vals}, nil
	case JSONArray:
		elems := []JSON{}
		for _, e := range a.Elems {
			if !(e.Kind == JSONString && e.Str == key) {
				elems = append(elems, e)
			}
		}
		return JSON{Kind: JSONArray, Elems: elems}, nil
	}
	return JSON{}, errf("invalid_parameter_value", "cannot delete from scalar")
}

func jsonDeleteIndex(a JSON, idx int) (JSON, error) {
	switch a.Kind {
	case JSONArray:
		if idx < 0 {
			idx += len(a.Elems)
		}
		if idx < 0 || idx >= len(a.Elems) {
			return a, nil
		}
		elems := append(append([]JSON{}, a.Elems[:idx]...), a.Elems[idx+1:]...)
		return JSON{Kind: JSONArray, Elems: elems}, nil
	case JSONObject:
		return JSON{}, errf("invalid_parameter_value", "cannot delete from object using integer index")
	}
	return JSON{}, errf("invalid_parameter_value", "cannot delete from scalar")
}

// jsonContains implements a @> b.
func jsonContains(a, b JSON) bool {
	if a.isScalar() || b.isScalar() {
		switch {
		case a.isScalar() && b.isScalar():
			return a.Equal(b)
		case a.Kind == JSONArray && b.isScalar():
			// top-level special case: an array contains a primitive
			for _, e := range a.Elems {
				if e.isScalar() && e.Equal(b) {
					return true
				}
			}
			return false
		}
		return false
	}
	return jsonDeepContains(a, b)
}

func jsonDeepContains(a, b JSON) bool {
	if a.Kind != b.Kind {
		return false
	}
	if a.Kind == JSONObject {
		if len(a.Keys) < len(b.Keys) {
			return false
		}
		for i, k := range b.Keys {
			av, ok := a.Get(k)
			if !ok {
				return false
			}
			bv := b.Vals[i]
			if av.Kind != bv.Kind {
				return false
			}
			if bv.isScalar() {
				if !av.Equal(bv) {
					return false
				}
			} else if !jsonDeepContains(av, bv) {
				return false
			}
		}
		return true
	}
	// arrays: every element of b must be matched by some element of a
	for _, be := range b.Elems {
		found := false
		for _, ae := range a.Elems {
			if be.isScalar() {
				if ae.isScalar() && ae.Equal(be) {
					found = true
					break
				}
			} else if ae.Kind == be.Kind && jsonDeepContains(ae, be) {
				found = true
				break
			}
		}
		if !found {
			return false
		}
	}
	return true
}
