package minipg

import (
	"fmt"
	"strings"
)

// TokKind is the lexical class of a token.
type TokKind int

const (
	TEOF TokKind = iota
	TIdent
	TQuotedIdent
	TString
	TDollarString
	TNumber
	TParam // $1
	TOp
)

// Token is one lexical token. Text is lower-cased for unquoted identifiers, the unescaped content for strings and
// quoted identifiers, and the operator spelling for operators/punctuation.
type Token struct {
	Kind TokKind
	Text string
	Pos  int // byte offset in the source
	End  int
}

func (t Token) String() string {
	switch t.Kind {
	case TEOF:
		return "end of input"
	case TString:
		return "'" + t.Text + "'"
	case TDollarString:
		return "$$...$$"
	}
	return t.Text
}

func isIdentStart(c byte) bool {
	return c == '_' || (c >= 'a' && c <= 'z') || (c >= 'A' && c <= 'Z') || c >= 0x80
}

func isIdentPart(c byte) bool {
	return isIdentStart(c) || (c >= '0' && c <= '9') || c == '$'
}

const opChars = "+-*/<>=~!@#%^&|`?"

// Lex tokenises SQL text. base is added to all positions (used for function bodies so that positions refer to the file).
func Lex(src string, base int) ([]Token, error) {
	toks := make([]Token, 0, len(src)/4+8)
	i := 0
	n := len(src)
	for i < n {
		c := src[i]
		switch {
		case c == ' ' || c == '\t' || c == '\n' || c == '\r' || c == '\f':
			i++
		case c == '-' && i+1 < n && src[i+1] == '-':
			for i < n && src[i] != '\n' {
				i++
			}
		case c == '/' && i+1 < n && src[i+1] == '*':
			depth := 1
			j := i + 2
			for j < n && depth > 0 {
				switch {
				case src[j] == '/' && j+1 < n && src[j+1] == '*':
					depth++
					j += 2
				case src[j] == '*' && j+1 < n && src[j+1] == '/':
					depth--
					j += 2
				default:
					j++
				}
			}
			if depth > 0 {
				return nil, lexErr(src, base, i, "unterminated /* comment")
			}
			i = j
		case c == '\'' || ((c == 'e' || c == 'E') && i+1 < n && src[i+1] == '\''):
			start := i
			esc := false
			if c != '\'' {
				esc = true
				i++
			}
			i++
			var sb strings.Builder
			closed := false
			for i < n {
				ch := src[i]
				if ch == '\'' {
					if i+1 < n && src[i+1] == '\'' {
						sb.WriteByte('\'')
						i += 2
						continue
					}
					i++
					closed = true
					break
				}
				if esc && ch == '\\' && i+1 < n {
					i++
					switch src[i] {
					case 'n':
						sb.WriteByte('\n')
					case 't':
						sb.WriteByte('\t')
					case 'r':
						sb.WriteByte('\r')
					case 'b':
						sb.WriteByte('\b')
					case 'f':
						sb.WriteByte('\f')
					case '\\', '\'', '"':
						sb.WriteByte(src[i])
					default:
						return nil, lexErr(src, base, i, "unsupported escape in E'' string")
					}
					i++
					continue
				}
				sb.WriteByte(ch)
				i++
			}
			if !closed {
				return nil, lexErr(src, base, start, "unterminated string literal")
			}
			toks = append(toks, Token{Kind: TString, Text: sb.String(), Pos: base + start, End: base + i})
		case c == '"':
			start := i
			i++
			var sb strings.Builder
			closed := false
			for i < n {
				if src[i] == '"' {
					if i+1 < n && src[i+1] == '"' {
						sb.WriteByte('"')
						i += 2
						continue
					}
					i++
					closed = true
					break
				}
				sb.WriteByte(src[i])
				i++
			}
			if !closed || sb.Len() == 0 {
				return nil, lexErr(src, base, start, "bad quoted identifier")
			}
			toks = append(toks, Token{Kind: TQuotedIdent, Text: sb.String(), Pos: base + start, End: base + i})
		case c == '$':
			start := i
			if i+1 < n && src[i+1] >= '0' && src[i+1] <= '9' {
				j := i + 1
				for j < n && src[j] >= '0' && src[j] <= '9' {
					j++
				}
				toks = append(toks, Token{Kind: TParam, Text: src[i+1 : j], Pos: base + start, End: base + j})
				i = j
				break
			}
			// dollar quote: $tag$ ... $tag$
			j := i + 1
			for j < n && isIdentPart(src[j]) && src[j] != '$' {
				j++
			}
			if j >= n || src[j] != '$' {
				return nil, lexErr(src, base, start, "unexpected '$'")
			}
			tag := src[i : j+1]
			end := strings.Index(src[j+1:], tag)
			if end < 0 {
				return nil, lexErr(src, base, start, "unterminated dollar-quoted string")
			}
			body := src[j+1 : j+1+end]
			i = j + 1 + end + len(tag)
			// Pos of a dollar string is the offset of its BODY (so nested positions are file offsets)
			toks = append(toks, Token{Kind: TDollarString, Text: body, Pos: base + j + 1, End: base + i})
		case c >= '0' && c <= '9' || (c == '.' && i+1 < n && src[i+1] >= '0' && src[i+1] <= '9'):
			start := i
			for i < n && src[i] >= '0' && src[i] <= '9' {
				i++
			}
			if i < n && src[i] == '.' && !(i+1 < n && src[i+1] == '.') {
				i++
				for i < n && src[i] >= '0' && src[i] <= '9' {
					i++
				}
			}
			if i < n && (src[i] == 'e' || src[i] == 'E') {
				j := i + 1
				if j < n && (src[j] == '+' || src[j] == '-') {
					j++
				}
				if j < n && src[j] >= '0' && src[j] <= '9' {
					for j < n && src[j] >= '0' && src[j] <= '9' {
						j++
					}
					i = j
				}
			}
			toks = append(toks, Token{Kind: TNumber, Text: src[start:i], Pos: base + start, End: base + i})
		case isIdentStart(c):
			start := i
			for i < n && isIdentPart(src[i]) {
				i++
			}
			toks = append(toks, Token{Kind: TIdent, Text: strings.ToLower(src[start:i]), Pos: base + start, End: base + i})
		case c == '(' || c == ')' || c == ',' || c == ';' || c == '[' || c == ']' || c == '.':
			toks = append(toks, Token{Kind: TOp, Text: string(c), Pos: base + i, End: base + i + 1})
			i++
		case c == ':':
			if i+1 < n && (src[i+1] == ':' || src[i+1] == '=') {
				toks = append(toks, Token{Kind: TOp, Text: src[i : i+2], Pos: base + i, End: base + i + 2})
				i += 2
			} else {
				toks = append(toks, Token{Kind: TOp, Text: ":", Pos: base + i, End: base + i + 1})
				i++
			}
		case strings.IndexByte(opChars, c) >= 0:
			start := i
			for i < n && strings.IndexByte(opChars, src[i]) >= 0 {
				// stop before a comment start
				if (src[i] == '-' && i+1 < n && src[i+1] == '-') || (src[i] == '/' && i+1 < n && src[i+1] == '*') {
					break
				}
				i++
			}
			op := src[start:i]
			// PostgreSQL rule: a multi-character operator cannot end in + or - unless it contains one of ~!@#%^&|`?
			for len(op) > 1 && (op[len(op)-1] == '+' || op[len(op)-1] == '-') && !strings.ContainsAny(op, "~!@#%^&|`?") {
				op = op[:len(op)-1]
				i--
			}
			if op == "" {
				return nil, lexErr(src, base, start, "bad operator")
			}
			toks = append(toks, Token{Kind: TOp, Text: op, Pos: base + start, End: base + i})
		default:
			return nil, lexErr(src, base, i, fmt.Sprintf("unexpected character %q", c))
		}
	}
	toks = append(toks, Token{Kind: TEOF, Pos: base + n, End: base + n})
	return toks, nil
}

func lexErr(src string, base, pos int, msg string) error {
	return errf("syntax_error", "%s at offset %d", msg, base+pos)
}
