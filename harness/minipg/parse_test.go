package minipg

import (
	"os"
	"testing"
)

const schemaPath = "/repo/internal/storage/ledgerstore/migrations/0-init-schema.sql"

func readSchema(t testing.TB) string {
	b, err := os.ReadFile(schemaPath)
	if err != nil {
		t.Fatal(err)
	}
	return string(b)
}

func TestParseSchema(t *testing.T) {
	stmts, err := ParseStatements(readSchema(t))
	if err != nil {
		t.Fatal(err)
	}
	if len(stmts) < 60 {
		t.Fatalf("only %d statements", len(stmts))
	}
	n := 0
	for _, s := range stmts {
		Walk(s, func(Node) bool { n++; return true })
	}
	t.Logf("%d statements, %d nodes", len(stmts), n)
}
