package minipg

import (
	"fmt"
	"strconv"
	"strings"
)

type parser struct {
	toks []Token
	pos  int
	src  string // text being parsed
	base int    // file offset of src[0]
	pl   bool   // inside PL/pgSQL: SELECT … INTO targets allowed
}

// reserved words that cannot be used as a bare alias / bare column name
var reserved = map[string]bool{
	"select": true, "from": true, "where": true, "group": true, "having": true, "order": true, "limit": true, "offset": true,
	"union": true, "intersect": true, "except": true, "into": true, "on": true, "join": true, "inner": true, "left": true,
	"right": true, "full": true, "cross": true, "natural": true, "returning": true, "as": true, "when": true, "then": true,
	"else": true, "end": true, "and": true, "or": true, "not": true, "is": true, "in": true, "like": true, "ilike": true, "between": true,
	"asc": true, "desc": true, "using": true, "window": true, "for": true, "fetch": true, "lateral": true,
	"null": true, "true": true, "false": true, "case": true, "distinct": true, "all": true, "any": true, "some": true,
	"with": true, "default": true, "do": true, "set": true, "values": true, "create": true, "table": true, "primary": true,
	"unique": true, "references": true, "check": true, "constraint": true, "foreign": true, "array": true, "both": true,
	"isnull": true, "notnull": true, "loop": true, "collate": true, "only": true, "to": true, "exists": false,
}

func newParser(src string, base int) (*parser, error) {
	toks, err := Lex(src, base)
	if err != nil {
		return nil, err
	}
	return &parser{toks: toks, src: src, base: base}, nil
}

func (p *parser) peek() Token { return p.toks[p.pos] }
func (p *parser) peekN(k int) Token {
	if p.pos+k >= len(p.toks) {
		return p.toks[len(p.toks)-1]
	}
	return p.toks[p.pos+k]
}
func (p *parser) next() Token {
	t := p.toks[p.pos]
	if p.pos < len(p.toks)-1 {
		p.pos++
	}
	return t
}
func (p *parser) isKw(w string) bool {
	t := p.peek()
	return t.Kind == TIdent && t.Text == w
}
func (p *parser) isKwN(k int, w string) bool {
	t := p.peekN(k)
	return t.Kind == TIdent && t.Text == w
}
func (p *parser) acceptKw(w string) bool {
	if p.isKw(w) {
		p.next()
		return true
	}
	return false
}
func (p *parser) isOp(op string) bool {
	t := p.peek()
	return t.Kind == TOp && t.Text == op
}
func (p *parser) isOpN(k int, op string) bool {
	t := p.peekN(k)
	return t.Kind == TOp && t.Text == op
}
func (p *parser) acceptOp(op string) bool {
	if p.isOp(op) {
		p.next()
		return true
	}
	return false
}

func lineOf(src string, off int) int {
	if off > len(src) {
		off = len(src)
	}
	if off < 0 {
		off = 0
	}
	return 1 + strings.Count(src[:off], "\n")
}

func (p *parser) errAt(t Token, format string, args ...interface{}) error {
	return errf("syntax_error", "%s (at %s, offset %d)", fmt.Sprintf(format, args...), t.String(), t.Pos)
}
func (p *parser) unsupportedAt(t Token, format string, args ...interface{}) error {
	return unsupported("%s (at %s, offset %d)", fmt.Sprintf(format, args...), t.String(), t.Pos)
}
func (p *parser) expectKw(w string) error {
	if !p.acceptKw(w) {
		return p.errAt(p.peek(), "expected %q", w)
	}
	return nil
}
func (p *parser) expectOp(op string) error {
	if !p.acceptOp(op) {
		return p.errAt(p.peek(), "expected %q", op)
	}
	return nil
}

// ident accepts a quoted identifier or a non-reserved bare identifier.
func (p *parser) ident() (string, error) {
	t := p.peek()
	if t.Kind == TQuotedIdent || (t.Kind == TIdent && !reserved[t.Text]) {
		p.next()
		return t.Text, nil
	}
	return "", p.errAt(t, "expected identifier")
}

// anyIdent accepts any identifier-like token (used after a dot and for names in DDL).
func (p *parser) anyIdent() (string, error) {
	t := p.peek()
	if t.Kind == TQuotedIdent || t.Kind == TIdent {
		p.next()
		return t.Text, nil
	}
	return "", p.errAt(t, "expected identifier")
}

// qualifiedName parses [schema.]name and returns both.
func (p *parser) qualifiedName() (schema, name string, err error) {
	name, err = p.anyIdent()
	if err != nil {
		return
	}
	for p.isOp(".") && (p.peekN(1).Kind == TIdent || p.peekN(1).Kind == TQuotedIdent) {
		p.next()
		schema = name
		name, _ = p.anyIdent()
	}
	return
}

func (p *parser) srcRange(from, to int) string {
	a, b := from-p.base, to-p.base
	if a < 0 {
		a = 0
	}
	if b > len(p.src) {
		b = len(p.src)
	}
	if a > b {
		return ""
	}
	return p.src[a:b]
}

func (p *parser) lastEnd() int {
	if p.pos == 0 {
		return p.base
	}
	return p.toks[p.pos-1].End
}

// ParseStatements parses a sequence of ';'-separated SQL statements into the exported AST. Every construct must be
// understood: an unknown statement or clause yields an error naming the statement (first line and position).
func ParseStatements(sql string) ([]Stmt, error) {
	return parseStatementsAt(sql, 0, sql)
}

func parseStatementsAt(sql string, base int, file string) ([]Stmt, error) {
	p, err := newParser(sql, base)
	if err != nil {
		return nil, err
	}
	var out []Stmt
	for {
		for p.acceptOp(";") {
		}
		if p.peek().Kind == TEOF {
			return out, nil
		}
		start := p.peek()
		st, err := p.parseStatement()
		if err == nil && !p.isOp(";") && p.peek().Kind != TEOF {
			err = p.errAt(p.peek(), "unexpected token after statement")
		}
		if err != nil {
			first := sql[start.Pos-base:]
			if i := strings.IndexByte(first, '\n'); i >= 0 {
				first = first[:i]
			}
			if len(first) > 100 {
				first = first[:100]
			}
			code := "syntax_error"
			if e, ok := err.(*Error); ok {
				code = e.Code
			}
			return nil, &Error{Code: code, Msg: fmt.Sprintf("cannot parse statement %q (line %d, offset %d): %v", strings.TrimSpace(first), lineOf(file, start.Pos), start.Pos, stripPrefix(err))}
		}
		out = append(out, st)
	}
}

func stripPrefix(err error) string {
	if e, ok := err.(*Error); ok {
		if e.Code == "unsupported" {
			return "unsupported: " + e.Msg
		}
		return e.Msg
	}
	return err.Error()
}

func (p *parser) finish(b *stmtBase, start Token) {
	b.Pos = start.Pos
	b.Src = p.srcRange(start.Pos, p.lastEnd())
}

func (p *parser) parseStatement() (Stmt, error) {
	t := p.peek()
	if t.Kind == TOp && t.Text == "(" {
		return p.parseSelect()
	}
	if t.Kind != TIdent {
		return nil, p.errAt(t, "expected a statement")
	}
	switch t.Text {
	case "create":
		return p.parseCreate()
	case "select", "with", "values":
		return p.parseSelect()
	case "insert":
		return p.parseInsert()
	case "update":
		return p.parseUpdate()
	case "delete":
		return p.parseDelete()
	}
	return nil, p.unsupportedAt(t, "statement kind %q", t.Text)
}

// ---------------------------------------------------------------------------------------------------------------------
// Types

var typeHeads = map[string]bool{
	"numeric": true, "decimal": true, "bigint": true, "int": true, "integer": true, "int8": true, "int4": true, "int2": true, "smallint": true,
	"varchar": true, "text": true, "bool": true, "boolean": true, "jsonb": true, "json": true, "timestamp": true, "timestamptz": true,
	"bytea": true, "date": true, "interval": true, "jsonpath": true, "character": true, "char": true, "double": true, "real": true,
	"float": true, "float4": true, "float8": true, "time": true, "uuid": true, "bigserial": true, "serial": true,
}

func (p *parser) parseType() (*Type, error) {
	t := p.peek()
	_, name, err := p.qualifiedName()
	if err != nil {
		return nil, p.errAt(t, "expected type name")
	}
	if t.Kind == TIdent {
		switch name {
		case "timestamp", "time":
			if p.isKw("without") || p.isKw("with") {
				with := p.next().Text == "with"
				if err := p.expectKw("time"); err != nil {
					return nil, err
				}
				if err := p.expectKw("zone"); err != nil {
					return nil, err
				}
				if with {
					name += "tz"
				}
			}
		case "character", "char":
			if p.acceptKw("varying") {
				name = "varchar"
			} else {
				name = "char"
			}
		case "double":
			if err := p.expectKw("precision"); err != nil {
				return nil, err
			}
			name = "float8"
		}
		switch name {
		case "int", "int4":
			name = "integer"
		case "int8":
			name = "bigint"
		case "int2":
			name = "smallint"
		case "boolean":
			name = "bool"
		case "decimal":
			name = "numeric"
		}
	}
	ty := &Type{Name: name}
	if p.isOp("(") && p.peekN(1).Kind == TNumber {
		p.next()
		n, _ := strconv.Atoi(p.next().Text)
		ty.Mod = n
		if p.acceptOp(",") {
			if p.peek().Kind != TNumber {
				return nil, p.errAt(p.peek(), "expected number in type modifier")
			}
			sc := p.next().Text
			if name == "numeric" && sc != "0" {
				return nil, p.unsupportedAt(t, "numeric with non-zero scale")
			}
		}
		if err := p.expectOp(")"); err != nil {
			return nil, err
		}
		if name == "numeric" {
			ty.Mod = 0
		}
	}
	for p.isOp("[") {
		p.next()
		if p.peek().Kind == TNumber {
			p.next()
		}
		if err := p.expectOp("]"); err != nil {
			return nil, err
		}
		if ty.Array {
			return nil, p.unsupportedAt(t, "multi-dimensional array type")
		}
		ty.Array = true
	}
	return ty, nil
}

// ---------------------------------------------------------------------------------------------------------------------
// CREATE …

func (p *parser) parseCreate() (Stmt, error) {
	start := p.next() // create
	orReplace := false
	if p.isKw("or") && p.isKwN(1, "replace") {
		p.next()
		p.next()
		orReplace = true
	}
	t := p.peek()
	switch {
	case p.isKw("table"):
		if orReplace {
			return nil, p.errAt(t, "OR REPLACE not valid here")
		}
		return p.parseCreateTable(start)
	case p.isKw("unique") || p.isKw("index"):
		return p.parseCreateIndex(start)
	case p.isKw("type"):
		return p.parseCreateType(start)
	case p.isKw("function"):
		return p.parseCreateFunction(start, orReplace)
	case p.isKw("aggregate"):
		return p.parseCreateAggregate(start)
	case p.isKw("trigger"):
		return p.parseCreateTrigger(start)
	}
	return nil, p.unsupportedAt(t, "CREATE %s", t.Text)
}

func (p *parser) parseColumnList() ([]string, error) {
	if err := p.expectOp("("); err != nil {
		return nil, err
	}
	var cols []string
	for {
		c, err := p.anyIdent()
		if err != nil {
			return nil, err
		}
		cols = append(cols, c)
		if !p.acceptOp(",") {
			break
		}
	}
	return cols, p.expectOp(")")
}

func (p *parser) parseColumnDef(allowConstraints bool) (*ColumnDef, error) {
	name, err := p.anyIdent()
	if err != nil {
		return nil, err
	}
	ty, err := p.parseType()
	if err != nil {
		return nil, err
	}
	c := &ColumnDef{Name: name, Type: ty}
	for allowConstraints {
		t := p.peek()
		switch {
		case p.isKw("not") && p.isKwN(1, "null"):
			p.next()
			p.next()
			c.NotNull = true
		case p.isKw("null"):
			p.next()
		case p.isKw("default"):
			p.next()
			e, err := p.parseCmp()
			if err != nil {
				return nil, err
			}
			c.Default = e
		case p.isKw("primary"):
			p.next()
			if err := p.expectKw("key"); err != nil {
				return nil, err
			}
			c.PrimaryKey = true
		case p.isKw("unique"):
			p.next()
			c.Unique = true
		case p.isKw("references"):
			p.next()
			_, tn, err := p.qualifiedName()
			if err != nil {
				return nil, err
			}
			c.References = tn
			if p.isOp("(") {
				if _, err := p.parseColumnList(); err != nil {
					return nil, err
				}
			}
			if p.isKw("on") {
				return nil, p.unsupportedAt(p.peek(), "referential action (ON DELETE/UPDATE)")
			}
		case t.Kind == TIdent && (t.Text == "check" || t.Text == "constraint" || t.Text == "generated" || t.Text == "collate"):
			return nil, p.unsupportedAt(t, "column constraint %q", t.Text)
		default:
			return c, nil
		}
	}
	return c, nil
}

func (p *parser) parseCreateTable(start Token) (Stmt, error) {
	p.next() // table
	if p.isKw("if") {
		return nil, p.unsupportedAt(p.peek(), "IF NOT EXISTS")
	}
	_, name, err := p.qualifiedName()
	if err != nil {
		return nil, err
	}
	st := &CreateTable{Name: name}
	if err := p.expectOp("("); err != nil {
		return nil, err
	}
	for {
		switch {
		case p.isKw("primary") && p.isKwN(1, "key"):
			p.next()
			p.next()
			cols, err := p.parseColumnList()
			if err != nil {
				return nil, err
			}
			st.PrimaryKey = cols
		case p.isKw("unique") && p.isOpN(1, "("):
			p.next()
			cols, err := p.parseColumnList()
			if err != nil {
				return nil, err
			}
			st.Uniques = append(st.Uniques, cols)
		case p.isKw("foreign") || p.isKw("constraint") || p.isKw("check") || p.isKw("like") || p.isKw("exclude"):
			return nil, p.unsupportedAt(p.peek(), "table constraint %q", p.peek().Text)
		default:
			c, err := p.parseColumnDef(true)
			if err != nil {
				return nil, err
			}
			st.Columns = append(st.Columns, c)
		}
		if !p.acceptOp(",") {
			break
		}
	}
	if err := p.expectOp(")"); err != nil {
		return nil, err
	}
	p.finish(&st.stmtBase, start)
	return st, nil
}

func (p *parser) parseCreateIndex(start Token) (Stmt, error) {
	st := &CreateIndex{}
	if p.acceptKw("unique") {
		st.Unique = true
	}
	if err := p.expectKw("index"); err != nil {
		return nil, err
	}
	if p.isKw("concurrently") || p.isKw("if") {
		return nil, p.unsupportedAt(p.peek(), "index option %q", p.peek().Text)
	}
	name, err := p.anyIdent()
	if err != nil {
		return nil, err
	}
	st.Name = name
	if err := p.expectKw("on"); err != nil {
		return nil, err
	}
	if _, st.Table, err = p.qualifiedName(); err != nil {
		return nil, err
	}
	if p.acceptKw("using") {
		if st.Using, err = p.anyIdent(); err != nil {
			return nil, err
		}
	}
	if err := p.expectOp("("); err != nil {
		return nil, err
	}
	for {
		el := &IndexElem{}
		switch {
		case p.isOp("("):
			p.next()
			e, err := p.parseExpr()
			if err != nil {
				return nil, err
			}
			if err := p.expectOp(")"); err != nil {
				return nil, err
			}
			el.Expr = e
		case (p.peek().Kind == TIdent || p.peek().Kind == TQuotedIdent) && p.isOpN(1, "("):
			e, err := p.parsePrimary()
			if err != nil {
				return nil, err
			}
			el.Expr = e
		default:
			if el.Column, err = p.anyIdent(); err != nil {
				return nil, err
			}
		}
		// optional opclass, asc/desc, nulls first/last
		for {
			t := p.peek()
			if t.Kind != TIdent {
				break
			}
			if t.Text == "asc" {
				p.next()
			} else if t.Text == "desc" {
				p.next()
				el.Desc = true
			} else if t.Text == "nulls" {
				p.next()
				if !p.acceptKw("first") && !p.acceptKw("last") {
					return nil, p.errAt(p.peek(), "expected FIRST or LAST")
				}
			} else if !reserved[t.Text] {
				p.next() // operator class
			} else {
				break
			}
		}
		st.Elems = append(st.Elems, el)
		if !p.acceptOp(",") {
			break
		}
	}
	if err := p.expectOp(")"); err != nil {
		return nil, err
	}
	if p.acceptKw("include") {
		if st.Include, err = p.parseColumnList(); err != nil {
			return nil, err
		}
	}
	if p.isKw("where") || p.isKw("with") || p.isKw("tablespace") || p.isKw("nulls") {
		return nil, p.unsupportedAt(p.peek(), "index clause %q", p.peek().Text)
	}
	p.finish(&st.stmtBase, start)
	return st, nil
}

func (p *parser) parseCreateType(start Token) (Stmt, error) {
	p.next() // type
	_, name, err := p.qualifiedName()
	if err != nil {
		return nil, err
	}
	if err := p.expectKw("as"); err != nil {
		return nil, err
	}
	if p.acceptKw("enum") {
		st := &CreateTypeEnum{Name: name}
		if err := p.expectOp("("); err != nil {
			return nil, err
		}
		for !p.isOp(")") {
			t := p.next()
			if t.Kind != TString {
				return nil, p.errAt(t, "expected enum label")
			}
			st.Labels = append(st.Labels, t.Text)
			if !p.acceptOp(",") {
				break
			}
		}
		if err := p.expectOp(")"); err != nil {
			return nil, err
		}
		p.finish(&st.stmtBase, start)
		return st, nil
	}
	if !p.isOp("(") {
		return nil, p.unsupportedAt(p.peek(), "CREATE TYPE form")
	}
	p.next()
	st := &CreateTypeComposite{Name: name}
	for {
		c, err := p.parseColumnDef(false)
		if err != nil {
			return nil, err
		}
		st.Fields = append(st.Fields, c)
		if !p.acceptOp(",") {
			break
		}
	}
	if err := p.expectOp(")"); err != nil {
		return nil, err
	}
	p.finish(&st.stmtBase, start)
	return st, nil
}

func (p *parser) parseCreateFunction(start Token, orReplace bool) (Stmt, error) {
	p.next() // function
	_, name, err := p.qualifiedName()
	if err != nil {
		return nil, err
	}
	st := &CreateFunction{Name: name, OrReplace: orReplace, Volatility: "volatile"}
	if err := p.expectOp("("); err != nil {
		return nil, err
	}
	for !p.isOp(")") {
		t := p.peek()
		if t.Kind == TIdent && (t.Text == "out" || t.Text == "inout" || t.Text == "variadic") {
			return nil, p.unsupportedAt(t, "parameter mode %q", t.Text)
		}
		if t.Kind == TIdent && t.Text == "in" {
			p.next()
		}
		pd := &ParamDef{}
		t = p.peek()
		n1 := p.peekN(1)
		unnamed := (n1.Kind == TOp && (n1.Text == "," || n1.Text == ")" || n1.Text == "=" || n1.Text == "[" || n1.Text == "(" || n1.Text == ".")) ||
			(n1.Kind == TIdent && (n1.Text == "default" || n1.Text == "without" || n1.Text == "with" || n1.Text == "varying" || n1.Text == "precision"))
		if !unnamed {
			if pd.Name, err = p.anyIdent(); err != nil {
				return nil, err
			}
		}
		if pd.Type, err = p.parseType(); err != nil {
			return nil, err
		}
		if p.acceptKw("default") || p.acceptOp("=") {
			if pd.Default, err = p.parseExpr(); err != nil {
				return nil, err
			}
		}
		st.Params = append(st.Params, pd)
		if !p.acceptOp(",") {
			break
		}
	}
	if err := p.expectOp(")"); err != nil {
		return nil, err
	}
	var bodyTok *Token
	for !p.isOp(";") && p.peek().Kind != TEOF {
		t := p.next()
		if t.Kind != TIdent {
			return nil, p.errAt(t, "unexpected token in CREATE FUNCTION")
		}
		switch t.Text {
		case "returns":
			if p.isKw("null") { // returns null on null input
				p.next()
				for _, w := range []string{"on", "null", "input"} {
					if err := p.expectKw(w); err != nil {
						return nil, err
					}
				}
				st.Strict = true
				break
			}
			if p.isKw("table") {
				return nil, p.unsupportedAt(p.peek(), "RETURNS TABLE")
			}
			if p.acceptKw("setof") {
				st.SetOf = true
			}
			if st.Returns, err = p.parseType(); err != nil {
				return nil, err
			}
		case "language":
			l := p.next()
			if l.Kind != TIdent && l.Kind != TString && l.Kind != TQuotedIdent {
				return nil, p.errAt(l, "expected language name")
			}
			st.Language = strings.ToLower(l.Text)
		case "immutable", "stable", "volatile":
			st.Volatility = t.Text
		case "strict":
			st.Strict = true
		case "called":
			for _, w := range []string{"on", "null", "input"} {
				if err := p.expectKw(w); err != nil {
					return nil, err
				}
			}
		case "parallel":
			m := p.next()
			if m.Kind != TIdent || (m.Text != "safe" && m.Text != "unsafe" && m.Text != "restricted") {
				return nil, p.errAt(m, "expected SAFE, UNSAFE or RESTRICTED")
			}
			st.Options = append(st.Options, "parallel "+m.Text)
		case "security":
			m := p.next()
			if m.Kind != TIdent || (m.Text != "definer" && m.Text != "invoker") {
				return nil, p.errAt(m, "expected DEFINER or INVOKER")
			}
			st.Options = append(st.Options, "security "+m.Text)
		case "leakproof":
			st.Options = append(st.Options, "leakproof")
		case "cost", "rows":
			if p.peek().Kind != TNumber {
				return nil, p.errAt(p.peek(), "expected number")
			}
			st.Options = append(st.Options, t.Text+" "+p.next().Text)
		case "as":
			b := p.next()
			if b.Kind != TDollarString && b.Kind != TString {
				return nil, p.errAt(b, "expected function body")
			}
			if b.Kind == TString {
				return nil, p.unsupportedAt(b, "function body as plain string literal (use dollar quoting)")
			}
			bodyTok = &b
		default:
			return nil, p.unsupportedAt(t, "function option %q", t.Text)
		}
	}
	if bodyTok == nil {
		return nil, p.errAt(p.peek(), "function %s has no body", name)
	}
	if st.Returns == nil {
		return nil, p.errAt(p.peek(), "function %s has no RETURNS clause", name)
	}
	st.Body = bodyTok.Text
	st.BodyPos = bodyTok.Pos
	p.finish(&st.stmtBase, start)
	switch st.Language {
	case "sql":
		body, err := parseStatementsAt(st.Body, st.BodyPos, "")
		if err != nil {
			return nil, wrapErr(err, "in body of function "+name)
		}
		if len(body) == 0 {
			return nil, p.errAt(*bodyTok, "empty body of SQL function %s", name)
		}
		st.SQLBody = body
	case "plpgsql":
		bp, err := newParser(st.Body, st.BodyPos)
		if err != nil {
			return nil, wrapErr(err, "in body of function "+name)
		}
		bp.pl = true
		blk, err := bp.parsePLBlock()
		if err != nil {
			return nil, wrapErr(err, "in body of function "+name)
		}
		st.PLBody = blk
	default:
		return nil, p.unsupportedAt(start, "function language %q", st.Language)
	}
	return st, nil
}

func wrapErr(err error, ctx string) error {
	if e, ok := err.(*Error); ok {
		return &Error{Code: e.Code, Msg: ctx + ": " + e.Msg}
	}
	return fmt.Errorf("%s: %w", ctx, err)
}

func (p *parser) parseCreateAggregate(start Token) (Stmt, error) {
	p.next() // aggregate
	_, name, err := p.qualifiedName()
	if err != nil {
		return nil, err
	}
	st := &CreateAggregate{Name: name}
	if err := p.expectOp("("); err != nil {
		return nil, err
	}
	for !p.isOp(")") {
		if p.isOp("*") || p.isKw("order") || p.isKw("variadic") {
			return nil, p.unsupportedAt(p.peek(), "aggregate signature")
		}
		ty, err := p.parseType()
		if err != nil {
			return nil, err
		}
		st.ArgTypes = append(st.ArgTypes, ty)
		if !p.acceptOp(",") {
			break
		}
	}
	if err := p.expectOp(")"); err != nil {
		return nil, err
	}
	if err := p.expectOp("("); err != nil {
		return nil, err
	}
	for !p.isOp(")") {
		on, err := p.anyIdent()
		if err != nil {
			return nil, err
		}
		if err := p.expectOp("="); err != nil {
			return nil, err
		}
		opt := AggOption{Name: on}
		switch on {
		case "stype":
			ty, err := p.parseType()
			if err != nil {
				return nil, err
			}
			st.SType = ty
			opt.Value = ty.String()
		case "sfunc":
			_, fn, err := p.qualifiedName()
			if err != nil {
				return nil, err
			}
			st.SFunc = fn
			opt.Value = fn
		case "initcond":
			t := p.next()
			if t.Kind != TString && t.Kind != TNumber {
				return nil, p.errAt(t, "expected initcond literal")
			}
			v := t.Text
			st.InitCond = &v
			opt.Value = v
		case "parallel":
			t := p.next()
			if t.Kind != TIdent || (t.Text != "safe" && t.Text != "unsafe" && t.Text != "restricted") {
				return nil, p.errAt(t, "expected SAFE, UNSAFE or RESTRICTED")
			}
			opt.Value = t.Text
		default:
			return nil, p.unsupportedAt(p.peek(), "aggregate option %q", on)
		}
		st.Options = append(st.Options, opt)
		if !p.acceptOp(",") {
			break
		}
	}
	if err := p.expectOp(")"); err != nil {
		return nil, err
	}
	if st.SFunc == "" || st.SType == nil {
		return nil, p.errAt(start, "aggregate %s needs sfunc and stype", name)
	}
	p.finish(&st.stmtBase, start)
	return st, nil
}

func (p *parser) parseCreateTrigger(start Token) (Stmt, error) {
	p.next() // trigger
	name, err := p.anyIdent()
	if err != nil {
		return nil, err
	}
	st := &CreateTrigger{Name: name, ForEach: "statement"}
	t := p.next()
	if t.Kind != TIdent || (t.Text != "after" && t.Text != "before" && t.Text != "instead") {
		return nil, p.errAt(t, "expected BEFORE, AFTER or INSTEAD OF")
	}
	st.Timing = t.Text
	if t.Text == "instead" {
		return nil, p.unsupportedAt(t, "INSTEAD OF trigger")
	}
	for {
		ev := p.next()
		if ev.Kind != TIdent || (ev.Text != "insert" && ev.Text != "update" && ev.Text != "delete" && ev.Text != "truncate") {
			return nil, p.errAt(ev, "expected trigger event")
		}
		if ev.Text == "truncate" {
			return nil, p.unsupportedAt(ev, "TRUNCATE trigger")
		}
		if ev.Text == "update" && p.isKw("of") {
			return nil, p.unsupportedAt(p.peek(), "UPDATE OF columns")
		}
		st.Events = append(st.Events, ev.Text)
		if !p.acceptKw("or") {
			break
		}
	}
	if err := p.expectKw("on"); err != nil {
		return nil, err
	}
	if _, st.Table, err = p.qualifiedName(); err != nil {
		return nil, err
	}
	if p.acceptKw("for") {
		p.acceptKw("each")
		k := p.next()
		if k.Kind != TIdent || (k.Text != "row" && k.Text != "statement") {
			return nil, p.errAt(k, "expected ROW or STATEMENT")
		}
		st.ForEach = k.Text
	}
	if p.isKw("when") || p.isKw("referencing") || p.isKw("deferrable") || p.isKw("from") {
		return nil, p.unsupportedAt(p.peek(), "trigger clause %q", p.peek().Text)
	}
	if err := p.expectKw("execute"); err != nil {
		return nil, err
	}
	if !p.acceptKw("procedure") && !p.acceptKw("function") {
		return nil, p.errAt(p.peek(), "expected PROCEDURE or FUNCTION")
	}
	if _, st.Function, err = p.qualifiedName(); err != nil {
		return nil, err
	}
	if err := p.expectOp("("); err != nil {
		return nil, err
	}
	if !p.isOp(")") {
		return nil, p.unsupportedAt(p.peek(), "trigger function arguments")
	}
	p.next()
	p.finish(&st.stmtBase, start)
	return st, nil
}
