package minipg

import "strconv"

// Expression grammar, PostgreSQL operator precedence (lowest to highest):
//   OR < AND < NOT < IS/ISNULL/NOTNULL < comparison (= <> < <= > >=) < BETWEEN/IN/LIKE < other operators (|| -> ->> @> …)
//   < + - < * / % < unary minus < [] < :: < .

func (p *parser) parseExpr() (Expr, error) { return p.parseOr() }

func (p *parser) parseOr() (Expr, error) {
	l, err := p.parseAnd()
	if err != nil {
		return nil, err
	}
	for p.isKw("or") {
		t := p.next()
		r, err := p.parseAnd()
		if err != nil {
			return nil, err
		}
		l = &BinaryExpr{Op: "or", L: l, R: r, Pos: t.Pos}
	}
	return l, nil
}

func (p *parser) parseAnd() (Expr, error) {
	l, err := p.parseNot()
	if err != nil {
		return nil, err
	}
	for p.isKw("and") {
		t := p.next()
		r, err := p.parseNot()
		if err != nil {
			return nil, err
		}
		l = &BinaryExpr{Op: "and", L: l, R: r, Pos: t.Pos}
	}
	return l, nil
}

func (p *parser) parseNot() (Expr, error) {
	if p.isKw("not") {
		t := p.next()
		x, err := p.parseNot()
		if err != nil {
			return nil, err
		}
		return &UnaryExpr{Op: "not", X: x, Pos: t.Pos}, nil
	}
	return p.parseIs()
}

func (p *parser) parseIs() (Expr, error) {
	l, err := p.parseCmp()
	if err != nil {
		return nil, err
	}
	for {
		switch {
		case p.isKw("is"):
			t := p.next()
			not := p.acceptKw("not")
			switch {
			case p.acceptKw("null"):
				l = &IsExpr{X: l, Not: not, What: "null", Pos: t.Pos}
			case p.acceptKw("true"):
				l = &IsExpr{X: l, Not: not, What: "true", Pos: t.Pos}
			case p.acceptKw("false"):
				l = &IsExpr{X: l, Not: not, What: "false", Pos: t.Pos}
			case p.acceptKw("distinct"):
				if err := p.expectKw("from"); err != nil {
					return nil, err
				}
				r, err := p.parseCmp()
				if err != nil {
					return nil, err
				}
				l = &IsExpr{X: l, Not: not, What: "distinct", Y: r, Pos: t.Pos}
			default:
				return nil, p.unsupportedAt(p.peek(), "IS %s", p.peek().Text)
			}
		case p.isKw("isnull"):
			t := p.next()
			l = &IsExpr{X: l, What: "null", Pos: t.Pos}
		case p.isKw("notnull"):
			t := p.next()
			l = &IsExpr{X: l, Not: true, What: "null", Pos: t.Pos}
		default:
			return l, nil
		}
	}
}

func isCmpOp(s string) bool {
	switch s {
	case "=", "<>", "!=", "<", "<=", ">", ">=":
		return true
	}
	return false
}

func (p *parser) parseCmp() (Expr, error) {
	l, err := p.parseIn()
	if err != nil {
		return nil, err
	}
	for {
		t := p.peek()
		if t.Kind != TOp || !isCmpOp(t.Text) {
			return l, nil
		}
		p.next()
		op := t.Text
		if op == "!=" {
			op = "<>"
		}
		if (p.isKw("any") || p.isKw("some") || p.isKw("all")) && p.isOpN(1, "(") {
			all := p.next().Text == "all"
			p.next() // (
			ae := &AnyExpr{L: l, Op: op, All: all, Pos: t.Pos}
			if p.startsSelect(0) {
				q, err := p.parseSelect()
				if err != nil {
					return nil, err
				}
				ae.Query = q
			} else {
				r, err := p.parseExpr()
				if err != nil {
					return nil, err
				}
				ae.R = r
			}
			if err := p.expectOp(")"); err != nil {
				return nil, err
			}
			l = ae
			continue
		}
		r, err := p.parseIn()
		if err != nil {
			return nil, err
		}
		l = &BinaryExpr{Op: op, L: l, R: r, Pos: t.Pos}
	}
}

func (p *parser) parseIn() (Expr, error) {
	l, err := p.parseOther()
	if err != nil {
		return nil, err
	}
	for {
		not := false
		k := 0
		if p.isKw("not") && (p.isKwN(1, "in") || p.isKwN(1, "between") || p.isKwN(1, "like") || p.isKwN(1, "ilike") || p.isKwN(1, "similar")) {
			not = true
			k = 1
		}
		t := p.peekN(k)
		if t.Kind != TIdent {
			return l, nil
		}
		switch t.Text {
		case "in":
			if k == 1 {
				p.next()
			}
			p.next()
			if err := p.expectOp("("); err != nil {
				return nil, err
			}
			ie := &InExpr{X: l, Not: not, Pos: t.Pos}
			if p.startsSelect(0) {
				if ie.Query, err = p.parseSelect(); err != nil {
					return nil, err
				}
			} else {
				for {
					e, err := p.parseExpr()
					if err != nil {
						return nil, err
					}
					ie.List = append(ie.List, e)
					if !p.acceptOp(",") {
						break
					}
				}
			}
			if err := p.expectOp(")"); err != nil {
				return nil, err
			}
			l = ie
		case "between":
			if k == 1 {
				p.next()
			}
			p.next()
			if p.isKw("symmetric") {
				return nil, p.unsupportedAt(p.peek(), "BETWEEN SYMMETRIC")
			}
			lo, err := p.parseOther()
			if err != nil {
				return nil, err
			}
			if err := p.expectKw("and"); err != nil {
				return nil, err
			}
			hi, err := p.parseOther()
			if err != nil {
				return nil, err
			}
			l = &BetweenExpr{X: l, Lo: lo, Hi: hi, Not: not, Pos: t.Pos}
		case "like", "ilike", "similar":
			return nil, p.unsupportedAt(t, "%s", t.Text)
		default:
			return l, nil
		}
	}
}

func isOtherOp(s string) bool {
	switch s {
	case "(", ")", ",", ";", ".", "[", "]", ":", "::", ":=", "=>", "+", "-", "*", "/", "%", "^":
		return false
	}
	return !isCmpOp(s)
}

func (p *parser) parseOther() (Expr, error) {
	l, err := p.parseAdd()
	if err != nil {
		return nil, err
	}
	for {
		t := p.peek()
		if t.Kind != TOp || !isOtherOp(t.Text) {
			return l, nil
		}
		p.next()
		r, err := p.parseAdd()
		if err != nil {
			return nil, err
		}
		l = &BinaryExpr{Op: t.Text, L: l, R: r, Pos: t.Pos}
	}
}

func (p *parser) parseAdd() (Expr, error) {
	l, err := p.parseMul()
	if err != nil {
		return nil, err
	}
	for p.isOp("+") || p.isOp("-") {
		t := p.next()
		r, err := p.parseMul()
		if err != nil {
			return nil, err
		}
		l = &BinaryExpr{Op: t.Text, L: l, R: r, Pos: t.Pos}
	}
	return l, nil
}

func (p *parser) parseMul() (Expr, error) {
	l, err := p.parseUnary()
	if err != nil {
		return nil, err
	}
	for p.isOp("*") || p.isOp("/") || p.isOp("%") {
		t := p.next()
		r, err := p.parseUnary()
		if err != nil {
			return nil, err
		}
		l = &BinaryExpr{Op: t.Text, L: l, R: r, Pos: t.Pos}
	}
	if p.isOp("^") {
		return nil, p.unsupportedAt(p.peek(), "operator ^")
	}
	return l, nil
}

func (p *parser) parseUnary() (Expr, error) {
	if p.isOp("-") || p.isOp("+") {
		t := p.next()
		x, err := p.parseUnary()
		if err != nil {
			return nil, err
		}
		if t.Text == "+" {
			return x, nil
		}
		return &UnaryExpr{Op: "-", X: x, Pos: t.Pos}, nil
	}
	return p.parsePostfix()
}

func (p *parser) parsePostfix() (Expr, error) {
	parenthesized := p.isOp("(")
	x, err := p.parsePrimary()
	if err != nil {
		return nil, err
	}
	for {
		switch {
		case p.isOp("::"):
			t := p.next()
			ty, err := p.parseType()
			if err != nil {
				return nil, err
			}
			x = &CastExpr{X: x, Type: ty, Pos: t.Pos}
			parenthesized = false
		case p.isOp(".") && parenthesized:
			t := p.next()
			if p.isOp("*") {
				return nil, p.unsupportedAt(p.peek(), "(expr).*")
			}
			f, err := p.anyIdent()
			if err != nil {
				return nil, err
			}
			x = &FieldSelect{X: x, Field: f, Pos: t.Pos}
		case p.isOp("["):
			return nil, p.unsupportedAt(p.peek(), "array subscript")
		case p.isKw("collate"):
			return nil, p.unsupportedAt(p.peek(), "COLLATE")
		case p.isKw("at") && p.isKwN(1, "time"):
			return nil, p.unsupportedAt(p.peek(), "AT TIME ZONE")
		default:
			return x, nil
		}
	}
}

func (p *parser) parsePrimary() (Expr, error) {
	t := p.peek()
	switch t.Kind {
	case TNumber:
		p.next()
		nl := &NumberLit{Text: t.Text, Pos: t.Pos}
		if v, err := parseInteger(t.Text, "numeric"); err == nil {
			nl.val = v
		}
		return nl, nil
	case TString, TDollarString:
		p.next()
		return &StringLit{Val: t.Text, Pos: t.Pos, boxed: t.Text}, nil
	case TParam:
		p.next()
		n, _ := strconv.Atoi(t.Text)
		if n < 1 {
			return nil, p.errAt(t, "bad parameter reference")
		}
		return &ParamRef{N: n, Pos: t.Pos}, nil
	case TOp:
		if t.Text == "(" {
			p.next()
			if p.startsSelect(0) {
				q, err := p.parseSelect()
				if err != nil {
					return nil, err
				}
				if err := p.expectOp(")"); err != nil {
					return nil, err
				}
				return &SubqueryExpr{Query: q, Pos: t.Pos}, nil
			}
			e, err := p.parseExpr()
			if err != nil {
				return nil, err
			}
			if p.isOp(",") {
				items := []Expr{e}
				for p.acceptOp(",") {
					e2, err := p.parseExpr()
					if err != nil {
						return nil, err
					}
					items = append(items, e2)
				}
				if err := p.expectOp(")"); err != nil {
					return nil, err
				}
				return &RowExpr{Items: items, Pos: t.Pos}, nil
			}
			if err := p.expectOp(")"); err != nil {
				return nil, err
			}
			return e, nil
		}
		return nil, p.errAt(t, "unexpected token in expression")
	case TEOF:
		return nil, p.errAt(t, "unexpected end of input in expression")
	}
	// identifier-like
	if t.Kind == TIdent {
		switch t.Text {
		case "null":
			p.next()
			return &NullLit{Pos: t.Pos}, nil
		case "true", "false":
			p.next()
			return &BoolLit{Val: t.Text == "true", Pos: t.Pos}, nil
		case "case":
			return p.parseCase()
		case "exists":
			if p.isOpN(1, "(") {
				p.next()
				p.next()
				q, err := p.parseSelect()
				if err != nil {
					return nil, err
				}
				if err := p.expectOp(")"); err != nil {
					return nil, err
				}
				return &ExistsExpr{Query: q, Pos: t.Pos}, nil
			}
		case "array":
			if p.isOpN(1, "[") {
				p.next()
				p.next()
				ae := &ArrayExpr{Pos: t.Pos}
				for !p.isOp("]") {
					e, err := p.parseExpr()
					if err != nil {
						return nil, err
					}
					ae.Items = append(ae.Items, e)
					if !p.acceptOp(",") {
						break
					}
				}
				if err := p.expectOp("]"); err != nil {
					return nil, err
				}
				return ae, nil
			}
			if p.isOpN(1, "(") {
				return nil, p.unsupportedAt(t, "ARRAY(subquery)")
			}
		case "row":
			if p.isOpN(1, "(") {
				p.next()
				p.next()
				re := &RowExpr{Pos: t.Pos}
				for !p.isOp(")") {
					e, err := p.parseExpr()
					if err != nil {
						return nil, err
					}
					re.Items = append(re.Items, e)
					if !p.acceptOp(",") {
						break
					}
				}
				if err := p.expectOp(")"); err != nil {
					return nil, err
				}
				return re, nil
			}
		case "cast":
			if p.isOpN(1, "(") {
				p.next()
				p.next()
				e, err := p.parseExpr()
				if err != nil {
					return nil, err
				}
				if err := p.expectKw("as"); err != nil {
					return nil, err
				}
				ty, err := p.parseType()
				if err != nil {
					return nil, err
				}
				if err := p.expectOp(")"); err != nil {
					return nil, err
				}
				return &CastExpr{X: e, Type: ty, Pos: t.Pos}, nil
			}
		case "extract", "position", "substring", "overlay", "trim", "current_timestamp", "current_date", "localtimestamp", "current_user", "interval":
			if p.isOpN(1, "(") || t.Text[0] == 'c' || t.Text[0] == 'l' || (t.Text == "interval" && p.peekN(1).Kind == TString) {
				return nil, p.unsupportedAt(t, "%s", t.Text)
			}
		}
		// typed literal: type 'string'
		if typeHeads[t.Text] {
			k := 1
			if (t.Text == "timestamp" || t.Text == "time") && (p.isKwN(1, "without") || p.isKwN(1, "with")) {
				k = 4
			}
			if p.peekN(k).Kind == TString {
				ty, err := p.parseType()
				if err != nil {
					return nil, err
				}
				s := p.next()
				return &CastExpr{X: &StringLit{Val: s.Text, Pos: s.Pos, boxed: s.Text}, Type: ty, Pos: t.Pos}, nil
			}
		}
		if reserved[t.Text] {
			return nil, p.errAt(t, "unexpected keyword in expression")
		}
	}
	// column reference / function call
	p.next()
	parts := []string{t.Text}
	for p.isOp(".") {
		if p.isOpN(1, "*") {
			if len(parts) != 1 {
				return nil, p.unsupportedAt(p.peek(), "schema-qualified table.*")
			}
			p.next()
			p.next()
			return &Star{Table: parts[0], Pos: t.Pos}, nil
		}
		n := p.peekN(1)
		if n.Kind != TIdent && n.Kind != TQuotedIdent {
			return nil, p.errAt(n, "expected identifier after '.'")
		}
		p.next()
		p.next()
		parts = append(parts, n.Text)
	}
	if p.isOp("(") {
		return p.parseFuncCall(parts[len(parts)-1], t)
	}
	if len(parts) > 3 {
		return nil, p.unsupportedAt(t, "column reference with more than 3 parts")
	}
	return &ColumnRef{Parts: parts, Pos: t.Pos}, nil
}

func (p *parser) parseFuncCall(name string, t Token) (Expr, error) {
	p.next() // (
	fc := &FuncCall{Name: name, Pos: t.Pos}
	if p.isOp("*") {
		p.next()
		fc.Star = true
	} else if !p.isOp(")") {
		if p.acceptKw("distinct") {
			fc.Distinct = true
		} else {
			p.acceptKw("all")
		}
		if p.isKw("variadic") {
			return nil, p.unsupportedAt(p.peek(), "VARIADIC argument")
		}
		for {
			arg := &FuncArg{}
			n0, n1 := p.peek(), p.peekN(1)
			if (n0.Kind == TIdent || n0.Kind == TQuotedIdent) && n1.Kind == TOp && (n1.Text == ":=" || n1.Text == "=>") {
				p.next()
				p.next()
				arg.Name = n0.Text
			}
			e, err := p.parseExpr()
			if err != nil {
				return nil, err
			}
			arg.Value = e
			fc.Args = append(fc.Args, arg)
			if !p.acceptOp(",") {
				break
			}
		}
		if p.isKw("order") {
			return nil, p.unsupportedAt(p.peek(), "ORDER BY inside aggregate call")
		}
	}
	if err := p.expectOp(")"); err != nil {
		return nil, err
	}
	if p.isKw("filter") && p.isOpN(1, "(") || p.isKw("within") {
		return nil, p.unsupportedAt(p.peek(), "aggregate %s clause", p.peek().Text)
	}
	if p.isKw("over") {
		p.next()
		if !p.isOp("(") || !p.isOpN(1, ")") {
			return nil, p.unsupportedAt(p.peek(), "non-empty window specification")
		}
		p.next()
		p.next()
		fc.Over = true
	}
	return fc, nil
}

func (p *parser) parseCase() (Expr, error) {
	t := p.next() // case
	ce := &CaseExpr{Pos: t.Pos}
	var err error
	if !p.isKw("when") {
		if ce.Operand, err = p.parseExpr(); err != nil {
			return nil, err
		}
	}
	for p.acceptKw("when") {
		w := &CaseWhen{}
		if w.Cond, err = p.parseExpr(); err != nil {
			return nil, err
		}
		if err := p.expectKw("then"); err != nil {
			return nil, err
		}
		if w.Result, err = p.parseExpr(); err != nil {
			return nil, err
		}
		ce.Whens = append(ce.Whens, w)
	}
	if len(ce.Whens) == 0 {
		return nil, p.errAt(p.peek(), "CASE without WHEN")
	}
	if p.acceptKw("else") {
		if ce.Else, err = p.parseExpr(); err != nil {
			return nil, err
		}
	}
	if err := p.expectKw("end"); err != nil {
		return nil, err
	}
	return ce, nil
}
