package minipg

// PL/pgSQL block parser.

type PLRaise struct {
	Level  string // exception | notice | warning | info | log | debug
	Format string
	Args   []Expr
	Pos    int
}

func (*PLRaise) node()   {}
func (*PLRaise) plStmt() {}

func (p *parser) parsePLBlock() (*PLBlock, error) {
	blk := &PLBlock{}
	if p.isOp("<<") {
		return nil, p.unsupportedAt(p.peek(), "block label")
	}
	if p.acceptKw("declare") {
		for !p.isKw("begin") {
			t := p.peek()
			if t.Kind == TEOF {
				return nil, p.errAt(t, "expected BEGIN")
			}
			name, err := p.ident()
			if err != nil {
				return nil, err
			}
			if p.isKw("constant") || p.isKw("alias") || p.isKw("cursor") {
				return nil, p.unsupportedAt(p.peek(), "declaration modifier %q", p.peek().Text)
			}
			ty, err := p.parseType()
			if err != nil {
				return nil, err
			}
			if p.isOp("%") {
				return nil, p.unsupportedAt(p.peek(), "%%TYPE / %%ROWTYPE")
			}
			d := &PLVarDecl{Name: name, Type: ty, Pos: t.Pos}
			if p.isKw("not") {
				return nil, p.unsupportedAt(p.peek(), "NOT NULL variable")
			}
			if p.acceptKw("default") || p.acceptOp(":=") || p.acceptOp("=") {
				if d.Default, err = p.parseExpr(); err != nil {
					return nil, err
				}
			}
			if err := p.expectOp(";"); err != nil {
				return nil, err
			}
			blk.Decls = append(blk.Decls, d)
		}
	}
	if err := p.expectKw("begin"); err != nil {
		return nil, err
	}
	body, err := p.parsePLStmts()
	if err != nil {
		return nil, err
	}
	blk.Body = body
	if p.isKw("exception") {
		return nil, p.unsupportedAt(p.peek(), "EXCEPTION block")
	}
	if err := p.expectKw("end"); err != nil {
		return nil, err
	}
	p.acceptOp(";")
	if p.peek().Kind != TEOF {
		return nil, p.errAt(p.peek(), "unexpected token after END of function body")
	}
	return blk, nil
}

func (p *parser) plStmtsEnd() bool {
	t := p.peek()
	if t.Kind == TEOF {
		return true
	}
	return t.Kind == TIdent && (t.Text == "end" || t.Text == "elsif" || t.Text == "elseif" || t.Text == "else" || t.Text == "exception")
}

func (p *parser) parsePLStmts() ([]PLStmt, error) {
	var out []PLStmt
	for !p.plStmtsEnd() {
		s, err := p.parsePLStmt()
		if err != nil {
			return nil, err
		}
		out = append(out, s)
	}
	return out, nil
}

func (p *parser) parsePLStmt() (PLStmt, error) {
	t := p.peek()
	semi := func(s PLStmt) (PLStmt, error) {
		if err := p.expectOp(";"); err != nil {
			return nil, err
		}
		return s, nil
	}
	if t.Kind == TIdent {
		switch t.Text {
		case "if":
			p.next()
			st := &PLIf{Pos: t.Pos}
			for {
				cond, err := p.parseExpr()
				if err != nil {
					return nil, err
				}
				if err := p.expectKw("then"); err != nil {
					return nil, err
				}
				body, err := p.parsePLStmts()
				if err != nil {
					return nil, err
				}
				st.Branches = append(st.Branches, &PLIfBranch{Cond: cond, Body: body})
				if p.acceptKw("elsif") || p.acceptKw("elseif") {
					continue
				}
				break
			}
			if p.acceptKw("else") {
				body, err := p.parsePLStmts()
				if err != nil {
					return nil, err
				}
				st.Else = body
			}
			if err := p.expectKw("end"); err != nil {
				return nil, err
			}
			if err := p.expectKw("if"); err != nil {
				return nil, err
			}
			return semi(st)
		case "for":
			p.next()
			st := &PLForQuery{Pos: t.Pos}
			ts, err := p.parseTargets()
			if err != nil {
				return nil, err
			}
			st.Targets = ts
			if err := p.expectKw("in"); err != nil {
				return nil, err
			}
			if !(p.startsSelect(0) || p.isOp("(") && (p.startsSelect(1) || p.isOpN(1, "(") && p.startsSelect(2))) {
				return nil, p.unsupportedAt(p.peek(), "FOR loop over anything but a query")
			}
			save := p.pl
			p.pl = false
			st.Query, err = p.parseSelect()
			p.pl = save
			if err != nil {
				return nil, err
			}
			if err := p.expectKw("loop"); err != nil {
				return nil, err
			}
			if st.Body, err = p.parsePLStmts(); err != nil {
				return nil, err
			}
			if err := p.expectKw("end"); err != nil {
				return nil, err
			}
			if err := p.expectKw("loop"); err != nil {
				return nil, err
			}
			return semi(st)
		case "perform":
			p.next()
			save := p.pl
			p.pl = false
			q, err := p.parseSelectCore()
			if err == nil {
				if p.isKw("order") || p.isKw("limit") || p.isKw("offset") || p.isKw("union") {
					err = p.unsupportedAt(p.peek(), "PERFORM with %s", p.peek().Text)
				}
			}
			p.pl = save
			if err != nil {
				return nil, err
			}
			q.Pos = t.Pos
			q.Src = p.srcRange(t.Pos, p.lastEnd())
			return semi(&PLPerform{Query: q, Pos: t.Pos})
		case "return":
			p.next()
			if p.isKw("next") || p.isKw("query") {
				return nil, p.unsupportedAt(p.peek(), "RETURN %s", p.peek().Text)
			}
			st := &PLReturn{Pos: t.Pos}
			if !p.isOp(";") {
				e, err := p.parseExpr()
				if err != nil {
					return nil, err
				}
				st.Value = e
			}
			return semi(st)
		case "null":
			if p.isOpN(1, ";") {
				p.next()
				return semi(&PLNull{Pos: t.Pos})
			}
		case "raise":
			p.next()
			st := &PLRaise{Level: "exception", Pos: t.Pos}
			if l := p.peek(); l.Kind == TIdent {
				switch l.Text {
				case "exception", "notice", "warning", "info", "log", "debug":
					st.Level = l.Text
					p.next()
				default:
					return nil, p.unsupportedAt(l, "RAISE %s", l.Text)
				}
			}
			f := p.peek()
			if f.Kind != TString {
				return nil, p.unsupportedAt(f, "RAISE without format string")
			}
			p.next()
			st.Format = f.Text
			for p.acceptOp(",") {
				e, err := p.parseExpr()
				if err != nil {
					return nil, err
				}
				st.Args = append(st.Args, e)
			}
			if p.isKw("using") {
				return nil, p.unsupportedAt(p.peek(), "RAISE … USING")
			}
			return semi(st)
		case "select", "with":
			q, err := p.parseSelect()
			if err != nil {
				return nil, err
			}
			return semi(&PLSQL{Stmt: q, Pos: t.Pos})
		case "insert":
			s, err := p.parseInsert()
			if err != nil {
				return nil, err
			}
			return semi(&PLSQL{Stmt: s, Pos: t.Pos})
		case "update":
			s, err := p.parseUpdate()
			if err != nil {
				return nil, err
			}
			return semi(&PLSQL{Stmt: s, Pos: t.Pos})
		case "delete":
			s, err := p.parseDelete()
			if err != nil {
				return nil, err
			}
			return semi(&PLSQL{Stmt: s, Pos: t.Pos})
		case "while", "loop", "exit", "continue", "execute", "get", "begin", "declare", "foreach", "open", "fetch", "close", "call", "assert", "case", "commit", "rollback", "move":
			return nil, p.unsupportedAt(t, "PL/pgSQL statement %q", t.Text)
		}
	}
	// assignment
	tg := &PLTarget{Pos: t.Pos}
	var err error
	if tg.Name, err = p.ident(); err != nil {
		return nil, p.errAt(t, "expected a PL/pgSQL statement")
	}
	if p.acceptOp(".") {
		if tg.Field, err = p.anyIdent(); err != nil {
			return nil, err
		}
	}
	if p.isOp("[") || p.isOp(".") {
		return nil, p.unsupportedAt(p.peek(), "assignment to array element / nested field")
	}
	if !p.acceptOp(":=") && !p.acceptOp("=") {
		return nil, p.errAt(p.peek(), "expected := or = in assignment")
	}
	e, err := p.parseExpr()
	if err != nil {
		return nil, err
	}
	return semi(&PLAssign{Target: tg, Value: e, Pos: t.Pos})
}
