package minipg

import "strings"

// Queries and DML.

func (p *parser) startsSelect(k int) bool {
	t := p.peekN(k)
	return t.Kind == TIdent && (t.Text == "select" || t.Text == "with" || t.Text == "values")
}

// parseSelect parses: [WITH …] set-expression [ORDER BY …] [LIMIT …] [OFFSET …]
func (p *parser) parseSelect() (*SelectStmt, error) {
	start := p.peek()
	var with []*CTE
	recursive := false
	if p.acceptKw("with") {
		if p.acceptKw("recursive") {
			recursive = true
		}
		for {
			name, err := p.ident()
			if err != nil {
				return nil, err
			}
			cte := &CTE{Name: name}
			if p.isOp("(") {
				if cte.Columns, err = p.parseColumnList(); err != nil {
					return nil, err
				}
			}
			if err := p.expectKw("as"); err != nil {
				return nil, err
			}
			if p.isKw("materialized") || p.isKw("not") {
				return nil, p.unsupportedAt(p.peek(), "[NOT] MATERIALIZED")
			}
			if err := p.expectOp("("); err != nil {
				return nil, err
			}
			if !p.startsSelect(0) && !p.isOp("(") {
				return nil, p.unsupportedAt(p.peek(), "data-modifying or non-SELECT CTE")
			}
			if cte.Query, err = p.parseSelect(); err != nil {
				return nil, err
			}
			if err := p.expectOp(")"); err != nil {
				return nil, err
			}
			with = append(with, cte)
			if !p.acceptOp(",") {
				break
			}
		}
	}
	s, err := p.parseSetExpr()
	if err != nil {
		return nil, err
	}
	hasTail := p.isKw("order") || p.isKw("limit") || p.isKw("offset") || p.isKw("fetch")
	if (with != nil && s.With != nil) || (hasTail && (s.OrderBy != nil || s.Limit != nil || s.Offset != nil)) {
		// (select … order by …) order by …  : wrap the inner query as a sub-select
		inner := s
		s = &SelectStmt{Items: []*SelectItem{{Expr: &Star{}}}, From: []FromItem{&SubqueryRef{Query: inner, Alias: "_wrapped"}}}
	}
	if with != nil {
		s.With = with
		s.Recursive = recursive
	}
	if p.isKw("order") {
		p.next()
		if err := p.expectKw("by"); err != nil {
			return nil, err
		}
		if s.OrderBy, err = p.parseOrderList(); err != nil {
			return nil, err
		}
	}
	for p.isKw("limit") || p.isKw("offset") {
		if p.acceptKw("limit") {
			if p.acceptKw("all") {
				continue
			}
			if s.Limit, err = p.parseExpr(); err != nil {
				return nil, err
			}
		} else {
			p.next()
			if s.Offset, err = p.parseExpr(); err != nil {
				return nil, err
			}
			if !p.acceptKw("rows") {
				p.acceptKw("row")
			}
		}
	}
	if p.isKw("fetch") || p.isKw("for") && (p.isKwN(1, "update") || p.isKwN(1, "share") || p.isKwN(1, "no") || p.isKwN(1, "key")) {
		return nil, p.unsupportedAt(p.peek(), "%s clause", p.peek().Text)
	}
	if err := p.maybeInto(s); err != nil {
		return nil, err
	}
	p.finish(&s.stmtBase, start)
	return s, nil
}

func (p *parser) parseOrderList() ([]*OrderItem, error) {
	var out []*OrderItem
	for {
		e, err := p.parseExpr()
		if err != nil {
			return nil, err
		}
		it := &OrderItem{Expr: e}
		if p.acceptKw("desc") {
			it.Desc = true
		} else if p.acceptKw("asc") {
		} else if p.isKw("using") {
			return nil, p.unsupportedAt(p.peek(), "ORDER BY … USING")
		}
		if p.acceptKw("nulls") {
			switch {
			case p.acceptKw("first"):
				it.Nulls = "first"
			case p.acceptKw("last"):
				it.Nulls = "last"
			default:
				return nil, p.errAt(p.peek(), "expected FIRST or LAST")
			}
		}
		out = append(out, it)
		if !p.acceptOp(",") {
			return out, nil
		}
	}
}

func (p *parser) parseSetExpr() (*SelectStmt, error) {
	left, err := p.parseSelectPrimary()
	if err != nil {
		return nil, err
	}
	for p.isKw("union") || p.isKw("intersect") || p.isKw("except") {
		t := p.next()
		if t.Text != "union" {
			return nil, p.unsupportedAt(t, "%s", t.Text)
		}
		all := false
		if p.acceptKw("all") {
			all = true
		} else {
			p.acceptKw("distinct")
		}
		right, err := p.parseSelectPrimary()
		if err != nil {
			return nil, err
		}
		n := &SelectStmt{SetOp: "union", SetAll: all, Left: left, Right: right}
		n.Pos = left.Pos
		left = n
	}
	return left, nil
}

func (p *parser) parseSelectPrimary() (*SelectStmt, error) {
	start := p.peek()
	if p.isOp("(") {
		p.next()
		s, err := p.parseSelect()
		if err != nil {
			return nil, err
		}
		if err := p.expectOp(")"); err != nil {
			return nil, err
		}
		return s, nil
	}
	if p.acceptKw("values") {
		s := &SelectStmt{}
		rows, err := p.parseValuesRows()
		if err != nil {
			return nil, err
		}
		s.Values = rows
		p.finish(&s.stmtBase, start)
		return s, nil
	}
	if err := p.expectKw("select"); err != nil {
		return nil, err
	}
	s, err := p.parseSelectCore()
	if err != nil {
		return nil, err
	}
	p.finish(&s.stmtBase, start)
	return s, nil
}

func (p *parser) parseValuesRows() ([][]Expr, error) {
	var rows [][]Expr
	for {
		if err := p.expectOp("("); err != nil {
			return nil, err
		}
		var row []Expr
		for {
			if p.isKw("default") {
				return nil, p.unsupportedAt(p.peek(), "DEFAULT in VALUES")
			}
			e, err := p.parseExpr()
			if err != nil {
				return nil, err
			}
			row = append(row, e)
			if !p.acceptOp(",") {
				break
			}
		}
		if err := p.expectOp(")"); err != nil {
			return nil, err
		}
		if len(rows) > 0 && len(rows[0]) != len(row) {
			return nil, p.errAt(p.peek(), "VALUES lists must all be the same length")
		}
		rows = append(rows, row)
		if !p.acceptOp(",") {
			return rows, nil
		}
	}
}

// maybeInto handles PL/pgSQL's INTO clause, which may appear after the select list or at the end of the statement.
func (p *parser) maybeInto(s *SelectStmt) error {
	if !p.isKw("into") {
		return nil
	}
	if !p.pl {
		return p.unsupportedAt(p.peek(), "SELECT … INTO outside PL/pgSQL")
	}
	if s.Into != nil {
		return p.errAt(p.peek(), "INTO specified more than once")
	}
	p.next()
	if p.isKw("strict") {
		return p.unsupportedAt(p.peek(), "INTO STRICT")
	}
	ts, err := p.parseTargets()
	if err != nil {
		return err
	}
	s.Into = ts
	return nil
}

func (p *parser) parseTargets() ([]*PLTarget, error) {
	var ts []*PLTarget
	for {
		t := p.peek()
		name, err := p.ident()
		if err != nil {
			return nil, err
		}
		tg := &PLTarget{Name: name, Pos: t.Pos}
		if p.acceptOp(".") {
			if tg.Field, err = p.anyIdent(); err != nil {
				return nil, err
			}
		}
		ts = append(ts, tg)
		if !p.acceptOp(",") {
			return ts, nil
		}
	}
}

// parseSelectCore parses everything after the SELECT keyword up to (not including) ORDER BY / LIMIT / set operators.
func (p *parser) parseSelectCore() (*SelectStmt, error) {
	s := &SelectStmt{}
	var err error
	if p.acceptKw("distinct") {
		s.Distinct = true
		if p.acceptKw("on") {
			if err := p.expectOp("("); err != nil {
				return nil, err
			}
			for {
				e, err := p.parseExpr()
				if err != nil {
					return nil, err
				}
				s.DistinctOn = append(s.DistinctOn, e)
				if !p.acceptOp(",") {
					break
				}
			}
			if err := p.expectOp(")"); err != nil {
				return nil, err
			}
			s.Distinct = false
		}
	} else {
		p.acceptKw("all")
	}
	for {
		it, err := p.parseSelectItem()
		if err != nil {
			return nil, err
		}
		s.Items = append(s.Items, it)
		if !p.acceptOp(",") {
			break
		}
	}
	if err := p.maybeInto(s); err != nil {
		return nil, err
	}
	if p.acceptKw("from") {
		for {
			fi, err := p.parseFromItem()
			if err != nil {
				return nil, err
			}
			s.From = append(s.From, fi)
			if !p.acceptOp(",") {
				break
			}
		}
		if err := p.maybeInto(s); err != nil {
			return nil, err
		}
	}
	if p.acceptKw("where") {
		if s.Where, err = p.parseExpr(); err != nil {
			return nil, err
		}
		if err := p.maybeInto(s); err != nil {
			return nil, err
		}
	}
	if p.isKw("group") {
		p.next()
		if err := p.expectKw("by"); err != nil {
			return nil, err
		}
		for {
			if p.isKw("rollup") || p.isKw("cube") || p.isKw("grouping") {
				return nil, p.unsupportedAt(p.peek(), "grouping sets")
			}
			e, err := p.parseExpr()
			if err != nil {
				return nil, err
			}
			s.GroupBy = append(s.GroupBy, e)
			if !p.acceptOp(",") {
				break
			}
		}
	}
	if p.acceptKw("having") {
		if s.Having, err = p.parseExpr(); err != nil {
			return nil, err
		}
	}
	if p.isKw("window") {
		return nil, p.unsupportedAt(p.peek(), "WINDOW clause")
	}
	if err := p.maybeInto(s); err != nil {
		return nil, err
	}
	return s, nil
}

func (p *parser) parseSelectItem() (*SelectItem, error) {
	if p.isOp("*") {
		t := p.next()
		return &SelectItem{Expr: &Star{Pos: t.Pos}}, nil
	}
	e, err := p.parseExpr()
	if err != nil {
		return nil, err
	}
	it := &SelectItem{Expr: e}
	if p.acceptKw("as") {
		if it.Alias, err = p.anyIdent(); err != nil {
			return nil, err
		}
	} else if t := p.peek(); t.Kind == TQuotedIdent || (t.Kind == TIdent && !reserved[t.Text]) {
		p.next()
		it.Alias = t.Text
	}
	return it, nil
}

func (p *parser) parseAlias() (alias string, cols []string, err error) {
	if p.acceptKw("as") {
		if alias, err = p.anyIdent(); err != nil {
			return
		}
	} else if t := p.peek(); t.Kind == TQuotedIdent || (t.Kind == TIdent && !reserved[t.Text]) {
		p.next()
		alias = t.Text
	}
	if alias != "" && p.isOp("(") {
		cols, err = p.parseColumnList()
	}
	return
}

func (p *parser) parseFromItem() (FromItem, error) {
	left, err := p.parseFromPrimary()
	if err != nil {
		return nil, err
	}
	for {
		kind := ""
		switch {
		case p.isKw("join"):
			kind = "inner"
			p.next()
		case p.isKw("inner") && p.isKwN(1, "join"):
			kind = "inner"
			p.next()
			p.next()
		case p.isKw("cross") && p.isKwN(1, "join"):
			kind = "cross"
			p.next()
			p.next()
		case p.isKw("left") || p.isKw("right") || p.isKw("full"):
			kind = p.next().Text
			p.acceptKw("outer")
			if err := p.expectKw("join"); err != nil {
				return nil, err
			}
		case p.isKw("natural"):
			return nil, p.unsupportedAt(p.peek(), "NATURAL JOIN")
		default:
			return left, nil
		}
		if kind == "right" || kind == "full" {
			return nil, p.unsupportedAt(p.peek(), "%s join", kind)
		}
		right, err := p.parseFromPrimary()
		if err != nil {
			return nil, err
		}
		j := &JoinExpr{Kind: kind, Left: left, Right: right}
		if kind != "cross" {
			if p.isKw("using") {
				return nil, p.unsupportedAt(p.peek(), "JOIN … USING")
			}
			if err := p.expectKw("on"); err != nil {
				return nil, err
			}
			if j.On, err = p.parseExpr(); err != nil {
				return nil, err
			}
		}
		left = j
	}
}

func (p *parser) parseFromPrimary() (FromItem, error) {
	lateral := p.acceptKw("lateral")
	t := p.peek()
	if p.isOp("(") {
		if p.startsSelect(1) || p.isOpN(1, "(") && p.startsSelect(2) {
			p.next()
			q, err := p.parseSelect()
			if err != nil {
				return nil, err
			}
			if err := p.expectOp(")"); err != nil {
				return nil, err
			}
			alias, cols, err := p.parseAlias()
			if err != nil {
				return nil, err
			}
			if alias == "" {
				return nil, p.errAt(p.peek(), "subquery in FROM must have an alias")
			}
			return &SubqueryRef{Lateral: lateral, Query: q, Alias: alias, ColAliases: cols}, nil
		}
		p.next()
		fi, err := p.parseFromItem()
		if err != nil {
			return nil, err
		}
		if err := p.expectOp(")"); err != nil {
			return nil, err
		}
		return fi, nil
	}
	if (t.Kind == TIdent && !reserved[t.Text] || t.Kind == TQuotedIdent) && (p.isOpN(1, "(") || p.isOpN(1, ".") && p.isOpN(3, "(")) {
		e, err := p.parsePrimary()
		if err != nil {
			return nil, err
		}
		fc, ok := e.(*FuncCall)
		if !ok {
			return nil, p.errAt(t, "expected function call in FROM")
		}
		if p.isKw("with") && p.isKwN(1, "ordinality") {
			return nil, p.unsupportedAt(p.peek(), "WITH ORDINALITY")
		}
		alias, cols, err := p.parseAlias()
		if err != nil {
			return nil, err
		}
		return &FuncRef{Lateral: lateral, Call: fc, Alias: alias, ColAliases: cols}, nil
	}
	if lateral {
		return nil, p.errAt(t, "LATERAL must be followed by a sub-select or function call")
	}
	p.acceptKw("only")
	schema, name, err := p.qualifiedName()
	if err != nil {
		return nil, err
	}
	if t.Kind == TIdent && reserved[t.Text] {
		return nil, p.errAt(t, "expected table name")
	}
	alias, cols, err := p.parseAlias()
	if err != nil {
		return nil, err
	}
	if p.isKw("tablesample") {
		return nil, p.unsupportedAt(p.peek(), "TABLESAMPLE")
	}
	return &TableRef{Schema: schema, Name: name, Alias: alias, ColAliases: cols, Pos: t.Pos}, nil
}

// ---------------------------------------------------------------------------------------------------------------------
// INSERT / UPDATE / DELETE

func (p *parser) parseReturning() ([]*SelectItem, []*PLTarget, error) {
	if !p.acceptKw("returning") {
		return nil, nil, nil
	}
	var items []*SelectItem
	for {
		it, err := p.parseSelectItem()
		if err != nil {
			return nil, nil, err
		}
		items = append(items, it)
		if !p.acceptOp(",") {
			break
		}
	}
	var into []*PLTarget
	if p.isKw("into") {
		if !p.pl {
			return nil, nil, p.errAt(p.peek(), "INTO is only valid in PL/pgSQL")
		}
		p.next()
		ts, err := p.parseTargets()
		if err != nil {
			return nil, nil, err
		}
		into = ts
	}
	return items, into, nil
}

func (p *parser) parseSetClauses() ([]*SetClause, error) {
	var out []*SetClause
	for {
		if p.isOp("(") {
			return nil, p.unsupportedAt(p.peek(), "multi-column SET (a, b) = …")
		}
		col, err := p.anyIdent()
		if err != nil {
			return nil, err
		}
		if p.isOp(".") || p.isOp("[") {
			return nil, p.unsupportedAt(p.peek(), "SET of a sub-field or array element")
		}
		if err := p.expectOp("="); err != nil {
			return nil, err
		}
		if p.isKw("default") {
			return nil, p.unsupportedAt(p.peek(), "SET col = DEFAULT")
		}
		e, err := p.parseExpr()
		if err != nil {
			return nil, err
		}
		out = append(out, &SetClause{Column: col, Value: e})
		if !p.acceptOp(",") {
			return out, nil
		}
	}
}

func (p *parser) parseInsert() (Stmt, error) {
	start := p.next() // insert
	if err := p.expectKw("into"); err != nil {
		return nil, err
	}
	st := &InsertStmt{}
	var err error
	if _, st.Table, err = p.qualifiedName(); err != nil {
		return nil, err
	}
	if p.isKw("as") {
		// bun writes INSERT INTO "t" AS "t": an alias equal to the table name changes nothing; any other alias is unsupported
		at := p.next()
		alias, err := p.ident()
		if err != nil {
			return nil, err
		}
		if !strings.EqualFold(alias, st.Table) {
			return nil, p.unsupportedAt(at, "INSERT … AS alias (other than the table's own name)")
		}
	}
	if p.isOp("(") && !p.startsSelect(1) {
		if st.Columns, err = p.parseColumnList(); err != nil {
			return nil, err
		}
	}
	switch {
	case p.isKw("default"):
		return nil, p.unsupportedAt(p.peek(), "DEFAULT VALUES")
	case p.isKw("overriding"):
		return nil, p.unsupportedAt(p.peek(), "OVERRIDING")
	case p.isKw("values"):
		p.next()
		if st.Values, err = p.parseValuesRows(); err != nil {
			return nil, err
		}
	default:
		save := p.pl
		p.pl = false
		st.Query, err = p.parseSelect()
		p.pl = save
		if err != nil {
			return nil, err
		}
	}
	if p.isKw("on") {
		p.next()
		if err := p.expectKw("conflict"); err != nil {
			return nil, err
		}
		oc := &OnConflict{}
		if p.isOp("(") {
			if oc.Columns, err = p.parseColumnList(); err != nil {
				return nil, err
			}
			if p.isKw("where") {
				return nil, p.unsupportedAt(p.peek(), "ON CONFLICT (…) WHERE (partial index inference)")
			}
		} else if p.isKw("on") {
			return nil, p.unsupportedAt(p.peek(), "ON CONFLICT ON CONSTRAINT")
		}
		if err := p.expectKw("do"); err != nil {
			return nil, err
		}
		if p.acceptKw("nothing") {
			oc.DoNothing = true
		} else {
			if err := p.expectKw("update"); err != nil {
				return nil, err
			}
			if err := p.expectKw("set"); err != nil {
				return nil, err
			}
			if len(oc.Columns) == 0 {
				return nil, p.errAt(p.peek(), "ON CONFLICT DO UPDATE requires inference specification")
			}
			if oc.Set, err = p.parseSetClauses(); err != nil {
				return nil, err
			}
			if p.acceptKw("where") {
				if oc.Where, err = p.parseExpr(); err != nil {
					return nil, err
				}
			}
		}
		st.OnConflict = oc
	}
	if st.Returning, st.Into, err = p.parseReturning(); err != nil {
		return nil, err
	}
	p.finish(&st.stmtBase, start)
	return st, nil
}

func (p *parser) parseUpdate() (Stmt, error) {
	start := p.next() // update
	p.acceptKw("only")
	st := &UpdateStmt{}
	var err error
	if _, st.Table, err = p.qualifiedName(); err != nil {
		return nil, err
	}
	if p.acceptKw("as") {
		if st.Alias, err = p.anyIdent(); err != nil {
			return nil, err
		}
	} else if !p.isKw("set") {
		if st.Alias, err = p.ident(); err != nil {
			return nil, err
		}
	}
	if err := p.expectKw("set"); err != nil {
		return nil, err
	}
	if st.Set, err = p.parseSetClauses(); err != nil {
		return nil, err
	}
	if p.isKw("from") {
		return nil, p.unsupportedAt(p.peek(), "UPDATE … FROM")
	}
	if p.acceptKw("where") {
		if p.isKw("current") {
			return nil, p.unsupportedAt(p.peek(), "WHERE CURRENT OF")
		}
		if st.Where, err = p.parseExpr(); err != nil {
			return nil, err
		}
	}
	if st.Returning, st.Into, err = p.parseReturning(); err != nil {
		return nil, err
	}
	p.finish(&st.stmtBase, start)
	return st, nil
}

func (p *parser) parseDelete() (Stmt, error) {
	start := p.next() // delete
	if err := p.expectKw("from"); err != nil {
		return nil, err
	}
	p.acceptKw("only")
	st := &DeleteStmt{}
	var err error
	if _, st.Table, err = p.qualifiedName(); err != nil {
		return nil, err
	}
	if p.acceptKw("as") {
		if st.Alias, err = p.anyIdent(); err != nil {
			return nil, err
		}
	} else if t := p.peek(); t.Kind == TQuotedIdent || (t.Kind == TIdent && !reserved[t.Text]) {
		p.next()
		st.Alias = t.Text
	}
	if p.isKw("using") {
		return nil, p.unsupportedAt(p.peek(), "DELETE … USING")
	}
	if p.acceptKw("where") {
		if st.Where, err = p.parseExpr(); err != nil {
			return nil, err
		}
	}
	if st.Returning, st.Into, err = p.parseReturning(); err != nil {
		return nil, err
	}
	p.finish(&st.stmtBase, start)
	return st, nil
}
