package minipg

import (
	"strings"
)

// PL/pgSQL interpreter.

type plReturn struct {
	returned bool
	value    Value
}

func (ev *env) isRowVar(v *variable) bool {
	if v.typ == nil {
		return false
	}
	if v.typ.Array {
		return false
	}
	if v.typ.Name == "record" {
		return true
	}
	k, _ := ev.eng().kindOf(v.typ)
	return k == kComposite
}

func (ev *env) runPLFunction(f *funcDef, trig *triggerData) (Value, error) {
	fr := ev.frame
	eng := ev.eng()
	isTrigger := f.returns.Name == "trigger"
	if isTrigger {
		if trig == nil {
			return nil, errf("feature_not_supported", "trigger functions can only be called as triggers")
		}
		rt := &Type{Name: trig.table}
		fr.declare(&variable{name: "new", typ: rt, val: trig.newRow})
		fr.declare(&variable{name: "old", typ: rt, val: trig.oldRow})
		fr.declare(&variable{name: "tg_op", typ: typText, val: strings.ToUpper(trig.op)})
		fr.declare(&variable{name: "tg_table_name", typ: typText, val: trig.table})
	}
	for _, d := range f.plBody.Decls {
		v := &variable{name: d.Name, typ: d.Type}
		if d.Default != nil {
			val, err := ev.eval(d.Default)
			if err != nil {
				return nil, err
			}
			if v.val, err = eng.cast(val, d.Type, castPL, isUntypedLit(d.Default)); err != nil {
				return nil, wrapErr(err, "initialiser of variable "+d.Name)
			}
		}
		fr.declare(v)
	}
	ret, err := ev.execPLStmts(f.plBody.Body)
	if err != nil {
		return nil, err
	}
	rk, _ := eng.kindOf(f.returns)
	if rk == kVoid {
		return nil, nil
	}
	if !ret.returned {
		if isTrigger {
			return nil, errf("plpgsql_error", "control reached end of trigger procedure without RETURN")
		}
		return nil, errf("plpgsql_error", "control reached end of function without RETURN")
	}
	if isTrigger {
		return ret.value, nil
	}
	return eng.cast(ret.value, f.returns, castPL, false)
}

func (ev *env) execPLStmts(stmts []PLStmt) (plReturn, error) {
	for _, st := range stmts {
		r, err := ev.execPLStmt(st)
		if err != nil || r.returned {
			return r, err
		}
	}
	return plReturn{}, nil
}

func (ev *env) assignTarget(t *PLTarget, val Value, isLit bool) error {
	v := ev.findVar(t.Name)
	if v == nil {
		return errf("plpgsql_error", "%q is not a known variable (offset %d)", t.Name, t.Pos)
	}
	eng := ev.eng()
	if t.Field == "" {
		c, err := eng.cast(val, v.typ, castPL, isLit)
		if err != nil {
			return wrapErr(err, "assignment to "+t.Name)
		}
		v.val = c
		return nil
	}
	k, _ := eng.kindOf(v.typ)
	if v.typ == nil || k != kComposite {
		return errf("plpgsql_error", "cannot assign to field %q of non-composite variable %q", t.Field, t.Name)
	}
	td := eng.types[v.typ.Name]
	i := td.fieldIndex(t.Field)
	if i < 0 {
		return errf("undefined_column", "record %q has no field %q", t.Name, t.Field)
	}
	c, err := eng.cast(val, td.ftypes[i], castPL, isLit)
	if err != nil {
		return wrapErr(err, "assignment to "+t.Name+"."+t.Field)
	}
	fields := make([]Value, len(td.fields))
	if cur, ok := v.val.(Composite); ok {
		copy(fields, cur.Fields)
	}
	fields[i] = c
	v.val = Composite{Type: td.name, Fields: fields}
	return nil
}

// assignRow stores a result row (or "no row": row == nil) into INTO / FOR targets.
func (ev *env) assignRow(targets []*PLTarget, rel *relation, row []Value) error {
	eng := ev.eng()
	if len(targets) == 1 && targets[0].Field == "" {
		v := ev.findVar(targets[0].Name)
		if v == nil {
			return errf("plpgsql_error", "%q is not a known variable (offset %d)", targets[0].Name, targets[0].Pos)
		}
		if ev.isRowVar(v) {
			if row == nil {
				v.val = nil
				return nil
			}
			if v.typ.Name == "record" {
				v.val = Composite{Type: rel.rowType, Fields: row}
				return nil
			}
			td := eng.types[v.typ.Name]
			if len(row) == 1 {
				if c, ok := row[0].(Composite); ok && (c.Type == td.name || len(td.fields) != 1) {
					cv, err := eng.cast(c, v.typ, castPL, false)
					if err != nil {
						return err
					}
					v.val = cv
					return nil
				}
			}
			fields := make([]Value, len(td.fields))
			for i := range fields {
				if i < len(row) {
					c, err := eng.cast(row[i], td.ftypes[i], castPL, false)
					if err != nil {
						return wrapErr(err, "field "+td.fields[i]+" of "+v.name)
					}
					fields[i] = c
				}
			}
			v.val = Composite{Type: td.name, Fields: fields}
			return nil
		}
	}
	for i, t := range targets {
		if v := ev.findVar(t.Name); v != nil && t.Field == "" && ev.isRowVar(v) {
			return errf("syntax_error", "record variable %q cannot be part of multiple-item INTO list", t.Name)
		}
		var val Value
		if row != nil && i < len(row) {
			val = row[i]
		}
		if err := ev.assignTarget(t, val, false); err != nil {
			return err
		}
	}
	return nil
}

func (ev *env) execPLStmt(st PLStmt) (plReturn, error) {
	fr := ev.frame
	switch n := st.(type) {
	case *PLNull:
		return plReturn{}, nil
	case *PLAssign:
		v, err := ev.eval(n.Value)
		if err != nil {
			return plReturn{}, err
		}
		return plReturn{}, ev.assignTarget(n.Target, v, isUntypedLit(n.Value))
	case *PLIf:
		for _, b := range n.Branches {
			ok, err := ev.evalBool(b.Cond)
			if err != nil {
				return plReturn{}, err
			}
			if ok {
				return ev.execPLStmts(b.Body)
			}
		}
		return ev.execPLStmts(n.Else)
	case *PLPerform:
		rel, err := ev.runSelect(n.Query)
		if err != nil {
			return plReturn{}, err
		}
		fr.found = len(rel.rows) > 0
		return plReturn{}, nil
	case *PLForQuery:
		rel, err := ev.runSelect(n.Query)
		if err != nil {
			return plReturn{}, err
		}
		for _, row := range rel.rows {
			if err := ev.assignRow(n.Targets, rel, row); err != nil {
				return plReturn{}, err
			}
			r, err := ev.execPLStmts(n.Body)
			if err != nil || r.returned {
				return r, err
			}
		}
		fr.found = len(rel.rows) > 0
		return plReturn{}, nil
	case *PLReturn:
		if n.Value == nil {
			return plReturn{returned: true}, nil
		}
		v, err := ev.eval(n.Value)
		if err != nil {
			return plReturn{}, err
		}
		return plReturn{returned: true, value: v}, nil
	case *PLRaise:
		if n.Level != "exception" {
			for _, a := range n.Args {
				if _, err := ev.eval(a); err != nil {
					return plReturn{}, err
				}
			}
			return plReturn{}, nil
		}
		var sb strings.Builder
		ai := 0
		for i := 0; i < len(n.Format); i++ {
			if n.Format[i] == '%' {
				if i+1 < len(n.Format) && n.Format[i+1] == '%' {
					sb.WriteByte('%')
					i++
					continue
				}
				if ai >= len(n.Args) {
					return plReturn{}, errf("syntax_error", "too few parameters specified for RAISE")
				}
				v, err := ev.eval(n.Args[ai])
				if err != nil {
					return plReturn{}, err
				}
				ai++
				if v == nil {
					sb.WriteString("<NULL>")
				} else {
					sb.WriteString(outText(v))
				}
				continue
			}
			sb.WriteByte(n.Format[i])
		}
		return plReturn{}, errf("raise_exception", "%s", sb.String())
	case *PLSQL:
		switch q := n.Stmt.(type) {
		case *SelectStmt:
			if q.Into == nil {
				return plReturn{}, errf("syntax_error", "query has no destination for result data (use PERFORM to discard results)")
			}
			rel, err := ev.runSelect(q)
			if err != nil {
				return plReturn{}, err
			}
			var row []Value
			if len(rel.rows) > 0 {
				row = rel.rows[0]
			}
			fr.found = row != nil
			return plReturn{}, ev.assignRow(q.Into, rel, row)
		case *InsertStmt, *UpdateStmt, *DeleteStmt:
			rel, err := ev.execStatement(q)
			if err != nil {
				return plReturn{}, err
			}
			fr.found = ev.s.rowCount > 0
			var into []*PLTarget
			switch x := q.(type) {
			case *InsertStmt:
				into = x.Into
			case *UpdateStmt:
				into = x.Into
			case *DeleteStmt:
				into = x.Into
			}
			if into != nil {
				if rel == nil {
					return plReturn{}, errf("syntax_error", "INTO used without RETURNING")
				}
				if len(rel.rows) > 1 {
					return plReturn{}, errf("too_many_rows", "query returned more than one row")
				}
				var row []Value
				if len(rel.rows) == 1 {
					row = rel.rows[0]
				}
				return plReturn{}, ev.assignRow(into, rel, row)
			}
			return plReturn{}, nil
		}
	}
	return plReturn{}, unsupported("PL/pgSQL statement %T", st)
}
