//go:build !race

package minipg

const raceEnabled = false
