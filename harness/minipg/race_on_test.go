//go:build race

package minipg

const raceEnabled = true
