package minipg

import (
	"fmt"
	"math/big"
	"sort"
	"strings"
	"sync/atomic"
)

type cteScope struct {
	parent     *cteScope
	name       string
	cte        *CTE
	recursive  bool
	defEnv     *env
	rel        *relation // memoised result
	working    *relation // recursive evaluation: current working table
	evaluating bool
}

func (ev *env) execStatement(st Stmt) (*relation, error) {
	switch s := st.(type) {
	case *SelectStmt:
		if s.Into != nil {
			return nil, errf("syntax_error", "SELECT … INTO is only valid as a PL/pgSQL statement")
		}
		return ev.runSelect(s)
	case *InsertStmt:
		return ev.execInsert(s)
	case *UpdateStmt:
		return ev.execUpdate(s)
	case *DeleteStmt:
		return ev.execDelete(s)
	}
	return nil, unsupported("statement %T", st)
}

// runSelect evaluates a query in the context of ev (ev supplies outer rows for correlated references, variables and CTEs).
func (ev *env) runSelect(s *SelectStmt) (*relation, error) {
	if s.With != nil {
		cur := ev.ctes
		for _, c := range s.With {
			sc := &cteScope{parent: cur, name: c.Name, cte: c, recursive: s.Recursive}
			sc.defEnv = &env{s: ev.s, parent: ev.parent, rtes: ev.rtes, cur: ev.cur, frame: ev.frame, ctes: cur}
			cur = sc
		}
		ev2 := *ev
		ev2.ctes = cur
		ev = &ev2
	}
	var rel *relation
	var err error
	switch {
	case s.SetOp != "":
		rel, err = ev.runSetOp(s)
	case s.Values != nil:
		rel = &relation{}
		for _, row := range s.Values {
			out := make([]Value, len(row))
			for i, x := range row {
				if out[i], err = ev.eval(x); err != nil {
					return nil, err
				}
			}
			rel.rows = append(rel.rows, out)
		}
		for i := range s.Values[0] {
			rel.cols = append(rel.cols, fmt.Sprintf("column%d", i+1))
			rel.types = append(rel.types, nil)
		}
		rel, err = ev.finishOutputOnly(s, rel)
	default:
		rel, err = ev.runCore(s)
	}
	return rel, err
}

func (ev *env) evalCTE(sc *cteScope) (*relation, error) {
	if sc.rel != nil {
		return sc.rel, nil
	}
	if sc.evaluating {
		if sc.working != nil {
			return sc.working, nil
		}
		return nil, errf("invalid_recursion", "recursive reference to query %q must not appear within its non-recursive term", sc.name)
	}
	sc.evaluating = true
	defer func() { sc.evaluating = false }()
	q := sc.cte.Query
	rename := func(r *relation) (*relation, error) {
		if len(sc.cte.Columns) == 0 {
			return r, nil
		}
		if len(sc.cte.Columns) > len(r.cols) {
			return nil, errf("invalid_column_reference", "WITH query %q has %d columns available but %d columns specified", sc.name, len(r.cols), len(sc.cte.Columns))
		}
		cols := append([]string(nil), r.cols...)
		copy(cols, sc.cte.Columns)
		return &relation{cols: cols, types: r.types, rows: r.rows}, nil
	}
	refRight, refLeft := false, false
	if sc.recursive && q.SetOp == "union" {
		st := atomic.LoadInt32(&sc.cte.recState)
		if st&1 == 0 {
			st = 1
			if selectRefersTo(q.Right, sc.name) {
				st |= 2
			}
			if selectRefersTo(q.Left, sc.name) {
				st |= 4
			}
			atomic.StoreInt32(&sc.cte.recState, st)
		}
		refRight, refLeft = st&2 != 0, st&4 != 0
	}
	if refRight {
		if q.OrderBy != nil || q.Limit != nil || q.Offset != nil {
			return nil, unsupported("ORDER BY / LIMIT in a recursive query")
		}
		if refLeft {
			return nil, errf("invalid_recursion", "recursive reference to query %q must not appear within its non-recursive term", sc.name)
		}
		inner := *sc.defEnv
		inner.ctes = sc
		if q.With != nil {
			return nil, unsupported("WITH inside a recursive CTE body")
		}
		base, err := inner.runSelect(q.Left)
		if err != nil {
			return nil, err
		}
		base, err = rename(base)
		if err != nil {
			return nil, err
		}
		result := &relation{cols: base.cols, types: base.types}
		seen := map[string]bool{}
		add := func(rows [][]Value) [][]Value {
			var kept [][]Value
			for _, r := range rows {
				if !q.SetAll {
					k := valueKey(Array(r))
					if seen[k] {
						continue
					}
					seen[k] = true
				}
				kept = append(kept, r)
			}
			result.rows = append(result.rows, kept...)
			return kept
		}
		work := add(base.rows)
		for iter := 0; len(work) > 0; iter++ {
			if iter > 100000 {
				return nil, errf("program_limit_exceeded", "recursive query %q did not terminate after 100000 iterations", sc.name)
			}
			sc.working = &relation{cols: base.cols, types: base.types, rows: work}
			next, err := inner.runSelect(q.Right)
			if err != nil {
				sc.working = nil
				return nil, err
			}
			if len(next.cols) != len(base.cols) {
				sc.working = nil
				return nil, errf("syntax_error", "each UNION query must have the same number of columns")
			}
			work = add(next.rows)
		}
		sc.working = nil
		sc.rel = result
		return result, nil
	}
	inner := *sc.defEnv
	if sc.recursive {
		inner.ctes = sc // WITH RECURSIVE: the name is in scope, but this query makes no recursive use of it
	}
	r, err := inner.runSelect(q)
	if err != nil {
		return nil, err
	}
	if r, err = rename(r); err != nil {
		return nil, err
	}
	sc.rel = r
	return r, nil
}

func selectRefersTo(s *SelectStmt, name string) bool {
	found := false
	Walk(s, func(n Node) bool {
		if t, ok := n.(*TableRef); ok && t.Schema == "" && t.Name == name {
			found = true
		}
		return !found
	})
	return found
}

func (ev *env) runSetOp(s *SelectStmt) (*relation, error) {
	l, err := ev.runSelect(s.Left)
	if err != nil {
		return nil, err
	}
	r, err := ev.runSelect(s.Right)
	if err != nil {
		return nil, err
	}
	if len(l.cols) != len(r.cols) {
		return nil, errf("syntax_error", "each UNION query must have the same number of columns")
	}
	out := &relation{cols: l.cols, types: l.types}
	out.rows = append(append([][]Value{}, l.rows...), r.rows...)
	if !s.SetAll {
		seen := map[string]bool{}
		var ded [][]Value
		for _, row := range out.rows {
			k := valueKey(Array(row))
			if !seen[k] {
				seen[k] = true
				ded = append(ded, row)
			}
		}
		out.rows = ded
	}
	return ev.finishOutputOnly(s, out)
}

// finishOutputOnly applies ORDER BY (output columns only) / LIMIT / OFFSET to a set-operation or VALUES result.
func (ev *env) finishOutputOnly(s *SelectStmt, rel *relation) (*relation, error) {
	if len(s.OrderBy) > 0 {
		idx := make([]int, len(s.OrderBy))
		desc := make([]bool, len(s.OrderBy))
		nulls := make([]int, len(s.OrderBy))
		for i, o := range s.OrderBy {
			k := -1
			switch x := o.Expr.(type) {
			case *NumberLit:
				n, _ := parseInteger(x.Text, "integer")
				if n != nil && n.IsInt64() && n.Int64() >= 1 && int(n.Int64()) <= len(rel.cols) {
					k = int(n.Int64()) - 1
				}
			case *ColumnRef:
				if len(x.Parts) == 1 {
					for c, cn := range rel.cols {
						if cn == x.Parts[0] {
							k = c
							break
						}
					}
				}
			}
			if k < 0 {
				return nil, unsupported("ORDER BY on a UNION/VALUES result must name an output column")
			}
			idx[i], desc[i] = k, o.Desc
			nulls[i] = nullsCode(o.Nulls)
		}
		rows := rel.rows
		err := sortStable(len(rows), func(i int) []Value {
			ks := make([]Value, len(idx))
			for j, c := range idx {
				ks[j] = rows[i][c]
			}
			return ks
		}, desc, nulls, func(perm []int) {
			nr := make([][]Value, len(rows))
			for i, p := range perm {
				nr[i] = rows[p]
			}
			rel = &relation{cols: rel.cols, types: rel.types, rows: nr}
		})
		if err != nil {
			return nil, err
		}
	}
	rows, err := ev.applyLimit(s, rel.rows)
	if err != nil {
		return nil, err
	}
	return &relation{cols: rel.cols, types: rel.types, rows: rows}, nil
}

func nullsCode(s string) int {
	switch s {
	case "first":
		return 1
	case "last":
		return 2
	}
	return 0
}

func (ev *env) applyLimit(s *SelectStmt, rows [][]Value) ([][]Value, error) {
	num := func(x Expr, what string) (int, bool, error) {
		v, err := ev.eval(x)
		if err != nil {
			return 0, false, err
		}
		if v == nil {
			return 0, false, nil
		}
		if str, ok := v.(string); ok && isUntypedLit(x) {
			if v, err = parseInteger(str, "bigint"); err != nil {
				return 0, false, err
			}
		}
		n, ok := v.(*big.Int)
		if !ok {
			return 0, false, errf("datatype_mismatch", "argument of %s must be type bigint, not type %s", what, kindName(v))
		}
		if n.Sign() < 0 {
			return 0, false, errf("invalid_row_count", "%s must not be negative", what)
		}
		if !n.IsInt64() || n.Int64() > int64(len(rows)) {
			return len(rows), true, nil
		}
		return int(n.Int64()), true, nil
	}
	if s.Offset != nil {
		n, ok, err := num(s.Offset, "OFFSET")
		if err != nil {
			return nil, err
		}
		if ok {
			rows = rows[n:]
		}
	}
	if s.Limit != nil {
		n, ok, err := num(s.Limit, "LIMIT")
		if err != nil {
			return nil, err
		}
		if ok && n < len(rows) {
			rows = rows[:n]
		}
	}
	return rows, nil
}

// ---------------------------------------------------------------------------------------------------------------------
// FROM

type fromCtx struct {
	q        *env
	idx      map[FromItem]int
	cache    map[FromItem]*relation
	items    []FromItem     // leaf item per rte
	nullable []bool         // rte is on the nullable side of a LEFT JOIN
	pushed   map[int][]Expr // WHERE conjuncts evaluated as soon as rte i is bound (predicate pushdown)
}

func (fc *fromCtx) setup(item FromItem, nullable bool) error {
	switch n := item.(type) {
	case *JoinExpr:
		if err := fc.setup(n.Left, nullable); err != nil {
			return err
		}
		return fc.setup(n.Right, nullable || n.Kind == "left")
	case *TableRef:
		alias := n.Alias
		if alias == "" {
			alias = n.Name
		}
		return fc.addRTE(item, alias, nullable)
	case *SubqueryRef:
		return fc.addRTE(item, n.Alias, nullable)
	case *FuncRef:
		alias := n.Alias
		if alias == "" {
			alias = n.Call.Name
		}
		return fc.addRTE(item, alias, nullable)
	}
	return unsupported("FROM item %T", item)
}

func (fc *fromCtx) addRTE(item FromItem, alias string, nullable bool) error {
	for _, r := range fc.q.rtes {
		if r.alias == alias {
			return errf("duplicate_alias", "table name %q specified more than once", alias)
		}
	}
	fc.idx[item] = len(fc.q.rtes)
	fc.q.rtes = append(fc.q.rtes, &rte{alias: alias})
	fc.items = append(fc.items, item)
	fc.nullable = append(fc.nullable, nullable)
	return nil
}

// staticCols returns the column names of rte i when they are known without evaluating anything.
func (fc *fromCtx) staticCols(i int) ([]string, bool) {
	eng := fc.q.eng()
	apply := func(cols []string, aliases []string) ([]string, bool) {
		if len(aliases) > len(cols) {
			return nil, false
		}
		out := append([]string(nil), cols...)
		copy(out, aliases)
		return out, true
	}
	switch n := fc.items[i].(type) {
	case *TableRef:
		if n.Schema == "" {
			for sc := fc.q.ctes; sc != nil; sc = sc.parent {
				if sc.name == n.Name {
					return nil, false
				}
			}
		}
		if td, ok := eng.tables[n.Name]; ok {
			return apply(td.colNames, n.ColAliases)
		}
	case *FuncRef:
		name := n.Call.Name
		if n.Alias != "" {
			name = n.Alias
		}
		if f, ok := eng.funcs[n.Call.Name]; ok {
			if rk, _ := eng.kindOf(f.returns); rk == kComposite && !f.returns.Array {
				return apply(eng.types[f.returns.Name].fields, n.ColAliases)
			}
			return apply([]string{name}, n.ColAliases)
		}
		if sf, ok := builtinSRFs[n.Call.Name]; ok {
			cols := append([]string(nil), sf.cols...)
			if cols[0] == "" {
				cols[0] = name
			}
			return apply(cols, n.ColAliases)
		}
		if _, ok := builtinFuncs[n.Call.Name]; ok {
			return apply([]string{name}, n.ColAliases)
		}
	}
	return nil, false
}

// pushTarget decides whether WHERE conjunct x can be evaluated early. It returns the index of the last FROM entry the
// conjunct depends on, or -1 when it must stay in the final WHERE (sub-selects, references that cannot be attributed
// statically, or dependencies on the nullable side of a LEFT JOIN).
func (fc *fromCtx) pushTarget(x Expr) int {
	q := fc.q
	target := -1
	ok := true
	dep := func(i int) {
		if fc.nullable[i] {
			ok = false
		}
		if i > target {
			target = i
		}
	}
	Walk(x, func(n Node) bool {
		if !ok {
			return false
		}
		switch c := n.(type) {
		case *SelectStmt:
			ok = false
			return false
		case *FuncCall:
			if c.Over || q.eng().isAggregate(c.Name) || q.isSRF(c.Name) {
				ok = false
			}
		case *ColumnRef:
			first := c.Parts[0]
			for i, rt := range q.rtes {
				if rt.alias == first {
					dep(i)
					return true
				}
			}
			if len(c.Parts) > 1 {
				return true // outer query alias or variable.field
			}
			found := -1
			for i := range q.rtes {
				cols, known := fc.staticCols(i)
				if !known {
					ok = false
					return false
				}
				for _, cn := range cols {
					if cn == first {
						if found >= 0 {
							ok = false // ambiguous: let the normal evaluation report it
							return false
						}
						found = i
					}
				}
			}
			if found >= 0 {
				dep(found)
			}
		}
		return true
	})
	if !ok {
		return -1
	}
	return target
}

func splitAnd(x Expr, out []Expr) []Expr {
	if b, ok := x.(*BinaryExpr); ok && b.Op == "and" {
		return splitAnd(b.R, splitAnd(b.L, out))
	}
	return append(out, x)
}

// filterPushed applies the conjuncts attached to rte i to freshly produced tuples.
func (fc *fromCtx) filterPushed(i int, tuples [][][]Value) ([][][]Value, error) {
	conjs := fc.pushed[i]
	if len(conjs) == 0 {
		return tuples, nil
	}
	kept := tuples[:0]
	for _, t := range tuples {
		fc.q.cur = t
		pass := true
		for _, c := range conjs {
			okc, err := fc.q.evalBool(c)
			if err != nil {
				return nil, err
			}
			if !okc {
				pass = false
				break
			}
		}
		if pass {
			kept = append(kept, t)
		}
	}
	return kept, nil
}

func (fc *fromCtx) bind(i int, rel *relation) {
	rt := fc.q.rtes[i]
	if rt.rel == nil {
		rt.rel = &relation{cols: rel.cols, types: rel.types, rowType: rel.rowType, scalar: rel.scalar}
		rt.nullRow = make([]Value, len(rel.cols))
	}
}

func withCols(rel *relation, colAliases []string, alias string) (*relation, error) {
	if len(colAliases) == 0 {
		return rel, nil
	}
	if len(colAliases) > len(rel.cols) {
		return nil, errf("invalid_column_reference", "table %q has %d columns available but %d columns specified", alias, len(rel.cols), len(colAliases))
	}
	cols := append([]string(nil), rel.cols...)
	copy(cols, colAliases)
	return &relation{cols: cols, types: rel.types, rows: rel.rows, rowType: rel.rowType, scalar: rel.scalar}, nil
}

func (ev *env) lookupRelation(t *TableRef) (*relation, error) {
	if t.Schema == "" {
		for sc := ev.ctes; sc != nil; sc = sc.parent {
			if sc.name == t.Name {
				return ev.evalCTE(sc)
			}
		}
	}
	td, ok := ev.s.db.tables[t.Name]
	if !ok {
		return nil, errf("undefined_table", "relation %q does not exist", t.Name)
	}
	return &relation{cols: td.def.colNames, types: td.def.colTypes, rows: td.rows, rowType: td.def.name}, nil
}

func extend(base [][]Value, i int, row []Value) [][]Value {
	t := make([][]Value, len(base))
	copy(t, base)
	t[i] = row
	return t
}

// scan returns the tuples produced by item, each extending base (which carries the rows of the items to its left).
func (fc *fromCtx) scan(item FromItem, base [][]Value) ([][][]Value, error) {
	q := fc.q
	switch n := item.(type) {
	case *TableRef:
		i := fc.idx[item]
		rel, ok := fc.cache[item]
		if !ok {
			r, err := q.lookupRelation(n)
			if err != nil {
				return nil, err
			}
			alias := n.Alias
			if alias == "" {
				alias = n.Name
			}
			if rel, err = withCols(r, n.ColAliases, alias); err != nil {
				return nil, err
			}
			fc.cache[item] = rel
			fc.bind(i, rel)
		}
		out := make([][][]Value, len(rel.rows))
		for k, row := range rel.rows {
			out[k] = extend(base, i, row)
		}
		return fc.filterPushed(i, out)
	case *SubqueryRef:
		i := fc.idx[item]
		var rel *relation
		if n.Lateral {
			q.cur = base
			r, err := q.runSelect(n.Query)
			if err != nil {
				return nil, err
			}
			rel = r
		} else {
			var ok bool
			if rel, ok = fc.cache[item]; !ok {
				outer := &env{s: q.s, parent: q.parent, frame: q.frame, ctes: q.ctes}
				r, err := outer.runSelect(n.Query)
				if err != nil {
					return nil, err
				}
				rel = r
				fc.cache[item] = rel
			}
		}
		rel, err := withCols(rel, n.ColAliases, n.Alias)
		if err != nil {
			return nil, err
		}
		fc.bind(i, rel)
		out := make([][][]Value, len(rel.rows))
		for k, row := range rel.rows {
			out[k] = extend(base, i, row)
		}
		return fc.filterPushed(i, out)
	case *FuncRef:
		i := fc.idx[item]
		q.cur = base
		rel, err := q.callSRF(n.Call, n.Alias, n.ColAliases)
		if err != nil {
			return nil, err
		}
		fc.bind(i, rel)
		out := make([][][]Value, len(rel.rows))
		for k, row := range rel.rows {
			out[k] = extend(base, i, row)
		}
		return fc.filterPushed(i, out)
	case *JoinExpr:
		lefts, err := fc.scan(n.Left, base)
		if err != nil {
			return nil, err
		}
		if len(lefts) == 0 {
			fc.describe(n.Right, base)
		}
		var out [][][]Value
		for _, l := range lefts {
			rights, err := fc.scan(n.Right, l)
			if err != nil {
				return nil, err
			}
			matched := false
			for _, r := range rights {
				if n.On != nil {
					q.cur = r
					ok, err := q.evalBool(n.On)
					if err != nil {
						return nil, err
					}
					if !ok {
						continue
					}
				}
				matched = true
				out = append(out, r)
			}
			if !matched && n.Kind == "left" {
				t := make([][]Value, len(l))
				copy(t, l)
				fc.nullExtend(n.Right, t)
				out = append(out, t)
			}
		}
		return out, nil
	}
	return nil, unsupported("FROM item %T", item)
}

// describe learns the column lists of items that were never scanned because the left side of their join is empty
// (needed for `*` expansion and column lookups in enclosing queries). Errors are ignored: with no rows nothing is evaluated.
func (fc *fromCtx) describe(item FromItem, base [][]Value) {
	defer func() { _ = recover() }()
	t := make([][]Value, len(base))
	copy(t, base)
	for i, rt := range fc.q.rtes {
		if t[i] == nil && rt.rel != nil {
			t[i] = rt.nullRow
		}
	}
	switch n := item.(type) {
	case *JoinExpr:
		fc.describe(n.Left, base)
		fc.describe(n.Right, base)
	case *FuncRef:
		// only describe user functions (known signature) and built-in SRFs without evaluating user code
		i := fc.idx[item]
		if fc.q.rtes[i].rel != nil {
			return
		}
		eng := fc.q.eng()
		if f, ok := eng.funcs[n.Call.Name]; ok {
			rk, _ := eng.kindOf(f.returns)
			if rk == kComposite && !f.returns.Array {
				td := eng.types[f.returns.Name]
				rel, _ := withCols(&relation{cols: td.fields, types: td.ftypes, rowType: td.name}, n.ColAliases, n.Alias)
				if rel != nil {
					fc.bind(i, rel)
				}
				return
			}
			name := f.name
			if n.Alias != "" {
				name = n.Alias
			}
			rel, _ := withCols(&relation{cols: []string{name}, types: []*Type{f.returns}, scalar: true}, n.ColAliases, n.Alias)
			if rel != nil {
				fc.bind(i, rel)
			}
			return
		}
		if sf, ok := builtinSRFs[n.Call.Name]; ok {
			cols := append([]string(nil), sf.cols...)
			if cols[0] == "" {
				cols[0] = n.Call.Name
				if n.Alias != "" {
					cols[0] = n.Alias
				}
			}
			rel, _ := withCols(&relation{cols: cols, types: sf.types, scalar: len(cols) == 1}, n.ColAliases, n.Alias)
			if rel != nil {
				fc.bind(i, rel)
			}
		}
	case *TableRef, *SubqueryRef:
		i := fc.idx[item]
		if fc.q.rtes[i].rel != nil {
			return
		}
		save := fc.q.cur
		_, _ = fc.scan(item, t)
		fc.q.cur = save
	}
}

func (fc *fromCtx) nullExtend(item FromItem, t [][]Value) {
	switch n := item.(type) {
	case *JoinExpr:
		fc.nullExtend(n.Left, t)
		fc.nullExtend(n.Right, t)
	default:
		i := fc.idx[item]
		rt := fc.q.rtes[i]
		if rt.nullRow == nil {
			rt.nullRow = []Value{}
		}
		if len(rt.nullRow) == 0 {
			t[i] = []Value{}
		} else {
			t[i] = rt.nullRow
		}
	}
}

// ---------------------------------------------------------------------------------------------------------------------
// SELECT core

type outCol struct {
	expr Expr
	name string
	rte  int // star expansion: direct reference
	col  int
	typ  *Type
	srf  *FuncCall
}

func exprName(x Expr) string {
	switch n := x.(type) {
	case *ColumnRef:
		return n.Parts[len(n.Parts)-1]
	case *FuncCall:
		return n.Name
	case *CastExpr:
		if in := exprName(n.X); in != "?column?" {
			return in
		}
		return n.Type.Name
	case *FieldSelect:
		return n.Field
	case *CaseExpr:
		if n.Else != nil {
			if en := exprName(n.Else); en != "?column?" {
				return en
			}
		}
		return "case"
	case *RowExpr:
		return "row"
	case *ArrayExpr:
		return "array"
	case *ExistsExpr:
		return "exists"
	case *BoolLit:
		return "bool"
	case *SubqueryExpr:
		if n.Query.SetOp == "" && len(n.Query.Items) == 1 {
			if n.Query.Items[0].Alias != "" {
				return n.Query.Items[0].Alias
			}
			return exprName(n.Query.Items[0].Expr)
		}
	}
	return "?column?"
}

func (ev *env) hasAggregates(s *SelectStmt) bool {
	eng := ev.eng()
	switch atomic.LoadInt32(&s.aggState) {
	case 1:
		return false
	case 2:
		return true
	}
	found := false
	check := func(x Expr) {
		if x == nil || found {
			return
		}
		walkExprNoSubquery(x, func(e Expr) {
			if fc, ok := e.(*FuncCall); ok && !fc.Over && eng.isAggregate(fc.Name) {
				found = true
			}
		})
	}
	for _, it := range s.Items {
		check(it.Expr)
	}
	check(s.Having)
	for _, o := range s.OrderBy {
		check(o.Expr)
	}
	if found {
		atomic.StoreInt32(&s.aggState, 2)
	} else {
		atomic.StoreInt32(&s.aggState, 1)
	}
	return found
}

// walkExprNoSubquery visits x and its sub-expressions without descending into sub-selects.
func walkExprNoSubquery(x Expr, fn func(Expr)) {
	Walk(x, func(n Node) bool {
		switch n.(type) {
		case *SelectStmt:
			return false
		}
		if e, ok := n.(Expr); ok {
			fn(e)
		}
		return true
	})
}

// exprKey gives a canonical text of an expression in which column references are resolved to (level, rte, column), so that
// `m.asset` and `asset` compare equal when they denote the same column.
func (ev *env) exprKey(x Expr) string {
	var sb strings.Builder
	ev.writeExprKey(&sb, x)
	return sb.String()
}

func (ev *env) writeExprKey(sb *strings.Builder, x Expr) {
	switch n := x.(type) {
	case nil:
		sb.WriteString("nil")
	case *ColumnRef:
		if r, err := ev.resolveRef(n); err == nil && r.isCol {
			fmt.Fprintf(sb, "#%d.%d.%d", r.level, r.rte, r.col)
			return
		}
		sb.WriteString("ref:" + strings.Join(n.Parts, "."))
	case *NumberLit:
		sb.WriteString("n:" + n.Text)
	case *StringLit:
		fmt.Fprintf(sb, "s:%q", n.Val)
	case *NullLit:
		sb.WriteString("null")
	case *BoolLit:
		fmt.Fprintf(sb, "b:%v", n.Val)
	case *ParamRef:
		fmt.Fprintf(sb, "$%d", n.N)
	case *BinaryExpr:
		sb.WriteString("(")
		ev.writeExprKey(sb, n.L)
		sb.WriteString(" " + n.Op + " ")
		ev.writeExprKey(sb, n.R)
		sb.WriteString(")")
	case *UnaryExpr:
		sb.WriteString("(" + n.Op + " ")
		ev.writeExprKey(sb, n.X)
		sb.WriteString(")")
	case *CastExpr:
		sb.WriteString("cast(")
		ev.writeExprKey(sb, n.X)
		sb.WriteString(" as " + n.Type.String() + ")")
	case *FieldSelect:
		sb.WriteString("(")
		ev.writeExprKey(sb, n.X)
		sb.WriteString(")." + n.Field)
	case *FuncCall:
		sb.WriteString(n.Name + "(")
		if n.Distinct {
			sb.WriteString("distinct ")
		}
		if n.Star {
			sb.WriteString("*")
		}
		for i, a := range n.Args {
			if i > 0 {
				sb.WriteString(",")
			}
			sb.WriteString(a.Name + ":=")
			ev.writeExprKey(sb, a.Value)
		}
		sb.WriteString(")")
	case *RowExpr:
		sb.WriteString("row(")
		for i, a := range n.Items {
			if i > 0 {
				sb.WriteString(",")
			}
			ev.writeExprKey(sb, a)
		}
		sb.WriteString(")")
	default:
		fmt.Fprintf(sb, "%T@%p", x, x)
	}
}

type projRow struct {
	out   []Value
	okeys []Value
	dkeys []Value
}

func (ev *env) runCore(s *SelectStmt) (*relation, error) {
	q := ev.child()
	fc := &fromCtx{q: q, idx: map[FromItem]int{}, cache: map[FromItem]*relation{}}
	for _, it := range s.From {
		if err := fc.setup(it, false); err != nil {
			return nil, err
		}
	}
	tuples := [][][]Value{make([][]Value, len(q.rtes))}
	whereDone := false
	var residual []Expr
	if s.Where != nil && len(q.rtes) > 1 {
		for _, c := range splitAnd(s.Where, nil) {
			if at := fc.pushTarget(c); at >= 0 {
				if fc.pushed == nil {
					fc.pushed = map[int][]Expr{}
				}
				fc.pushed[at] = append(fc.pushed[at], c)
			} else {
				residual = append(residual, c)
			}
		}
	} else if s.Where != nil {
		residual = []Expr{s.Where}
	}
	if tr, ok := singleTable(s); ok {
		// fast path: one plain table/CTE in FROM: filter while scanning, allocating tuples only for surviving rows
		rel, err := q.lookupRelation(tr)
		if err != nil {
			return nil, err
		}
		alias := tr.Alias
		if alias == "" {
			alias = tr.Name
		}
		if rel, err = withCols(rel, tr.ColAliases, alias); err != nil {
			return nil, err
		}
		fc.bind(0, rel)
		tuples = tuples[:0]
		scratch := make([][]Value, 1)
		q.cur = scratch
		for _, row := range rel.rows {
			if s.Where != nil {
				scratch[0] = row
				q.cur = scratch
				ok, err := q.evalBool(s.Where)
				if err != nil {
					return nil, err
				}
				if !ok {
					continue
				}
			}
			tuples = append(tuples, [][]Value{row})
		}
		whereDone = true
	}
	for fi, it := range s.From {
		if whereDone {
			break
		}
		if len(tuples) == 0 {
			for _, rest := range s.From[fi:] {
				fc.describe(rest, make([][]Value, len(q.rtes)))
			}
			break
		}
		var next [][][]Value
		for _, base := range tuples {
			ts, err := fc.scan(it, base)
			if err != nil {
				return nil, err
			}
			next = append(next, ts...)
		}
		tuples = next
	}
	if len(residual) > 0 && !whereDone {
		kept := tuples[:0:0]
		for _, t := range tuples {
			q.cur = t
			pass := true
			for _, c := range residual {
				ok, err := q.evalBool(c)
				if err != nil {
					return nil, err
				}
				if !ok {
					pass = false
					break
				}
			}
			if pass {
				kept = append(kept, t)
			}
		}
		tuples = kept
	}
	nullTuple := make([][]Value, len(q.rtes))
	for i, rt := range q.rtes {
		if rt.rel != nil {
			nullTuple[i] = rt.nullRow
			if len(rt.nullRow) == 0 {
				nullTuple[i] = []Value{}
			}
		} else {
			nullTuple[i] = []Value{}
		}
	}
	q.cur = nullTuple
	if len(tuples) > 0 {
		q.cur = tuples[0]
	}

	// output columns
	var outs []outCol
	for _, it := range s.Items {
		switch x := it.Expr.(type) {
		case *Star:
			matched := false
			for i, rt := range q.rtes {
				if x.Table != "" && rt.alias != x.Table {
					continue
				}
				matched = true
				if rt.rel == nil {
					continue
				}
				for c, cn := range rt.rel.cols {
					var t *Type
					if c < len(rt.rel.types) {
						t = rt.rel.types[c]
					}
					outs = append(outs, outCol{name: cn, rte: i, col: c, typ: t})
				}
			}
			if x.Table == "" && len(q.rtes) == 0 {
				return nil, errf("syntax_error", "SELECT * with no tables specified is not valid")
			}
			if !matched {
				return nil, errf("undefined_table", "missing FROM-clause entry for table %q", x.Table)
			}
		default:
			name := it.Alias
			if name == "" {
				name = exprName(it.Expr)
			}
			oc := outCol{expr: it.Expr, name: name, rte: -1}
			if fcall, ok := it.Expr.(*FuncCall); ok && !fcall.Over && q.isSRF(fcall.Name) {
				oc.srf = fcall
			}
			outs = append(outs, oc)
		}
	}
	for i := range outs {
		if outs[i].expr != nil && outs[i].srf == nil {
			outs[i].typ = q.staticType(outs[i].expr)
		}
	}

	grouped := len(s.GroupBy) > 0 || s.Having != nil || ev.hasAggregates(s)

	// ORDER BY / DISTINCT ON resolution against output columns
	type keyRef struct {
		out  int // >= 0: output column
		expr Expr
	}
	resolveKey := func(x Expr) (keyRef, error) {
		switch n := x.(type) {
		case *NumberLit:
			v, err := parseInteger(n.Text, "integer")
			if err != nil {
				return keyRef{}, err
			}
			if !v.IsInt64() || v.Int64() < 1 || int(v.Int64()) > len(outs) {
				return keyRef{}, errf("invalid_column_reference", "ORDER BY position %s is not in select list", n.Text)
			}
			return keyRef{out: int(v.Int64()) - 1}, nil
		case *ColumnRef:
			if len(n.Parts) == 1 {
				match := -1
				for i, oc := range outs {
					if oc.name != n.Parts[0] {
						continue
					}
					if match >= 0 && q.outKey(outs[match]) != q.outKey(oc) {
						return keyRef{}, errf("ambiguous_column", "ORDER BY %q is ambiguous", n.Parts[0])
					}
					if match < 0 {
						match = i
					}
				}
				if match >= 0 {
					return keyRef{out: match}, nil
				}
			}
		}
		return keyRef{out: -1, expr: x}, nil
	}
	orderKeys := make([]keyRef, len(s.OrderBy))
	for i, o := range s.OrderBy {
		k, err := resolveKey(o.Expr)
		if err != nil {
			return nil, err
		}
		orderKeys[i] = k
	}
	distinctKeys := make([]keyRef, len(s.DistinctOn))
	for i, d := range s.DistinctOn {
		k, err := resolveKey(d)
		if err != nil {
			return nil, err
		}
		distinctKeys[i] = k
	}
	keyOf := func(k keyRef) string {
		if k.out >= 0 {
			return q.outKey(outs[k.out])
		}
		return q.exprKey(k.expr)
	}
	if len(distinctKeys) > 0 && len(orderKeys) > 0 {
		// SELECT DISTINCT ON expressions must match initial ORDER BY expressions
		dset := map[string]bool{}
		for _, d := range distinctKeys {
			dset[keyOf(d)] = true
		}
		seen := map[string]bool{}
		for i, o := range orderKeys {
			k := keyOf(o)
			if len(seen) == len(dset) {
				break
			}
			if !dset[k] {
				return nil, errf("invalid_column_reference", "SELECT DISTINCT ON expressions must match initial ORDER BY expressions (ORDER BY item %d)", i+1)
			}
			seen[k] = true
		}
	}
	if s.Distinct {
		for i, o := range orderKeys {
			if o.out < 0 {
				ok := false
				k := q.exprKey(o.expr)
				for _, oc := range outs {
					if q.outKey(oc) == k {
						ok = true
					}
				}
				if !ok {
					return nil, errf("invalid_column_reference", "for SELECT DISTINCT, ORDER BY expressions must appear in select list (item %d)", i+1)
				}
			}
		}
	}

	if grouped {
		if err := q.checkGrouping(s, outs); err != nil {
			return nil, err
		}
	}

	var prows []projRow
	keys := func(refs []keyRef, out []Value) ([]Value, error) {
		if len(refs) == 0 {
			return nil, nil
		}
		ks := make([]Value, len(refs))
		for i, k := range refs {
			if k.out >= 0 {
				ks[i] = out[k.out]
				continue
			}
			v, err := q.eval(k.expr)
			if err != nil {
				return nil, err
			}
			ks[i] = v
		}
		return ks, nil
	}
	emit := func(out []Value) error {
		ok, err := keys(orderKeys, out)
		if err != nil {
			return err
		}
		dk, err := keys(distinctKeys, out)
		if err != nil {
			return err
		}
		prows = append(prows, projRow{out: out, okeys: ok, dkeys: dk})
		return nil
	}
	project := func() error {
		base := make([]Value, len(outs))
		var srfRels []*relation
		var srfIdx []int
		for i, oc := range outs {
			switch {
			case oc.expr == nil:
				row := q.cur[oc.rte]
				if oc.col < len(row) {
					base[i] = row[oc.col]
				}
			case oc.srf != nil:
				rel, err := q.callSRF(oc.srf, "", nil)
				if err != nil {
					return err
				}
				srfRels = append(srfRels, rel)
				srfIdx = append(srfIdx, i)
			default:
				v, err := q.eval(oc.expr)
				if err != nil {
					return err
				}
				base[i] = v
			}
		}
		if len(srfRels) == 0 {
			return emit(base)
		}
		maxRows := 0
		for _, r := range srfRels {
			if len(r.rows) > maxRows {
				maxRows = len(r.rows)
			}
		}
		for k := 0; k < maxRows; k++ {
			out := append([]Value(nil), base...)
			for j, r := range srfRels {
				if k < len(r.rows) {
					if r.scalar || len(r.cols) == 1 {
						out[srfIdx[j]] = r.rows[k][0]
					} else {
						out[srfIdx[j]] = Composite{Type: r.rowType, Fields: r.rows[k]}
					}
				}
			}
			if err := emit(out); err != nil {
				return err
			}
		}
		return nil
	}

	if !grouped {
		for _, t := range tuples {
			q.cur = t
			q.rownum++
			if err := project(); err != nil {
				return nil, err
			}
		}
	} else {
		type group struct {
			key  []Value
			rows [][][]Value
		}
		var groups []*group
		if len(s.GroupBy) == 0 {
			groups = []*group{{rows: tuples}}
		} else {
			byKey := map[string]*group{}
			// GROUP BY item: an input expression, or (output name / position) a select-list expression
			gx := make([]Expr, len(s.GroupBy))
			gout := make([]int, len(s.GroupBy))
			for i, g := range s.GroupBy {
				gx[i], gout[i] = g, -1
				r, err := resolveKey(g)
				if err != nil {
					return nil, err
				}
				if r.out < 0 {
					continue
				}
				if cr, isRef := g.(*ColumnRef); isRef {
					// an input column of the same name takes precedence in GROUP BY
					if _, ok, _ := q.findColumn(cr.Parts[0]); ok {
						continue
					}
				}
				if outs[r.out].expr == nil {
					gout[i] = r.out
				} else {
					gx[i] = outs[r.out].expr
				}
			}
			for _, t := range tuples {
				q.cur = t
				kv := make([]Value, len(s.GroupBy))
				for i := range s.GroupBy {
					if gout[i] >= 0 {
						oc := outs[gout[i]]
						if row := t[oc.rte]; oc.col < len(row) {
							kv[i] = row[oc.col]
						}
						continue
					}
					v, err := q.eval(gx[i])
					if err != nil {
						return nil, err
					}
					kv[i] = v
				}
				ks := valueKey(Array(kv))
				g, ok := byKey[ks]
				if !ok {
					g = &group{key: kv}
					byKey[ks] = g
					groups = append(groups, g)
				}
				g.rows = append(g.rows, t)
			}
			// deterministic group order: sorted by grouping key (as Sort + GroupAggregate would produce)
			var serr error
			sort.SliceStable(groups, func(i, j int) bool {
				for k := range groups[i].key {
					c, err := compareNullable(groups[i].key[k], groups[j].key[k])
					if err != nil && serr == nil {
						serr = err
					}
					if c != 0 {
						return c < 0
					}
				}
				return false
			})
			if serr != nil {
				return nil, serr
			}
		}
		for _, g := range groups {
			if len(g.rows) > 0 {
				q.cur = g.rows[0]
			} else {
				q.cur = nullTuple
			}
			q.agg = &aggCtx{rows: g.rows}
			if s.Having != nil {
				ok, err := q.evalBool(s.Having)
				if err != nil {
					return nil, err
				}
				if !ok {
					continue
				}
			}
			if err := project(); err != nil {
				return nil, err
			}
		}
		q.agg = nil
	}

	// DISTINCT ON without ORDER BY: sort by the DISTINCT ON expressions (Sort + Unique)
	if len(distinctKeys) > 0 && len(orderKeys) == 0 {
		desc := make([]bool, len(distinctKeys))
		nulls := make([]int, len(distinctKeys))
		cur := prows
		if err := sortStable(len(cur), func(i int) []Value { return cur[i].dkeys }, desc, nulls, func(perm []int) {
			nr := make([]projRow, len(cur))
			for i, p := range perm {
				nr[i] = cur[p]
			}
			prows = nr
		}); err != nil {
			return nil, err
		}
	}
	if len(orderKeys) > 0 {
		desc := make([]bool, len(orderKeys))
		nulls := make([]int, len(orderKeys))
		for i, o := range s.OrderBy {
			desc[i] = o.Desc
			nulls[i] = nullsCode(o.Nulls)
		}
		cur := prows
		if err := sortStable(len(cur), func(i int) []Value { return cur[i].okeys }, desc, nulls, func(perm []int) {
			nr := make([]projRow, len(cur))
			for i, p := range perm {
				nr[i] = cur[p]
			}
			prows = nr
		}); err != nil {
			return nil, err
		}
	}
	if len(distinctKeys) > 0 || s.Distinct {
		seen := map[string]bool{}
		var kept []projRow
		for _, pr := range prows {
			var k string
			if s.Distinct {
				k = valueKey(Array(pr.out))
			} else {
				k = valueKey(Array(pr.dkeys))
			}
			if seen[k] {
				continue
			}
			seen[k] = true
			kept = append(kept, pr)
		}
		prows = kept
	}
	rel := &relation{}
	for _, oc := range outs {
		rel.cols = append(rel.cols, oc.name)
		rel.types = append(rel.types, oc.typ)
	}
	rel.rows = make([][]Value, len(prows))
	for i, pr := range prows {
		rel.rows[i] = pr.out
	}
	rows, err := ev.applyLimit(s, rel.rows)
	if err != nil {
		return nil, err
	}
	rel.rows = rows
	return rel, nil
}

func singleTable(s *SelectStmt) (*TableRef, bool) {
	if len(s.From) != 1 {
		return nil, false
	}
	tr, ok := s.From[0].(*TableRef)
	return tr, ok
}

func (ev *env) outKey(oc outCol) string {
	if oc.expr == nil {
		return fmt.Sprintf("#0.%d.%d", oc.rte, oc.col)
	}
	return ev.exprKey(oc.expr)
}

// checkGrouping enforces: every column of this query level referenced outside an aggregate must be a GROUP BY expression.
func (ev *env) checkGrouping(s *SelectStmt, outs []outCol) error {
	gkeys := map[string]bool{}
	for _, g := range s.GroupBy {
		gkeys[ev.exprKey(g)] = true
		// GROUP BY may name an output column
		if cr, ok := g.(*ColumnRef); ok && len(cr.Parts) == 1 {
			if _, found, _ := ev.findColumn(cr.Parts[0]); !found {
				for _, oc := range outs {
					if oc.name == cr.Parts[0] {
						gkeys[ev.outKey(oc)] = true
					}
				}
			}
		}
	}
	eng := ev.eng()
	var check func(x Expr) error
	check = func(x Expr) error {
		if x == nil {
			return nil
		}
		if gkeys[ev.exprKey(x)] {
			return nil
		}
		switch n := x.(type) {
		case *ColumnRef:
			r, err := ev.resolveRef(n)
			if err != nil {
				return nil // reported at evaluation
			}
			if r.isCol && r.level == 0 {
				return errf("grouping_error", "column %q must appear in the GROUP BY clause or be used in an aggregate function", strings.Join(n.Parts, "."))
			}
			return nil
		case *FuncCall:
			if !n.Over && eng.isAggregate(n.Name) {
				return nil
			}
			for _, a := range n.Args {
				if err := check(a.Value); err != nil {
					return err
				}
			}
			return nil
		case *SubqueryExpr, *ExistsExpr:
			return nil // correlated references to ungrouped columns are not checked
		}
		var err error
		first := true
		Walk(x, func(c Node) bool {
			if first {
				first = false
				return true
			}
			if err != nil {
				return false
			}
			if e, ok := c.(Expr); ok {
				err = check(e)
				return false
			}
			switch c.(type) {
			case *SelectStmt:
				return false
			}
			return true
		})
		return err
	}
	for _, oc := range outs {
		if oc.expr == nil {
			if !gkeys[ev.outKey(oc)] {
				return errf("grouping_error", "column %q must appear in the GROUP BY clause or be used in an aggregate function", oc.name)
			}
			continue
		}
		if err := check(oc.expr); err != nil {
			return err
		}
	}
	if err := check(s.Having); err != nil {
		return err
	}
	for _, o := range s.OrderBy {
		if cr, ok := o.Expr.(*ColumnRef); ok && len(cr.Parts) == 1 {
			isOut := false
			for _, oc := range outs {
				if oc.name == cr.Parts[0] {
					isOut = true
				}
			}
			if isOut {
				continue
			}
		}
		if _, ok := o.Expr.(*NumberLit); ok {
			continue
		}
		if err := check(o.Expr); err != nil {
			return err
		}
	}
	return nil
}
