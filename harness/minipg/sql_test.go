package minipg

import (
	"strings"
	"testing"
)

const miniSchema = `
create type pair as (a numeric, b numeric);
create type color as enum ('red', 'green');
create table t (id bigserial primary key, k varchar not null, v numeric, j jsonb, ts timestamp, c color, p pair);
create unique index t_k on t (k);
create table audit (seq bigserial primary key, what varchar, k varchar);
create function note() returns trigger language plpgsql as $$
begin
    insert into audit(what, k) values (tg_op, new.k);
    return new;
end $$;
create trigger b_note after insert or update on t for each row execute procedure note();
create function add(x numeric, y numeric default 10) returns numeric language sql as $$ select x + y $$;
create function sadd(x numeric, y numeric) returns numeric language sql strict as $$ select coalesce(x, 0) + coalesce(y, 0) $$;
create function ks(prefix varchar) returns setof varchar language sql as $$ select k from t where k > prefix order by k $$;
create function fail_if(b bool) returns void language plpgsql as $$
begin
    if b then
        raise exception 'boom %', 42;
    end if;
end $$;
create function pl_into(_k varchar) returns varchar language plpgsql as $$
declare
    r pair;
    n numeric;
begin
    select 1, 2 into r;
    select v into n from t where k = _k;
    if not found then
        return 'none:' || coalesce(n::varchar, 'null');
    end if;
    r.a = r.a + n;
    return r::varchar;
end $$;
`

func miniDB(t testing.TB) *DB {
	e, err := Load(miniSchema)
	if err != nil {
		t.Fatal(err)
	}
	return e.NewDB()
}

func expectErr(t *testing.T, d *DB, sql, want string) {
	t.Helper()
	_, err := d.Query(sql)
	if err == nil || !strings.Contains(err.Error(), want) {
		t.Errorf("query %s: want error containing %q, got %v", sql, want, err)
	}
}

func TestThreeValuedLogic(t *testing.T) {
	d := miniDB(t)
	expect(t, d, `select null = 1, null and false, null and true, null or true, null or false, not null, 1 + null, 'a' || null`, "NULL|f|NULL|t|NULL|NULL|NULL|NULL")
	expect(t, d, `select case when null then 'a' else 'b' end, case when 1 = 1 then 'a' end, case 2 when 1 then 'x' when 2 then 'y' end`, "b|a|y")
	expect(t, d, `select 1 where null`, "")
	expect(t, d, `select null is null, 1 is not null, coalesce(null, 2), (null, null) is null, 1 is distinct from null, null is not distinct from null`, "t|t|2|t|t|t")
	expect(t, d, `select 1 = any (array[1, 2]), 3 = any (array[1, null]), 3 = any (array[1, 2]), 2 in (1, 2), 5 not in (1, null), 2 between 1 and 3`, "t|NULL|f|t|NULL|t")
}

func TestJSONB(t *testing.T) {
	d := miniDB(t)
	expect(t, d, `select '{"bb": 1, "a": 2, "a": 3, "c": [1, "x", null, true, {"z": 1.50}]}'::jsonb`, `{"a": 3, "c": [1, "x", null, true, {"z": 1.50}], "bb": 1}`)
	expect(t, d, `select '{"a": {"b": null}}'::jsonb -> 'a' -> 'b', '{"a": {"b": null}}'::jsonb -> 'a' ->> 'b', '{"a": 1}'::jsonb -> 'zz', '[1, 2]'::jsonb -> 1, '[1, 2]'::jsonb -> -1, '{"a": "s"}'::jsonb ->> 'a', '{"a": [1]}'::jsonb ->> 'a'`, `null|NULL|NULL|2|2|s|[1]`)
	expect(t, d, `select '{"a": 1, "b": 2}'::jsonb || '{"b": 3}', '[1]'::jsonb || '[2]'::jsonb, '[1]'::jsonb || '{"a": 1}'::jsonb, '1'::jsonb || '2'::jsonb, '{"a": 1}'::jsonb || '2'::jsonb, jsonb_concat('{}', '{"x": 1}')`, `{"a": 1, "b": 3}|[1, 2]|[1, {"a": 1}]|[1, 2]|[{"a": 1}, 2]|{"x": 1}`)
	expect(t, d, `select '{"a": 1, "b": 2}'::jsonb - 'a', '["a", "b"]'::jsonb - 'a', '[1, 2, 3]'::jsonb - 1`, `{"b": 2}|["b"]|[1, 3]`)
	expect(t, d, `select '{"a": {"b": 1, "c": 2}}'::jsonb @> '{"a": {"b": 1}}', '{"a": 1}'::jsonb @> '{"a": 2}', '[1, 2, [3]]'::jsonb @> '[2, 1]', '[1, 2]'::jsonb @> '1', '1'::jsonb @> '[1]', '[[1, 2]]'::jsonb @> '[1]', '{"a": [1, 2]}'::jsonb @> '{"a": [2]}', '{}'::jsonb @> '{}', '{"a": 1.0}'::jsonb @> '{"a": 1}'`, `t|f|t|t|f|f|t|t|t`)
	expect(t, d, `select jsonb_build_object(1 - 1, 'x', 'k', null, 'n', 3), to_jsonb(array['a', null]), to_json('x'::varchar), to_jsonb(null::varchar), jsonb_array_length('[1, 2]'), to_jsonb((1, 2)::pair)`, `{"0": "x", "k": null, "n": 3}|["a", null]|"x"|NULL|2|{"a": 1, "b": 2}`)
	expect(t, d, `select * from jsonb_each_text('{"b": 1, "a": "x", "c": null}')`, "a|x\nb|1\nc|NULL")
	expect(t, d, `select count(*) from jsonb_each_text(null)`, "0")
	expect(t, d, `select count(*) from jsonb_array_elements(null)`, "0")
	expectErr(t, d, `select * from jsonb_each_text('null')`, "non-object")
	expectErr(t, d, `select * from jsonb_array_elements('{}')`, "cannot extract elements")
	expectErr(t, d, `select '{"a":'::jsonb`, "invalid input syntax for type json")
	expect(t, d, `select jsonb_pretty('{"a": [1, {"b": 2}]}')`, "{\n    \"a\": [\n        1,\n        {\n            \"b\": 2\n        }\n    ]\n}")
	expect(t, d, `select string_to_array('a:b:c', ':'), string_to_array('', ':'), to_json(string_to_array('', ':')), array_agg(x) from unnest(array[3, 1]) u(x)`, `{a,b,c}|{}|[]|{3,1}`)
	expect(t, d, `select 1e2::text is null, '1e2'::jsonb, '-0.50'::jsonb, '"é\n"'::jsonb`, "f|100|-0.50|\"é\\n\"")
}

func TestTimestampsAndCasts(t *testing.T) {
	d := miniDB(t)
	expect(t, d, `select '2023-01-01T10:00:00+02:00'::timestamp, '2023-01-01 10:00:00.1234567Z'::timestamp without time zone, '2023-01-01T10:00:00.9999996Z'::timestamp, '0001-01-01T00:00:00Z'::timestamp, '2024-02-29'::timestamp`,
		"2023-01-01 10:00:00|2023-01-01 10:00:00.123457|2023-01-01 10:00:01|0001-01-01 00:00:00|2024-02-29 00:00:00")
	expectErr(t, d, `select '2023-02-30T10:00:00Z'::timestamp`, "out of range")
	expectErr(t, d, `select 'yesterday'::timestamp`, "invalid input syntax")
	expect(t, d, `select '2023-01-01T10:00:00Z'::timestamp < '2023-01-01 10:00:01', '12'::numeric + 1, (1, 2)::pair, ((3, 4)::pair).b, '(5,6)'::pair, 12::varchar || 'x', 'red'::color`, "t|13|(1,2)|4|(5,6)|12x|red")
	expectErr(t, d, `select 'blue'::color`, "invalid input value for enum")
	expectErr(t, d, `select '1.5'::numeric`, "unsupported")
	expectErr(t, d, `select 1 = 'a'::varchar`, "operator does not exist")
	expect(t, d, `select (1, 'a b', null, '', 'q"x'), array['a b', null, 'NULL', ''], ('USD', (1, 2)::pair)`, `(1,"a b",,"","q""x")|{"a b",NULL,"NULL",""}|(USD,"(1,2)")`)
}

func TestDMLTriggersConstraints(t *testing.T) {
	d := miniDB(t)
	mustExec(t, d, `insert into t(k, v) values ('a', 1), ('b', 2)`)
	expectErr(t, d, `insert into t(k, v) values ('c', 3), ('a', 4)`, "unique_violation")
	expect(t, d, `select id, k from t order by id`, "1|a\n2|b")
	expect(t, d, `select what, k from audit order by seq`, "INSERT|a\nINSERT|b")
	// failed statement burnt sequence values 3 and 4 (never rolled back), and the audit rows of the failed statement are gone
	mustExec(t, d, `insert into t(k, v) values ('c', 3) on conflict (k) do update set v = excluded.v`)
	expect(t, d, `select id from t where k = 'c'`, "5")
	mustExec(t, d, `insert into t(k, v) values ('c', 30) on conflict (k) do update set v = t.v + excluded.v where t.v < 10`)
	mustExec(t, d, `insert into t(k, v) values ('c', 300) on conflict (k) do update set v = t.v + excluded.v where t.v < 10`)
	expect(t, d, `select v from t where k = 'c'`, "33")
	expect(t, d, `select what, k from audit order by seq`, "INSERT|a\nINSERT|b\nINSERT|c\nUPDATE|c")
	mustExec(t, d, `insert into t(k) values ('a') on conflict do nothing`)
	expectErr(t, d, `insert into t(k, v) values (null, 1)`, "not_null_violation")
	expectErr(t, d, `insert into t(k, c) values ('z', 'blue')`, "invalid input value for enum")
	expectErr(t, d, `update t set k = 'a' where k = 'b'`, "unique_violation")
	mustExec(t, d, `update t set v = v + 100 where k = 'nope'`)
	expect(t, d, `select count(*) from audit`, "4")
	r, err := d.Query(`update t set v = v * 2 where v < 3 returning k, v`)
	if err != nil || len(r.Rows) != 2 || Text(r.Rows[1][1]) != "4" {
		t.Fatalf("update returning: %v %v", r, err)
	}
	mustExec(t, d, `delete from t where k = 'b'`)
	expect(t, d, `select k from t order by k`, "a\nc")
	// nested failure aborts the whole top-level statement
	expectErr(t, d, `select fail_if(true)`, "boom 42")
	expectErr(t, d, `insert into t(k, v) select 'n' || x, x from generate_series(1, 3) g(x) where x < 3 or fail_if(x = 3) is null`, "boom")
	expect(t, d, `select count(*) from t`, "2")
	expect(t, d, `select k, p, (p).a is null from t where k = 'a'`, "a|NULL|t")
	mustExec(t, d, `update t set p = (1, null) where k = 'a'`)
	expect(t, d, `select p, (p).b from t where k = 'a'`, "(1,)|NULL")
}

func TestFunctionsAndSelect(t *testing.T) {
	d := miniDB(t)
	mustExec(t, d, `insert into t(k, v, j) values ('a', 1, '{"g": "x"}'), ('b', 2, '{"g": "y"}'), ('c', 3, '{"g": "x"}'), ('d', null, '{"g": "y"}')`)
	expect(t, d, `select add(1), add(1, 2), add(y := 5, x := 1), sadd(null, 1), add(null)`, "11|3|6|NULL|NULL")
	expect(t, d, `select * from ks('a')`, "b\nc\nd")
	expect(t, d, `select x.x from ks('b') x`, "c\nd")
	expectErr(t, d, `select x.ks from ks('b') x`, "does not exist") // the alias renames the single column
	expect(t, d, `select x from ks('b') x`, "c\nd")
	expect(t, d, `select ks('c')`, "d")
	expect(t, d, `select pl_into('b'), pl_into('zz'), pl_into('d')`, "(3,2)|none:null|(,2)")
	expect(t, d, `select j ->> 'g' as g, sum(v), count(*), count(v), min(k), max(v), array_agg(k), bool_or(v > 2) from t group by j ->> 'g' order by g desc`, "y|2|2|1|b|2|{b,d}|f\nx|4|2|2|a|3|{a,c}|t")
	expect(t, d, `select sum(v), count(*) from t where k > 'z'`, "NULL|0")
	expect(t, d, `select distinct on (j ->> 'g') j ->> 'g', k from t order by j ->> 'g', v desc nulls last`, "x|c\ny|b")
	expectErr(t, d, `select distinct on (k) k from t order by v`, "DISTINCT ON expressions must match")
	expectErr(t, d, `select k, sum(v) from t`, "must appear in the GROUP BY")
	expect(t, d, `select distinct j ->> 'g' from t order by 1`, "x\ny")
	expect(t, d, `select k from t order by v desc`, "d\nc\nb\na")
	expect(t, d, `select k from t order by v asc limit 2 offset 1`, "b\nc")
	expect(t, d, `select a.k, b.k from t a join t b on b.v = a.v + 1 order by a.k`, "a|b\nb|c")
	expect(t, d, `select a.k, b.k from t a left join t b on b.v = a.v + 2 order by a.k`, "a|c\nb|NULL\nc|NULL\nd|NULL")
	expect(t, d, `select a.k, m.k from t a join lateral (select * from t b where b.v > a.v order by b.v limit 1) m on true order by a.k`, "a|b\nb|c")
	expect(t, d, `select a.k, (select count(*) from t b where b.k < a.k) from t a where exists (select 1 from t b where b.v = a.v + 1)`, "a|0\nb|1")
	expect(t, d, `with recursive r as (select 1 as n union all select n + 1 from r where n < 4), s as (select sum(n) as total from r) select total, (select count(*) from r) from s`, "10|4")
	expect(t, d, `select row_number() over () as n, v.x from (select unnest(array['p', 'q']) as x union all select null) v`, "1|p\n2|q\n3|NULL")
	expect(t, d, `select k, v from t where v = any (array[1, 3]) or v is null order by k`, "a|1\nc|3\nd|NULL")
	expectErr(t, d, `select k from t a, t b`, "ambiguous")
	expectErr(t, d, `select nope from t`, "does not exist")
	expectErr(t, d, `select * from t a join (select a.k) s on true`, "missing FROM-clause entry")
	expectErr(t, d, `select (select k from t)`, "more than one row")
	expect(t, d, `select t.* from t where k = 'a'`, `1|a|1|{"g": "x"}|NULL|NULL|NULL`)
	r, err := d.Query(`select k as kk, v + 1, add(v), j -> 'g', v::varchar, (select 1), case when true then 1 end, exists (select 1), null, true from t limit 0`)
	if err != nil {
		t.Fatal(err)
	}
	if got := strings.Join(r.Cols, ","); got != "kk,?column?,add,?column?,v,?column?,case,exists,?column?,bool" {
		t.Errorf("column names: %s", got)
	}
}

func TestLoadErrorsAndAST(t *testing.T) {
	for _, c := range []struct{ sql, want string }{
		{`create table x (a int check (a > 0));`, "check"},
		{`create table x (a int); create rule r as on insert to x do nothing;`, "cannot parse statement"},
		{`create function f() returns numeric language sql as $$ select nosuchfn(1) $$;`, "nosuchfn"},
		{`create function f() returns void language plpgsql as $$ begin loop null; end loop; end $$;`, "loop"},
		{`create function f() returns void language plpgsql as $$ begin x := ; end $$;`, "function f"},
		{`create table x (a geometry);`, "geometry"},
		{`create table x (a int); create trigger tr before insert on x for each row execute procedure f();`, "AFTER"},
		{`create aggregate agg(numeric) (sfunc = nosuch, stype = numeric);`, "nosuch"},
		{`create function f(a numeric) returns numeric language sql as $$ select a #> 1 $$;`, "#>"},
	} {
		_, err := Load(c.sql)
		if err == nil || !strings.Contains(err.Error(), c.want) {
			t.Errorf("Load(%q): want error containing %q, got %v", c.sql, c.want, err)
		}
	}
	e := mustLoad(t)
	pl, sq, tr := e.FunctionNames()
	if len(pl) != 12 || len(sq) != 17 || len(tr) != 5 {
		t.Errorf("FunctionNames: %d plpgsql %v, %d sql %v, %d triggers %v", len(pl), pl, len(sq), sq, len(tr), tr)
	}
	stmts, err := ParseStatements(readSchema(t))
	if err != nil {
		t.Fatal(err)
	}
	plus := 0
	for _, s := range stmts {
		if cf, ok := s.(*CreateFunction); ok && cf.Name == "insert_move" {
			Walk(cf, func(n Node) bool {
				if b, ok := n.(*BinaryExpr); ok && b.Op == "+" {
					plus++
				}
				return true
			})
		}
	}
	if plus != 8 {
		t.Errorf("insert_move contains %d '+' operators, want 8", plus)
	}
}

func TestCloneIndependence(t *testing.T) {
	d := miniDB(t)
	mustExec(t, d, `insert into t(k, v) values ('a', 1)`)
	c := d.Clone()
	mustExec(t, c, `insert into t(k, v) values ('b', 2)`)
	mustExec(t, c, `update t set v = 10 where k = 'a'`)
	mustExec(t, d, `insert into t(k, v) values ('z', 26)`)
	expect(t, d, `select id, k, v from t order by id`, "1|a|1\n2|z|26")
	expect(t, c, `select id, k, v from t order by id`, "1|a|10\n2|b|2")
}
