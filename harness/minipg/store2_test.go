//go:build verif

package minipg

import (
	"fmt"
	"math/big"
	"sort"
	"strings"
	"testing"
	"time"

	ledger "github.com/formancehq/ledger/internal"
	"github.com/formancehq/ledger/internal/storage/ledgerstore"
	"github.com/formancehq/stack/libs/go-libs/metadata"
	"github.com/formancehq/stack/libs/go-libs/query"
)

func seed(t testing.TB) *fixture {
	f := newFixture(t, "l1")
	em := map[string]metadata.Metadata{}
	f.insert(
		ledger.NewTransactionLogWithDate(newTx(0, at(1, 10), ledger.NewPosting("world", "users:001", "USD", big.NewInt(100))).WithMetadata(metadata.Metadata{"category": "1"}).WithReference("r0"),
			map[string]metadata.Metadata{"users:001": {"role": "admin"}}, at(10, 0)),
		ledger.NewTransactionLogWithDate(newTx(1, at(2, 10), ledger.NewPosting("users:001", "users:002", "USD", big.NewInt(30))), em, at(10, 1)),
		ledger.NewTransactionLogWithDate(newTx(2, at(3, 10), ledger.NewPosting("world", "users:002", "EUR", big.NewInt(7)), ledger.NewPosting("users:002", "bank", "USD", big.NewInt(10))).WithMetadata(metadata.Metadata{"category": "2"}), em, at(10, 2)),
		ledger.NewSetMetadataOnAccountLog(at(10, 3), "users:002", metadata.Metadata{"role": "user"}),
		ledger.NewSetMetadataOnTransactionLog(at(10, 4), big.NewInt(1), metadata.Metadata{"category": "3"}),
	)
	return f
}

func vols(v ledger.VolumesByAssets) string {
	var keys []string
	for k := range v {
		keys = append(keys, k)
	}
	sort.Strings(keys)
	var sb strings.Builder
	for _, k := range keys {
		fmt.Fprintf(&sb, "%s:%s/%s ", k, v[k].Input, v[k].Output)
	}
	return strings.TrimSpace(sb.String())
}

func aav(v ledger.AccountsAssetsVolumes) string {
	var keys []string
	for k := range v {
		keys = append(keys, k)
	}
	sort.Strings(keys)
	var sb strings.Builder
	for _, k := range keys {
		fmt.Fprintf(&sb, "%s{%s} ", k, vols(v[k]))
	}
	return strings.TrimSpace(sb.String())
}

func TestStoreTransactionWithVolumes(t *testing.T) {
	f := seed(t)
	tx, err := f.store.GetTransactionWithVolumes(f.ctx, ledgerstore.NewGetTransactionQuery(big.NewInt(1)))
	if err != nil {
		t.Fatal(err)
	}
	if tx.Metadata["category"] != "3" || tx.PostCommitVolumes != nil || tx.Postings[0].Destination != "users:002" {
		t.Fatalf("plain: %+v", tx)
	}
	tx, err = f.store.GetTransactionWithVolumes(f.ctx, ledgerstore.NewGetTransactionQuery(big.NewInt(1)).WithExpandVolumes().WithExpandEffectiveVolumes())
	if err != nil {
		t.Fatal(err)
	}
	if got := aav(tx.PostCommitVolumes); got != "users:001{USD:100/30} users:002{USD:30/0}" {
		t.Fatalf("post commit volumes: %s", got)
	}
	if got := aav(tx.PreCommitVolumes); got != "users:001{USD:100/0} users:002{USD:0/0}" {
		t.Fatalf("pre commit volumes: %s", got)
	}
	if got := aav(tx.PostCommitEffectiveVolumes); got != "users:001{USD:100/30} users:002{USD:30/0}" {
		t.Fatalf("post commit effective volumes: %s", got)
	}
	// PIT before the metadata update of tx 1 (10 Jan 04:00) but after its timestamp
	q := ledgerstore.NewGetTransactionQuery(big.NewInt(1)).WithExpandVolumes()
	pit := at(5, 0)
	q.PIT = &pit
	tx, err = f.store.GetTransactionWithVolumes(f.ctx, q)
	if err != nil {
		t.Fatal(err)
	}
	if _, has := tx.Metadata["category"]; has || aav(tx.PostCommitVolumes) != "users:001{USD:100/30} users:002{USD:30/0}" {
		t.Fatalf("pit: %+v", tx)
	}
	early := at(1, 0)
	q.PIT = &early
	if _, err := f.store.GetTransactionWithVolumes(f.ctx, q); err == nil {
		t.Fatal("expected not found before the transaction's timestamp")
	}
	// multi-asset transaction (users:002 receives EUR and sends USD in tx 2): the outer aggregate_objects merge is a top-level
	// jsonb || so only ONE asset per account survives (rows arrive sorted by (account, asset): USD overwrites EUR). This is
	// what the SQL text says; the Go store then dereferences the missing asset in toCore and panics.
	expect(t, f.db, `select get_aggregated_volumes_for_transaction('l1', 3)`,
		`{"bank": {"USD": {"input": 10, "output": 0}}, "world": {"EUR": {"input": 0, "output": 7}}, "users:002": {"USD": {"input": 30, "output": 10}}}`)
	func() {
		defer func() {
			if r := recover(); r == nil {
				t.Error("expected the store's toCore to panic on the truncated volumes of a multi-asset transaction")
			}
		}()
		_, _ = f.store.GetTransactionWithVolumes(f.ctx, ledgerstore.NewGetTransactionQuery(big.NewInt(2)).WithExpandVolumes())
	}()
}

func TestStoreAccountWithVolumes(t *testing.T) {
	f := seed(t)
	acc, err := f.store.GetAccountWithVolumes(f.ctx, ledgerstore.NewGetAccountQuery("users:002"))
	if err != nil {
		t.Fatal(err)
	}
	if acc.Address != "users:002" || acc.Metadata["role"] != "user" || len(acc.Volumes) != 0 {
		t.Fatalf("plain: %+v", acc)
	}
	acc, err = f.store.GetAccountWithVolumes(f.ctx, ledgerstore.NewGetAccountQuery("users:002").WithExpandVolumes().WithExpandEffectiveVolumes())
	if err != nil {
		t.Fatal(err)
	}
	if vols(acc.Volumes) != "EUR:7/0 USD:30/10" || vols(acc.EffectiveVolumes) != "EUR:7/0 USD:30/10" {
		t.Fatalf("volumes: %s / %s", vols(acc.Volumes), vols(acc.EffectiveVolumes))
	}
	// PIT: get_all_account_volumes filters on insertion_date (log date), effective volumes on effective_date
	acc, err = f.store.GetAccountWithVolumes(f.ctx, ledgerstore.NewGetAccountQuery("users:002").WithExpandVolumes().WithExpandEffectiveVolumes().WithPIT(at(10, 1).Add(30*time.Minute)))
	if err != nil {
		t.Fatal(err)
	}
	if vols(acc.Volumes) != "USD:30/0" || vols(acc.EffectiveVolumes) != "EUR:7/0 USD:30/10" || len(acc.Metadata) != 0 {
		t.Fatalf("pit volumes: %s / %s / %v", vols(acc.Volumes), vols(acc.EffectiveVolumes), acc.Metadata)
	}
	acc, err = f.store.GetAccountWithVolumes(f.ctx, ledgerstore.NewGetAccountQuery("users:002").WithPIT(at(11, 0)))
	if err != nil || acc.Metadata["role"] != "user" {
		t.Fatalf("pit metadata: %+v %v", acc, err)
	}
	acc, err = f.store.GetAccountWithVolumes(f.ctx, ledgerstore.NewGetAccountQuery("nobody").WithExpandVolumes())
	if err != nil || acc.Address != "nobody" {
		t.Fatalf("unknown: %+v %v", acc, err)
	}
}

func TestStoreAggregatedBalances(t *testing.T) {
	f := seed(t)
	bal := func(q ledgerstore.GetAggregatedBalanceQuery) string {
		t.Helper()
		b, err := f.store.GetAggregatedBalances(f.ctx, q)
		if err != nil {
			t.Fatal(err)
		}
		var keys []string
		for k := range b {
			keys = append(keys, k)
		}
		sort.Strings(keys)
		var sb strings.Builder
		for _, k := range keys {
			fmt.Fprintf(&sb, "%s=%s ", k, b[k])
		}
		return strings.TrimSpace(sb.String())
	}
	opts := ledgerstore.NewPaginatedQueryOptions(ledgerstore.PITFilter{})
	if got := bal(ledgerstore.NewGetAggregatedBalancesQuery(opts)); got != "EUR=0 USD=0" {
		t.Fatalf("all: %s", got)
	}
	if got := bal(ledgerstore.NewGetAggregatedBalancesQuery(opts.WithQueryBuilder(query.Match("address", "users:002")))); got != "EUR=7 USD=20" {
		t.Fatalf("address: %s", got)
	}
	if got := bal(ledgerstore.NewGetAggregatedBalancesQuery(opts.WithQueryBuilder(query.Match("address", "users:")))); got != "EUR=7 USD=90" {
		t.Fatalf("address pattern: %s", got)
	}
	if got := bal(ledgerstore.NewGetAggregatedBalancesQuery(opts.WithQueryBuilder(query.Match("metadata[role]", "admin")))); got != "USD=70" {
		t.Fatalf("metadata: %s", got)
	}
	if got := bal(ledgerstore.NewGetAggregatedBalancesQuery(opts.WithQueryBuilder(query.Or(query.Match("address", "bank"), query.Match("metadata[role]", "user"))))); got != "EUR=7 USD=30" {
		t.Fatalf("or: %s", got)
	}
	pit := at(10, 1).Add(30 * time.Minute)
	pitOpts := ledgerstore.NewPaginatedQueryOptions(ledgerstore.PITFilter{PIT: &pit})
	if got := bal(ledgerstore.NewGetAggregatedBalancesQuery(pitOpts.WithQueryBuilder(query.Match("address", "users:002")))); got != "USD=30" {
		t.Fatalf("pit address: %s", got)
	}
	if got := bal(ledgerstore.NewGetAggregatedBalancesQuery(pitOpts.WithQueryBuilder(query.Match("metadata[role]", "admin")))); got != "USD=70" {
		t.Fatalf("pit metadata: %s", got)
	}
	if got := bal(ledgerstore.NewGetAggregatedBalancesQuery(ledgerstore.NewPaginatedQueryOptions(ledgerstore.PITFilter{PIT: &pit}))); got != "USD=0" {
		t.Fatalf("pit all: %s", got)
	}
	empty := newFixture(t, "empty")
	b, err := empty.store.GetAggregatedBalances(empty.ctx, ledgerstore.NewGetAggregatedBalancesQuery(opts))
	if err != nil || len(b) != 0 {
		t.Fatalf("empty ledger: %v %v", b, err)
	}
}

func TestStoreLists(t *testing.T) {
	f := seed(t)
	accOpts := ledgerstore.NewPaginatedQueryOptions(ledgerstore.PITFilterWithVolumes{})
	addrs := func(q ledgerstore.GetAccountsQuery) string {
		t.Helper()
		c, err := f.store.GetAccountsWithVolumes(f.ctx, q)
		if err != nil {
			t.Fatal(err)
		}
		var out []string
		for _, a := range c.Data {
			s := a.Address
			if len(a.Volumes) > 0 {
				s += "[" + vols(a.Volumes) + "]"
			}
			out = append(out, s)
		}
		return strings.Join(out, ",")
	}
	if got := addrs(ledgerstore.NewGetAccountsQuery(accOpts)); got != "bank,users:001,users:002,world" {
		t.Fatalf("accounts: %s", got)
	}
	if got := addrs(ledgerstore.NewGetAccountsQuery(accOpts.WithPageSize(2))); got != "bank,users:001" {
		t.Fatalf("accounts page: %s", got)
	}
	if got := addrs(ledgerstore.NewGetAccountsQuery(accOpts.WithQueryBuilder(query.Match("address", "users:")))); got != "users:001,users:002" {
		t.Fatalf("accounts pattern: %s", got)
	}
	if got := addrs(ledgerstore.NewGetAccountsQuery(accOpts.WithQueryBuilder(query.Match("metadata[role]", "user")))); got != "users:002" {
		t.Fatalf("accounts metadata: %s", got)
	}
	if got := addrs(ledgerstore.NewGetAccountsQuery(accOpts.WithQueryBuilder(query.Lt("balance[USD]", 50)))); got != "bank,users:002,world" {
		t.Fatalf("accounts balance: %s", got)
	}
	if got := addrs(ledgerstore.NewGetAccountsQuery(accOpts).WithExpandVolumes()); got != "bank[USD:10/0],users:001[USD:100/30],users:002[EUR:7/0 USD:30/10],world[EUR:0/7 USD:0/100]" {
		t.Fatalf("accounts volumes: %s", got)
	}
	pit := at(10, 1).Add(30 * time.Minute)
	pitOpts := ledgerstore.NewPaginatedQueryOptions(ledgerstore.PITFilterWithVolumes{PITFilter: ledgerstore.PITFilter{PIT: &pit}})
	if got := addrs(ledgerstore.NewGetAccountsQuery(pitOpts)); got != "users:001,users:002,world" {
		t.Fatalf("accounts pit: %s", got)
	}
	n, err := f.store.CountAccounts(f.ctx, ledgerstore.NewGetAccountsQuery(accOpts))
	if err != nil || n != 4 {
		t.Fatalf("CountAccounts: %d %v", n, err)
	}
	n, err = f.store.CountAccounts(f.ctx, ledgerstore.NewGetAccountsQuery(accOpts.WithQueryBuilder(query.Match("address", "users:"))))
	if err != nil || n != 2 {
		t.Fatalf("CountAccounts filtered: %d %v", n, err)
	}

	txOpts := ledgerstore.NewPaginatedQueryOptions(ledgerstore.PITFilterWithVolumes{})
	ids := func(q ledgerstore.GetTransactionsQuery) string {
		t.Helper()
		c, err := f.store.GetTransactions(f.ctx, q)
		if err != nil {
			t.Fatal(err)
		}
		var out []string
		for _, x := range c.Data {
			out = append(out, x.ID.String())
		}
		return strings.Join(out, ",")
	}
	if got := ids(ledgerstore.NewGetTransactionsQuery(txOpts)); got != "2,1,0" {
		t.Fatalf("transactions: %s", got)
	}
	if got := ids(ledgerstore.NewGetTransactionsQuery(txOpts.WithPageSize(2))); got != "2,1" {
		t.Fatalf("transactions page: %s", got)
	}
	if got := ids(ledgerstore.NewGetTransactionsQuery(txOpts.WithQueryBuilder(query.Match("account", "users:001")))); got != "1,0" {
		t.Fatalf("transactions account: %s", got)
	}
	if got := ids(ledgerstore.NewGetTransactionsQuery(txOpts.WithQueryBuilder(query.Match("source", "world")))); got != "2,0" {
		t.Fatalf("transactions source: %s", got)
	}
	if got := ids(ledgerstore.NewGetTransactionsQuery(txOpts.WithQueryBuilder(query.Match("destination", "users:")))); got != "2,1,0" {
		t.Fatalf("transactions destination pattern: %s", got)
	}
	if got := ids(ledgerstore.NewGetTransactionsQuery(txOpts.WithQueryBuilder(query.Match("metadata[category]", "3")))); got != "1" {
		t.Fatalf("transactions metadata: %s", got)
	}
	if got := ids(ledgerstore.NewGetTransactionsQuery(txOpts.WithQueryBuilder(query.Match("reference", "r0")))); got != "0" {
		t.Fatalf("transactions reference: %s", got)
	}
	if got := ids(ledgerstore.NewGetTransactionsQuery(txOpts.WithQueryBuilder(query.Lt("timestamp", at(3, 0))))); got != "1,0" {
		t.Fatalf("transactions timestamp: %s", got)
	}
	txPit := at(2, 12)
	pitTx := ledgerstore.NewPaginatedQueryOptions(ledgerstore.PITFilterWithVolumes{PITFilter: ledgerstore.PITFilter{PIT: &txPit}, ExpandVolumes: true})
	c, err := f.store.GetTransactions(f.ctx, ledgerstore.NewGetTransactionsQuery(pitTx))
	if err != nil {
		t.Fatal(err)
	}
	if len(c.Data) != 2 || c.Data[0].ID.Int64() != 1 || aav(c.Data[0].PostCommitVolumes) != "users:001{USD:100/30} users:002{USD:30/0}" || c.Data[1].Metadata["category"] != "1" {
		t.Fatalf("transactions pit: %+v", c.Data)
	}
	n, err = f.store.CountTransactions(f.ctx, ledgerstore.NewGetTransactionsQuery(txOpts))
	if err != nil || n != 3 {
		t.Fatalf("CountTransactions: %d %v", n, err)
	}
	n, err = f.store.CountTransactions(f.ctx, ledgerstore.NewGetTransactionsQuery(pitTx))
	if err != nil || n != 2 {
		t.Fatalf("CountTransactions pit: %d %v", n, err)
	}

	logs, err := f.store.GetLogs(f.ctx, ledgerstore.NewGetLogsQuery(ledgerstore.NewPaginatedQueryOptions[any](nil)))
	if err != nil || len(logs.Data) != 5 || logs.Data[0].ID.Int64() != 4 {
		t.Fatalf("GetLogs: %+v %v", logs, err)
	}
	logs, err = f.store.GetLogs(f.ctx, ledgerstore.NewGetLogsQuery(ledgerstore.NewPaginatedQueryOptions[any](nil).WithQueryBuilder(query.Lt("date", at(10, 2)))))
	if err != nil || len(logs.Data) != 2 {
		t.Fatalf("GetLogs filtered: %+v %v", logs, err)
	}
	logs, err = f.store.GetLogs(f.ctx, ledgerstore.NewGetLogsQuery(ledgerstore.NewPaginatedQueryOptions[any](nil).WithPageSize(2)))
	if err != nil || len(logs.Data) != 2 || !logs.HasMore {
		t.Fatalf("GetLogs paged: %+v %v", logs, err)
	}
}

func TestPerformance(t *testing.T) {
	start := time.Now()
	const rounds = 20
	for r := 0; r < rounds; r++ {
		f := newFixture(t, "l1")
		em := map[string]metadata.Metadata{}
		for i := 0; i < 12; i++ {
			f.insert(ledger.NewTransactionLogWithDate(newTx(int64(i), at(1+i, 10), ledger.NewPosting("world", fmt.Sprintf("users:%03d", i%4), "USD", big.NewInt(100)), ledger.NewPosting(fmt.Sprintf("users:%03d", i%4), "bank", "USD", big.NewInt(10))), em, at(20, i)))
		}
		for i := 0; i < 12; i++ {
			if _, err := f.store.GetTransactionWithVolumes(f.ctx, ledgerstore.NewGetTransactionQuery(big.NewInt(int64(i))).WithExpandVolumes().WithExpandEffectiveVolumes()); err != nil {
				t.Fatal(err)
			}
			if _, err := f.store.GetAccountWithVolumes(f.ctx, ledgerstore.NewGetAccountQuery(fmt.Sprintf("users:%03d", i%4)).WithExpandVolumes().WithExpandEffectiveVolumes()); err != nil {
				t.Fatal(err)
			}
			if _, err := f.store.GetBalance(f.ctx, "bank", "USD"); err != nil {
				t.Fatal(err)
			}
			if _, err := f.store.GetAggregatedBalances(f.ctx, ledgerstore.NewGetAggregatedBalancesQuery(ledgerstore.NewPaginatedQueryOptions(ledgerstore.PITFilter{}))); err != nil {
				t.Fatal(err)
			}
			if _, err := f.store.GetTransactions(f.ctx, ledgerstore.NewGetTransactionsQuery(ledgerstore.NewPaginatedQueryOptions(ledgerstore.PITFilterWithVolumes{ExpandVolumes: true}))); err != nil {
				t.Fatal(err)
			}
		}
	}
	per := time.Since(start) / rounds
	t.Logf("schema load + 12 logs + 60 read queries: %v per round", per)
	if per > 150*time.Millisecond && !raceEnabled {
		t.Errorf("too slow: %v", per)
	}
}
