//go:build verif

package minipg

import (
	"context"
	"database/sql"
	"math/big"
	"strings"
	"testing"
	"time"

	ledger "github.com/formancehq/ledger/internal"
	"github.com/formancehq/ledger/internal/storage/ledgerstore"
	"github.com/formancehq/stack/libs/go-libs/metadata"
	"github.com/uptrace/bun"
	"github.com/uptrace/bun/dialect/pgdialect"
)

type fixture struct {
	t     testing.TB
	db    *DB
	store *ledgerstore.Store
	last  *ledger.ChainedLog
	ctx   context.Context
}

func newFixture(t testing.TB, name string) *fixture {
	e, err := Load(ledgerstore.VerifInitSchema())
	if err != nil {
		t.Fatal(err)
	}
	return newFixtureOn(t, e.NewDB(), name)
}

func newFixtureOn(t testing.TB, d *DB, name string) *fixture {
	bdb := bun.NewDB(sql.OpenDB(Connector(d)), pgdialect.New(), bun.WithDiscardUnknownColumns())
	return &fixture{t: t, db: d, store: ledgerstore.NewStoreForVerif(bdb, "bucket", name), ctx: context.Background()}
}

func at(day, hour int) ledger.Time {
	return ledger.Time{Time: time.Date(2023, 1, day, hour, 0, 0, 0, time.UTC)}
}

func (f *fixture) insert(logs ...*ledger.Log) []*ledger.ChainedLog {
	f.t.Helper()
	var chained []*ledger.ChainedLog
	for _, l := range logs {
		f.last = l.ChainLog(f.last)
		chained = append(chained, f.last)
	}
	if err := f.store.InsertLogs(f.ctx, chained...); err != nil {
		f.t.Fatalf("InsertLogs: %v", err)
	}
	return chained
}

func newTx(id int64, ts ledger.Time, postings ...ledger.Posting) *ledger.Transaction {
	return ledger.NewTransaction().WithID(big.NewInt(id)).WithDate(ts).WithPostings(postings...)
}

func TestStoreLogs(t *testing.T) {
	f := newFixture(t, "l1")
	tx0 := newTx(0, at(1, 10), ledger.NewPosting("world", "a", "USD", big.NewInt(100))).WithMetadata(metadata.Metadata{"k": "v"}).WithReference("ref0")
	tx1 := newTx(1, at(2, 10), ledger.NewPosting("a", "b", "USD", big.NewInt(30)))
	logs := f.insert(
		ledger.NewTransactionLogWithDate(tx0, map[string]metadata.Metadata{"a": {"role": "user"}}, at(3, 0)).WithIdempotencyKey("ik0"),
		ledger.NewTransactionLogWithDate(tx1, map[string]metadata.Metadata{}, at(3, 1)),
	)
	last, err := f.store.GetLastLog(f.ctx)
	if err != nil {
		t.Fatal(err)
	}
	if last.ID.Cmp(big.NewInt(1)) != 0 || string(last.Hash) != string(logs[1].Hash) || !last.Date.Equal(at(3, 1)) {
		t.Fatalf("GetLastLog: %+v", last)
	}
	if p, ok := last.Data.(ledger.NewTransactionLogPayload); !ok || p.Transaction.ID.Cmp(big.NewInt(1)) != 0 || p.Transaction.Postings[0].Amount.Cmp(big.NewInt(30)) != 0 {
		t.Fatalf("GetLastLog payload: %#v", last.Data)
	}
	byKey, err := f.store.ReadLogWithIdempotencyKey(f.ctx, "ik0")
	if err != nil {
		t.Fatal(err)
	}
	if byKey.ID.Sign() != 0 || byKey.IdempotencyKey != "ik0" {
		t.Fatalf("ReadLogWithIdempotencyKey: %+v", byKey)
	}
	if _, err := f.store.ReadLogWithIdempotencyKey(f.ctx, "nope"); err == nil {
		t.Fatal("expected not found")
	}
	// accountMetadata: null (nil Go map) makes jsonb_each_text raise in handle_log, as PostgreSQL does
	bad := ledger.NewTransactionLogWithDate(newTx(2, at(2, 11), ledger.NewPosting("a", "b", "USD", big.NewInt(1))), nil, at(3, 2)).ChainLog(logs[1])
	if err := f.store.InsertLogs(f.ctx, bad); err == nil || !strings.Contains(err.Error(), "jsonb_each_text") {
		t.Fatalf("nil accountMetadata: %v", err)
	}
	// empty idempotency key stays an empty string
	expect(t, f.db, `select id, idempotency_key = '' from logs order by id`, "0|f\n1|t")
	// a failing batch leaves nothing behind (duplicate log id)
	dup := *logs[1]
	if err := f.store.InsertLogs(f.ctx, &dup); err == nil {
		t.Fatal("duplicate log id accepted")
	}
	expect(t, f.db, `select count(*) from logs`, "2")
	expect(t, f.db, `select count(*) from transactions`, "2")
}

func TestStoreReads(t *testing.T) {
	f := newFixture(t, "l1")
	tx0 := newTx(0, at(1, 10), ledger.NewPosting("world", "a", "USD", big.NewInt(100))).WithMetadata(metadata.Metadata{"k": "v"}).WithReference("ref0")
	tx1 := newTx(1, at(2, 10), ledger.NewPosting("a", "b", "USD", big.NewInt(30)))
	f.insert(
		ledger.NewTransactionLogWithDate(tx0, map[string]metadata.Metadata{"a": {"role": "user"}}, at(3, 0)),
		ledger.NewTransactionLogWithDate(tx1, map[string]metadata.Metadata{}, at(3, 1)),
		ledger.NewSetMetadataOnTransactionLog(at(3, 2), big.NewInt(0), metadata.Metadata{"k2": "v2"}),
		ledger.NewSetMetadataOnAccountLog(at(3, 3), "b", metadata.Metadata{"x": "y"}),
	)
	got, err := f.store.GetTransaction(f.ctx, big.NewInt(0))
	if err != nil {
		t.Fatal(err)
	}
	if got.Reference != "ref0" || !got.Timestamp.Equal(at(1, 10)) || len(got.Postings) != 1 || got.Postings[0].Amount.Cmp(big.NewInt(100)) != 0 ||
		got.Metadata["k"] != "v" || got.Metadata["k2"] != "v2" || got.Reverted {
		t.Fatalf("GetTransaction: %+v", got)
	}
	if _, err := f.store.GetTransaction(f.ctx, big.NewInt(42)); err == nil {
		t.Fatal("expected not found")
	}
	byRef, err := f.store.GetTransactionByReference(f.ctx, "ref0")
	if err != nil || byRef.ID.Sign() != 0 {
		t.Fatalf("GetTransactionByReference: %+v %v", byRef, err)
	}
	lastTx, err := f.store.GetLastTransaction(f.ctx)
	if err != nil || lastTx.ID.Cmp(big.NewInt(1)) != 0 || lastTx.Postings[0].Source != "a" {
		t.Fatalf("GetLastTransaction: %+v %v", lastTx, err)
	}
	acc, err := f.store.GetAccount(f.ctx, "a")
	if err != nil || acc.Address != "a" || acc.Metadata["role"] != "user" {
		t.Fatalf("GetAccount a: %+v %v", acc, err)
	}
	acc, err = f.store.GetAccount(f.ctx, "b")
	if err != nil || acc.Metadata["x"] != "y" {
		t.Fatalf("GetAccount b: %+v %v", acc, err)
	}
	acc, err = f.store.GetAccount(f.ctx, "unknown")
	if err != nil || acc.Address != "unknown" || len(acc.Metadata) != 0 {
		t.Fatalf("GetAccount unknown: %+v %v", acc, err)
	}
	bal, err := f.store.GetBalance(f.ctx, "a", "USD")
	if err != nil || bal.Cmp(big.NewInt(70)) != 0 {
		t.Fatalf("GetBalance: %v %v", bal, err)
	}
	bal, err = f.store.GetBalance(f.ctx, "world", "USD")
	if err != nil || bal.Cmp(big.NewInt(-100)) != 0 {
		t.Fatalf("GetBalance world: %v %v", bal, err)
	}
	// revert
	rev := newTx(2, at(4, 10), ledger.NewPosting("b", "a", "USD", big.NewInt(30)))
	f.insert(ledger.NewRevertedTransactionLog(at(4, 11), big.NewInt(1), rev))
	got, err = f.store.GetTransaction(f.ctx, big.NewInt(1))
	if err != nil || !got.Reverted {
		t.Fatalf("reverted: %+v %v", got, err)
	}
}
