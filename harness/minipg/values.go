package minipg

import (
	"bytes"
	"encoding/hex"
	"fmt"
	"math/big"
	"sort"
	"strconv"
	"strings"
	"time"
)

// Value is the sum of SQL values handled by minipg:
//
//	nil        SQL NULL
//	*big.Int   numeric / bigint / integer (integers only; never mutated in place)
//	string     varchar / text / enum label
//	bool       boolean
//	Timestamp  timestamp without time zone (microseconds since 1970-01-01 00:00:00)
//	JSON       jsonb / json (canonical form)
//	Composite  row value of a named composite type, a table row type, or an anonymous record (Type == "")
//	Array      one-dimensional array
//	Bytea      bytea
type Value interface{}

// Timestamp is a "timestamp without time zone": microseconds since 1970-01-01 00:00:00 (wall-clock, no zone).
type Timestamp int64

// Bytea is a bytea value.
type Bytea []byte

// Array is a one-dimensional SQL array.
type Array []Value

// Composite is a row value. Type is the composite/table type name, or "" for an anonymous record.
type Composite struct {
	Type   string
	Fields []Value
}

// jsonPath is the (very partial) jsonpath value: only `$[N] == "str"` is understood.
type jsonPath struct {
	index int
	str   string
}

// Type describes an SQL data type as written in the schema.
type Type struct {
	Name  string // normalised lower-case base name: numeric, bigint, integer, smallint, varchar, text, bool, jsonb, json, timestamp, bytea, void, trigger, record, anyelement, anyarray, jsonpath, bigserial, serial, or a user-defined type name
	Mod   int    // varchar(n): n ; 0 when absent
	Array bool   // T[]
}

func (t *Type) String() string {
	if t == nil {
		return "unknown"
	}
	s := t.Name
	if t.Mod > 0 {
		s += fmt.Sprintf("(%d)", t.Mod)
	}
	if t.Array {
		s += "[]"
	}
	return s
}

type typeKind int

const (
	kUnknown typeKind = iota
	kNum
	kText
	kBool
	kJSON
	kTimestamp
	kBytea
	kEnum
	kComposite
	kAny // polymorphic / record: no conversion
	kVoid
	kTrigger
	kJSONPath
	kArray
)

// Error is the error type returned for SQL-level failures. Code is a PostgreSQL-like condition name.
type Error struct {
	Code string // unique_violation, not_null_violation, syntax_error, undefined_column, unsupported, ...
	Msg  string
}

func (e *Error) Error() string {
	if e.Code == "unsupported" {
		return "minipg: unsupported: " + e.Msg
	}
	return "minipg: " + e.Code + ": " + e.Msg
}

func errf(code, format string, args ...interface{}) error {
	return &Error{Code: code, Msg: fmt.Sprintf(format, args...)}
}

func unsupported(format string, args ...interface{}) error {
	return &Error{Code: "unsupported", Msg: fmt.Sprintf(format, args...)}
}

// ---------------------------------------------------------------------------------------------------------------------
// Text rendering

// Text renders a value the way PostgreSQL's type output functions (and psql) do. NULL renders as "NULL".
func Text(v Value) string {
	if v == nil {
		return "NULL"
	}
	return outText(v)
}

func outText(v Value) string {
	switch x := v.(type) {
	case nil:
		return ""
	case *big.Int:
		return x.String()
	case string:
		return x
	case bool:
		if x {
			return "t"
		}
		return "f"
	case Timestamp:
		return x.String()
	case JSON:
		return x.String()
	case Composite:
		return x.String()
	case Array:
		return x.String()
	case Bytea:
		return x.String()
	case jsonPath:
		return fmt.Sprintf("($[%d] == %s)", x.index, quoteJSONString(x.str))
	}
	return fmt.Sprintf("%v", v)
}

func (b Bytea) String() string { return `\x` + hex.EncodeToString(b) }

func (c Composite) String() string {
	var sb strings.Builder
	sb.WriteByte('(')
	for i, f := range c.Fields {
		if i > 0 {
			sb.WriteByte(',')
		}
		if f == nil {
			continue
		}
		s := outText(f)
		need := s == ""
		for _, ch := range s {
			if ch == '(' || ch == ')' || ch == ',' || ch == '"' || ch == '\\' || ch == ' ' || ch == '\t' || ch == '\n' || ch == '\r' || ch == '\v' || ch == '\f' {
				need = true
				break
			}
		}
		if !need {
			sb.WriteString(s)
			continue
		}
		sb.WriteByte('"')
		for _, ch := range s {
			if ch == '"' || ch == '\\' {
				sb.WriteRune(ch)
			}
			sb.WriteRune(ch)
		}
		sb.WriteByte('"')
	}
	sb.WriteByte(')')
	return sb.String()
}

func (a Array) String() string {
	var sb strings.Builder
	sb.WriteByte('{')
	for i, e := range a {
		if i > 0 {
			sb.WriteByte(',')
		}
		if e == nil {
			sb.WriteString("NULL")
			continue
		}
		s := outText(e)
		need := s == "" || strings.EqualFold(s, "null")
		for _, ch := range s {
			if ch == '{' || ch == '}' || ch == ',' || ch == '"' || ch == '\\' || ch == ' ' || ch == '\t' || ch == '\n' || ch == '\r' || ch == '\v' || ch == '\f' {
				need = true
				break
			}
		}
		if !need {
			sb.WriteString(s)
			continue
		}
		sb.WriteByte('"')
		for _, ch := range s {
			if ch == '"' || ch == '\\' {
				sb.WriteByte('\\')
			}
			sb.WriteRune(ch)
		}
		sb.WriteByte('"')
	}
	sb.WriteByte('}')
	return sb.String()
}

// ---------------------------------------------------------------------------------------------------------------------
// Timestamps

const usPerSec = int64(1000000)
const usPerDay = 86400 * usPerSec

// daysFromCivil: days since 1970-01-01 of the proleptic Gregorian date y-m-d.
func daysFromCivil(y, m, d int64) int64 {
	if m <= 2 {
		y--
	}
	var era int64
	if y >= 0 {
		era = y / 400
	} else {
		era = (y - 399) / 400
	}
	yoe := y - era*400
	mp := (m + 9) % 12
	doy := (153*mp+2)/5 + d - 1
	doe := yoe*365 + yoe/4 - yoe/100 + doy
	return era*146097 + doe - 719468
}

func civilFromDays(z int64) (y, m, d int64) {
	z += 719468
	var era int64
	if z >= 0 {
		era = z / 146097
	} else {
		era = (z - 146096) / 146097
	}
	doe := z - era*146097
	yoe := (doe - doe/1460 + doe/36524 - doe/146096) / 365
	y = yoe + era*400
	doy := doe - (365*yoe + yoe/4 - yoe/100)
	mp := (5*doy + 2) / 153
	d = doy - (153*mp+2)/5 + 1
	if mp < 10 {
		m = mp + 3
	} else {
		m = mp - 9
	}
	if m <= 2 {
		y++
	}
	return
}

func (t Timestamp) parts() (y, mo, d, h, mi, s, us int64) {
	v := int64(t)
	days := v / usPerDay
	rem := v % usPerDay
	if rem < 0 {
		rem += usPerDay
		days--
	}
	y, mo, d = civilFromDays(days)
	us = rem % usPerSec
	rem /= usPerSec
	s = rem % 60
	rem /= 60
	mi = rem % 60
	h = rem / 60
	return
}

func (t Timestamp) format(sep byte) string {
	y, mo, d, h, mi, s, us := t.parts()
	out := fmt.Sprintf("%04d-%02d-%02d%c%02d:%02d:%02d", y, mo, d, sep, h, mi, s)
	if us != 0 {
		f := fmt.Sprintf("%06d", us)
		f = strings.TrimRight(f, "0")
		out += "." + f
	}
	return out
}

// String renders like PostgreSQL (DateStyle ISO): 2023-01-01 10:00:00[.ffffff].
func (t Timestamp) String() string { return t.format(' ') }

// Time converts to a time.Time in UTC carrying the same wall-clock fields.
func (t Timestamp) Time() time.Time { return time.UnixMicro(int64(t)).UTC() }

// TimestampFromTime keeps the UTC wall-clock fields of tm, truncated to microseconds.
func TimestampFromTime(tm time.Time) Timestamp { return Timestamp(tm.UTC().UnixMicro()) }

func isDigits(s string) bool {
	if s == "" {
		return false
	}
	for i := 0; i < len(s); i++ {
		if s[i] < '0' || s[i] > '9' {
			return false
		}
	}
	return true
}

func atoi(s string) int64 {
	var n int64
	for i := 0; i < len(s); i++ {
		n = n*10 + int64(s[i]-'0')
	}
	return n
}

// ParseTimestamp parses the text input of "timestamp without time zone":
// YYYY-MM-DD[(T| )HH:MM[:SS[.fraction]]][Z|(+|-)HH[:MM]] — a zone suffix is accepted and IGNORED (PostgreSQL's documented
// behaviour for timestamp without time zone); fractions beyond microseconds are rounded half-up.
func ParseTimestamp(in string) (Timestamp, error) {
	bad := func() (Timestamp, error) {
		return 0, errf("invalid_datetime_format", "invalid input syntax for type timestamp: %q", in)
	}
	s := strings.TrimSpace(in)
	if len(s) < 10 {
		return bad()
	}
	// date part: allow years of 4+ digits
	i := strings.IndexByte(s, '-')
	if i < 4 || !isDigits(s[:i]) || len(s) < i+6 || s[i+3] != '-' || !isDigits(s[i+1:i+3]) || !isDigits(s[i+4:i+6]) {
		return bad()
	}
	y, mo, d := atoi(s[:i]), atoi(s[i+1:i+3]), atoi(s[i+4:i+6])
	rest := s[i+6:]
	if y < 1 || y > 294276 || mo < 1 || mo > 12 || d < 1 {
		return 0, errf("datetime_field_overflow", "date/time field value out of range: %q", in)
	}
	mdays := []int64{31, 28, 31, 30, 31, 30, 31, 31, 30, 31, 30, 31}
	md := mdays[mo-1]
	if mo == 2 && (y%4 == 0 && (y%100 != 0 || y%400 == 0)) {
		md = 29
	}
	if d > md {
		return 0, errf("datetime_field_overflow", "date/time field value out of range: %q", in)
	}
	total := daysFromCivil(y, mo, d) * usPerDay
	if rest == "" {
		return Timestamp(total), nil
	}
	if rest[0] != 'T' && rest[0] != ' ' && rest[0] != 't' {
		return bad()
	}
	rest = strings.TrimLeft(rest[1:], " ")
	if len(rest) < 5 || !isDigits(rest[0:2]) || rest[2] != ':' || !isDigits(rest[3:5]) {
		return bad()
	}
	h, mi := atoi(rest[0:2]), atoi(rest[3:5])
	rest = rest[5:]
	var sec, us int64
	if len(rest) >= 3 && rest[0] == ':' && isDigits(rest[1:3]) {
		sec = atoi(rest[1:3])
		rest = rest[3:]
		if len(rest) > 0 && rest[0] == '.' {
			j := 1
			for j < len(rest) && rest[j] >= '0' && rest[j] <= '9' {
				j++
			}
			frac := rest[1:j]
			rest = rest[j:]
			if frac == "" {
				// "10:00:00." is accepted by PostgreSQL
			}
			digits := frac
			if len(digits) > 6 {
				digits = digits[:6]
			}
			for len(digits) < 6 {
				digits += "0"
			}
			us = atoi(digits)
			if len(frac) > 6 && frac[6] >= '5' {
				us++
			}
		}
	}
	if h > 24 || mi > 59 || sec > 60 || (h == 24 && (mi != 0 || sec != 0 || us != 0)) {
		return 0, errf("datetime_field_overflow", "date/time field value out of range: %q", in)
	}
	// zone suffix: ignored
	rest = strings.TrimSpace(rest)
	if rest != "" {
		switch {
		case rest == "Z" || rest == "z" || strings.EqualFold(rest, "UTC"):
		case rest[0] == '+' || rest[0] == '-':
			z := rest[1:]
			ok := false
			switch {
			case len(z) == 2 && isDigits(z):
				ok = true
			case len(z) == 4 && isDigits(z):
				ok = true
			case len(z) == 5 && isDigits(z[:2]) && z[2] == ':' && isDigits(z[3:]):
				ok = true
			case len(z) == 8 && isDigits(z[:2]) && z[2] == ':' && isDigits(z[3:5]) && z[5] == ':' && isDigits(z[6:]):
				ok = true
			}
			if !ok {
				return bad()
			}
		default:
			return bad()
		}
	}
	total += ((h*60+mi)*60+sec)*usPerSec + us
	return Timestamp(total), nil
}

// ---------------------------------------------------------------------------------------------------------------------
// Numbers

func parseInteger(s string, typ string) (*big.Int, error) {
	t := strings.TrimSpace(s)
	if t == "" {
		return nil, errf("invalid_text_representation", "invalid input syntax for type %s: %q", typ, s)
	}
	if n, ok := new(big.Int).SetString(t, 10); ok && !strings.HasPrefix(t, "+-") && !strings.Contains(t, "_") {
		return n, nil
	}
	// decimal / exponent forms: accept only when they denote an integer written without a fractional part we would lose
	if r, ok := parseDecimal(t); ok {
		if r.IsInt() && !strings.ContainsAny(t, ".") {
			return new(big.Int).Set(r.Num()), nil
		}
		return nil, unsupported("non-integer numeric value %q (minipg numerics are arbitrary-precision integers)", s)
	}
	return nil, errf("invalid_text_representation", "invalid input syntax for type %s: %q", typ, s)
}

func parseDecimal(t string) (*big.Rat, bool) {
	// strict decimal syntax: [+-]digits[.digits][e[+-]digits]
	i := 0
	if i < len(t) && (t[i] == '+' || t[i] == '-') {
		i++
	}
	nd := 0
	for i < len(t) && t[i] >= '0' && t[i] <= '9' {
		i++
		nd++
	}
	if i < len(t) && t[i] == '.' {
		i++
		for i < len(t) && t[i] >= '0' && t[i] <= '9' {
			i++
			nd++
		}
	}
	if nd == 0 {
		return nil, false
	}
	if i < len(t) && (t[i] == 'e' || t[i] == 'E') {
		i++
		if i < len(t) && (t[i] == '+' || t[i] == '-') {
			i++
		}
		ne := 0
		for i < len(t) && t[i] >= '0' && t[i] <= '9' {
			i++
			ne++
		}
		if ne == 0 {
			return nil, false
		}
	}
	if i != len(t) {
		return nil, false
	}
	r, ok := new(big.Rat).SetString(t)
	return r, ok
}

var (
	minInt8 = new(big.Int).Neg(new(big.Int).Lsh(big.NewInt(1), 63))
	maxInt8 = new(big.Int).Sub(new(big.Int).Lsh(big.NewInt(1), 63), big.NewInt(1))
	minInt4 = big.NewInt(-2147483648)
	maxInt4 = big.NewInt(2147483647)
	minInt2 = big.NewInt(-32768)
	maxInt2 = big.NewInt(32767)
)

func checkIntRange(n *big.Int, typ string) error {
	switch typ {
	case "bigint", "bigserial":
		if n.Cmp(minInt8) < 0 || n.Cmp(maxInt8) > 0 {
			return errf("numeric_value_out_of_range", "bigint out of range")
		}
	case "integer", "serial":
		if n.Cmp(minInt4) < 0 || n.Cmp(maxInt4) > 0 {
			return errf("numeric_value_out_of_range", "integer out of range")
		}
	case "smallint":
		if n.Cmp(minInt2) < 0 || n.Cmp(maxInt2) > 0 {
			return errf("numeric_value_out_of_range", "smallint out of range")
		}
	}
	return nil
}

// ---------------------------------------------------------------------------------------------------------------------
// Comparison, equality, keys

func kindName(v Value) string {
	switch v.(type) {
	case nil:
		return "null"
	case *big.Int:
		return "numeric"
	case string:
		return "text"
	case bool:
		return "boolean"
	case Timestamp:
		return "timestamp"
	case JSON:
		return "jsonb"
	case Composite:
		return "record"
	case Array:
		return "array"
	case Bytea:
		return "bytea"
	case jsonPath:
		return "jsonpath"
	}
	return fmt.Sprintf("%T", v)
}

// compareValues compares two non-NULL values of the same kind (total order used by comparison operators, ORDER BY, min/max).
// Strings compare bytewise ("C" collation). Inside composites and arrays NULLs sort after everything.
func compareValues(a, b Value) (int, error) {
	switch x := a.(type) {
	case *big.Int:
		if y, ok := b.(*big.Int); ok {
			return x.Cmp(y), nil
		}
	case string:
		if y, ok := b.(string); ok {
			return strings.Compare(x, y), nil
		}
	case bool:
		if y, ok := b.(bool); ok {
			switch {
			case x == y:
				return 0, nil
			case !x:
				return -1, nil
			}
			return 1, nil
		}
	case Timestamp:
		if y, ok := b.(Timestamp); ok {
			switch {
			case x < y:
				return -1, nil
			case x > y:
				return 1, nil
			}
			return 0, nil
		}
	case Bytea:
		if y, ok := b.(Bytea); ok {
			return bytes.Compare(x, y), nil
		}
	case JSON:
		if y, ok := b.(JSON); ok {
			return compareJSON(x, y), nil
		}
	case Composite:
		if y, ok := b.(Composite); ok {
			if len(x.Fields) != len(y.Fields) {
				return 0, errf("datatype_mismatch", "cannot compare record types with different numbers of columns")
			}
			for i := range x.Fields {
				c, err := compareNullable(x.Fields[i], y.Fields[i])
				if err != nil || c != 0 {
					return c, err
				}
			}
			return 0, nil
		}
	case Array:
		if y, ok := b.(Array); ok {
			for i := 0; i < len(x) && i < len(y); i++ {
				c, err := compareNullable(x[i], y[i])
				if err != nil || c != 0 {
					return c, err
				}
			}
			switch {
			case len(x) < len(y):
				return -1, nil
			case len(x) > len(y):
				return 1, nil
			}
			return 0, nil
		}
	}
	return 0, errf("undefined_function", "operator does not exist: %s <cmp> %s", kindName(a), kindName(b))
}

// compareNullable: total order with NULLs last.
func compareNullable(a, b Value) (int, error) {
	switch {
	case a == nil && b == nil:
		return 0, nil
	case a == nil:
		return 1, nil
	case b == nil:
		return -1, nil
	}
	return compareValues(a, b)
}

// valueKey returns a string that is equal for two values iff they are "not distinct" (NULL = NULL).
func valueKey(v Value) string {
	var sb strings.Builder
	writeKey(&sb, v)
	return sb.String()
}

func writeKey(sb *strings.Builder, v Value) {
	switch x := v.(type) {
	case nil:
		sb.WriteString("N;")
	case *big.Int:
		sb.WriteString("i")
		sb.WriteString(x.String())
		sb.WriteByte(';')
	case string:
		sb.WriteByte('s')
		sb.WriteString(strconv.Itoa(len(x)))
		sb.WriteByte(':')
		sb.WriteString(x)
		sb.WriteByte(';')
	case bool:
		if x {
			sb.WriteString("bt;")
		} else {
			sb.WriteString("bf;")
		}
	case Timestamp:
		sb.WriteByte('t')
		sb.WriteString(strconv.FormatInt(int64(x), 10))
		sb.WriteByte(';')
	case Bytea:
		fmt.Fprintf(sb, "x%s;", hex.EncodeToString(x))
	case JSON:
		s := x.keyString()
		sb.WriteByte('j')
		sb.WriteString(strconv.Itoa(len(s)))
		sb.WriteByte(':')
		sb.WriteString(s)
		sb.WriteByte(';')
	case Composite:
		sb.WriteString("c(")
		for _, f := range x.Fields {
			writeKey(sb, f)
		}
		sb.WriteString(");")
	case Array:
		sb.WriteString("a(")
		for _, f := range x {
			writeKey(sb, f)
		}
		sb.WriteString(");")
	default:
		fmt.Fprintf(sb, "?%v;", v)
	}
}

// sortStable sorts rows by precomputed keys. desc[i] flips key i; NULLS LAST for asc, NULLS FIRST for desc (PostgreSQL defaults).
func sortStable(n int, keys func(i int) []Value, desc []bool, nullsFirst []int, swap func(perm []int)) error {
	perm := make([]int, n)
	for i := range perm {
		perm[i] = i
	}
	var serr error
	sort.SliceStable(perm, func(a, b int) bool {
		ka, kb := keys(perm[a]), keys(perm[b])
		for i := range ka {
			x, y := ka[i], kb[i]
			var c int
			switch {
			case x == nil && y == nil:
				c = 0
			case x == nil || y == nil:
				// nullsFirst[i]: 0 = default (NULLS LAST for asc, NULLS FIRST for desc), 1 = first, 2 = last
				nf := desc[i]
				if nullsFirst[i] == 1 {
					nf = true
				} else if nullsFirst[i] == 2 {
					nf = false
				}
				if x == nil {
					return nf
				}
				return !nf
			default:
				var err error
				c, err = compareValues(x, y)
				if err != nil && serr == nil {
					serr = err
				}
				if desc[i] {
					c = -c
				}
			}
			if c != 0 {
				return c < 0
			}
		}
		return false
	})
	if serr != nil {
		return serr
	}
	swap(perm)
	return nil
}
