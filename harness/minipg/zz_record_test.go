//go:build verif

package minipg

import (
	"context"
	"database/sql"
	"fmt"
	"math/big"
	"testing"
	"time"

	ledger "github.com/formancehq/ledger/internal"
	"github.com/formancehq/ledger/internal/storage/ledgerstore"
	"github.com/formancehq/ledger/verifx/fakesql/recorder"
	"github.com/formancehq/stack/libs/go-libs/metadata"
	"github.com/formancehq/stack/libs/go-libs/query"
	"github.com/uptrace/bun"
	"github.com/uptrace/bun/dialect/pgdialect"
)

func TestZZRecord(t *testing.T) {
	rec := recorder.New()
	db := bun.NewDB(sql.OpenDB(rec), pgdialect.New(), bun.WithDiscardUnknownColumns())
	st := ledgerstore.NewStoreForVerif(db, "bkt", "l1")
	ctx := context.Background()
	now := ledger.Time{Time: time.Date(2023, 1, 1, 10, 0, 0, 123456000, time.UTC)}
	tx := ledger.NewTransaction().WithPostings(ledger.NewPosting("world", "a", "USD", big.NewInt(100))).WithDate(now).WithMetadata(metadata.Metadata{"k": "v"})
	l := ledger.NewTransactionLogWithDate(tx, map[string]metadata.Metadata{"a": {"x": "y"}}, now).WithIdempotencyKey("ik").ChainLog(nil)
	_ = st.InsertLogs(ctx, l)
	st.GetLastLog(ctx)
	st.ReadLogWithIdempotencyKey(ctx, "ik")
	st.GetTransaction(ctx, big.NewInt(0))
	st.GetTransactionByReference(ctx, "ref")
	st.GetLastTransaction(ctx)
	st.GetAccount(ctx, "a")
	st.GetBalance(ctx, "a", "USD")
	st.GetTransactionWithVolumes(ctx, ledgerstore.NewGetTransactionQuery(big.NewInt(0)))
	st.GetTransactionWithVolumes(ctx, ledgerstore.NewGetTransactionQuery(big.NewInt(0)).WithExpandVolumes().WithExpandEffectiveVolumes())
	qq := ledgerstore.NewGetTransactionQuery(big.NewInt(0)).WithExpandVolumes().WithExpandEffectiveVolumes()
	qq.PIT = &now
	st.GetTransactionWithVolumes(ctx, qq)
	st.GetAccountWithVolumes(ctx, ledgerstore.NewGetAccountQuery("a"))
	st.GetAccountWithVolumes(ctx, ledgerstore.NewGetAccountQuery("a").WithExpandVolumes().WithExpandEffectiveVolumes())
	st.GetAccountWithVolumes(ctx, ledgerstore.NewGetAccountQuery("a").WithExpandVolumes().WithExpandEffectiveVolumes().WithPIT(now))
	st.GetAggregatedBalances(ctx, ledgerstore.NewGetAggregatedBalancesQuery(ledgerstore.NewPaginatedQueryOptions(ledgerstore.PITFilter{})))
	st.GetAggregatedBalances(ctx, ledgerstore.NewGetAggregatedBalancesQuery(ledgerstore.NewPaginatedQueryOptions(ledgerstore.PITFilter{PIT: &now})))
	st.GetAggregatedBalances(ctx, ledgerstore.NewGetAggregatedBalancesQuery(ledgerstore.NewPaginatedQueryOptions(ledgerstore.PITFilter{PIT: &now}).WithQueryBuilder(query.And(query.Match("address", "a:"), query.Match("metadata[foo]", "bar")))))
	st.GetAggregatedBalances(ctx, ledgerstore.NewGetAggregatedBalancesQuery(ledgerstore.NewPaginatedQueryOptions(ledgerstore.PITFilter{}).WithQueryBuilder(query.Or(query.Match("address", "a"), query.Not(query.Match("metadata[foo]", "bar"))))))
	st.GetAccountsWithVolumes(ctx, ledgerstore.NewGetAccountsQuery(ledgerstore.NewPaginatedQueryOptions(ledgerstore.PITFilterWithVolumes{})))
	aq := ledgerstore.NewGetAccountsQuery(ledgerstore.NewPaginatedQueryOptions(ledgerstore.PITFilterWithVolumes{PITFilter: ledgerstore.PITFilter{PIT: &now}, ExpandVolumes: true, ExpandEffectiveVolumes: true}).WithQueryBuilder(query.And(query.Match("address", "a"), query.Match("metadata[foo]", "bar"), query.Lt("balance[USD]", 50), query.Lt("balance", 50))))
	aq.Offset = 15
	st.GetAccountsWithVolumes(ctx, aq)
	st.CountAccounts(ctx, aq)
	tq := ledgerstore.NewGetTransactionsQuery(ledgerstore.NewPaginatedQueryOptions(ledgerstore.PITFilterWithVolumes{}))
	st.GetTransactions(ctx, tq)
	tq2 := ledgerstore.NewGetTransactionsQuery(ledgerstore.NewPaginatedQueryOptions(ledgerstore.PITFilterWithVolumes{PITFilter: ledgerstore.PITFilter{PIT: &now}, ExpandVolumes: true, ExpandEffectiveVolumes: true}).WithQueryBuilder(query.And(query.Match("account", "a"), query.Match("source", "a:"), query.Match("destination", "b"), query.Match("metadata[foo]", "bar"), query.Match("reference", "r"), query.Lt("timestamp", now), query.Gte("timestamp", now))))
	tq2.PaginationID = big.NewInt(5); tq2.Bottom = big.NewInt(9)
	st.GetTransactions(ctx, tq2)
	st.CountTransactions(ctx, tq2)
	st.GetLogs(ctx, ledgerstore.NewGetLogsQuery(ledgerstore.NewPaginatedQueryOptions[any](nil)))
	st.GetLogs(ctx, ledgerstore.NewGetLogsQuery(ledgerstore.NewPaginatedQueryOptions[any](nil).WithQueryBuilder(query.Lt("date", now))))
	for _, s := range rec.Take() {
		fmt.Printf("[%s/%d] %s\n\n", s.Kind, s.Args, s.SQL)
	}
}
