// Package nsx: Numscript exchange between the real implementation and the Coq model M1:
// parse-tree -> AST dump (mechanical, one case per grammar rule), AST -> Coq term, program -> Coq term,
// values -> Coq terms, random program generator.
package nsx

import (
	"fmt"
	"math/big"
	"strings"

	"github.com/antlr/antlr4/runtime/Go/antlr"
	"github.com/formancehq/ledger/internal/machine"
	"github.com/formancehq/ledger/internal/machine/script/parser"
)

// ---- AST (mirror of coq/theories/Numscript/Syntax.v) --------------------------------------------------

type Expr struct {
	K     string // acc asset num str portion mon var addsub
	Text  string // name / digits / literal text
	Asset *Expr  // mon
	Add   bool
	L, R  *Expr
}
type APortion struct {
	K    string // const var remaining
	Text string
}
type Source struct {
	K    string // account maxed inorder
	Acc  *Expr
	Ov   string // none specific unbounded
	OvE  *Expr
	Max  *Expr
	Src  *Source
	Srcs []*Source
}
type VASource struct {
	Src   *Source
	Allot []AllotSrc
}
type AllotSrc struct {
	P APortion
	S *Source
}
type Kod struct {
	Kept bool
	D    *Dest
}
type Dest struct {
	K     string // account inorder allot
	E     *Expr
	Maxes []MaxDest
	Rem   *Kod
	Allot []AllotDest
}
type MaxDest struct {
	Amt *Expr
	K   Kod
}
type AllotDest struct {
	P APortion
	K Kod
}
type Stmt struct {
	K    string // print save txmeta accmeta fail send
	E    *Expr  // print expr / value
	Mon  *Expr  // send/save monetary
	All  *Expr  // send/save [asset *]
	Acc  *Expr  // save / accmeta account
	Key  string
	Src  *VASource
	Dest *Dest
}
type VarDecl struct {
	Ty      string
	Name    string
	Orig    string // "" meta balance
	Acc     *Expr
	Key     string
	AssetE  *Expr
}
type Script struct {
	Vars  []VarDecl
	Stmts []Stmt
}

// ---- parse with the real ANTLR parser and dump the tree ----------------------------------------------

type errListener struct {
	*antlr.DefaultErrorListener
	n int
}

func (l *errListener) SyntaxError(recognizer antlr.Recognizer, offendingSymbol interface{}, line, column int, msg string, e antlr.RecognitionException) {
	l.n++
}

// Parse returns nil when the text has syntax errors (exactly when compiler.CompileFull stops before visiting).
func Parse(input string) *Script {
	el := &errListener{DefaultErrorListener: antlr.NewDefaultErrorListener()}
	is := antlr.NewInputStream(input)
	lexer := parser.NewNumScriptLexer(is)
	lexer.RemoveErrorListeners()
	lexer.AddErrorListener(el)
	stream := antlr.NewCommonTokenStream(lexer, antlr.LexerDefaultTokenChannel)
	p := parser.NewNumScriptParser(stream)
	p.RemoveErrorListeners()
	p.AddErrorListener(el)
	p.BuildParseTrees = true
	tree := p.Script()
	if el.n != 0 {
		return nil
	}
	sc, ok := tree.(*parser.ScriptContext)
	if !ok {
		return nil
	}
	out := &Script{}
	if vars := sc.GetVars(); vars != nil {
		vl, ok := vars.(*parser.VarListDeclContext)
		if !ok {
			return nil
		}
		for _, v := range vl.GetV() {
			vd := v.(*parser.VarDeclContext)
			d := VarDecl{Ty: vd.GetTy().GetText(), Name: vd.GetName().GetText()[1:]}
			switch o := vd.GetOrig().(type) {
			case *parser.OriginAccountMetaContext:
				d.Orig = "meta"
				d.Acc = dumpExpr(o.GetAccount())
				d.Key = strings.Trim(o.GetKey().GetText(), `"`)
			case *parser.OriginAccountBalanceContext:
				d.Orig = "balance"
				d.Acc = dumpExpr(o.GetAccount())
				d.AssetE = dumpExpr(o.GetAsset())
			}
			out.Vars = append(out.Vars, d)
		}
	}
	for _, st := range sc.GetStmts() {
		out.Stmts = append(out.Stmts, dumpStmt(st))
	}
	return out
}

func dumpExpr(c parser.IExpressionContext) *Expr {
	switch c := c.(type) {
	case *parser.ExprAddSubContext:
		return &Expr{K: "addsub", Add: c.GetOp().GetTokenType() == parser.NumScriptLexerOP_ADD, L: dumpExpr(c.GetLhs()), R: dumpExpr(c.GetRhs())}
	case *parser.ExprLiteralContext:
		switch l := c.GetLit().(type) {
		case *parser.LitAccountContext:
			return &Expr{K: "acc", Text: l.GetText()[1:]}
		case *parser.LitAssetContext:
			return &Expr{K: "asset", Text: l.GetText()}
		case *parser.LitNumberContext:
			return &Expr{K: "num", Text: l.GetText()}
		case *parser.LitStringContext:
			return &Expr{K: "str", Text: strings.Trim(l.GetText(), `"`)}
		case *parser.LitPortionContext:
			return &Expr{K: "portion", Text: l.GetText()}
		case *parser.LitMonetaryContext:
			return &Expr{K: "mon", Asset: dumpExpr(l.Monetary().GetAsset()), Text: l.Monetary().GetAmt().GetText()}
		}
	case *parser.ExprVariableContext:
		return &Expr{K: "var", Text: c.GetVar_().GetText()[1:]}
	}
	panic(fmt.Sprintf("dumpExpr: unexpected %T", c))
}

func dumpPortion(c parser.IAllotmentPortionContext) APortion {
	switch c := c.(type) {
	case *parser.AllotmentPortionConstContext:
		return APortion{K: "const", Text: c.GetText()}
	case *parser.AllotmentPortionVarContext:
		return APortion{K: "var", Text: c.GetPor().GetText()[1:]}
	case *parser.AllotmentPortionRemainingContext:
		return APortion{K: "remaining"}
	}
	panic(fmt.Sprintf("dumpPortion: unexpected %T", c))
}

func dumpSource(c parser.ISourceContext) *Source {
	switch c := c.(type) {
	case *parser.SrcAccountContext:
		sa := c.SourceAccount().(*parser.SourceAccountContext)
		s := &Source{K: "account", Acc: dumpExpr(sa.GetAccount()), Ov: "none"}
		switch o := sa.GetOverdraft().(type) {
		case *parser.SrcAccountOverdraftSpecificContext:
			s.Ov, s.OvE = "specific", dumpExpr(o.GetSpecific())
		case *parser.SrcAccountOverdraftUnboundedContext:
			s.Ov = "unbounded"
		}
		return s
	case *parser.SrcMaxedContext:
		sm := c.SourceMaxed().(*parser.SourceMaxedContext)
		return &Source{K: "maxed", Max: dumpExpr(sm.GetMax()), Src: dumpSource(sm.GetSrc())}
	case *parser.SrcInOrderContext:
		s := &Source{K: "inorder"}
		for _, x := range c.SourceInOrder().(*parser.SourceInOrderContext).GetSources() {
			s.Srcs = append(s.Srcs, dumpSource(x))
		}
		return s
	}
	panic(fmt.Sprintf("dumpSource: unexpected %T", c))
}

func dumpKod(c parser.IKeptOrDestinationContext) Kod {
	switch c := c.(type) {
	case *parser.IsKeptContext:
		return Kod{Kept: true}
	case *parser.IsDestinationContext:
		return Kod{D: dumpDest(c.Destination())}
	}
	panic(fmt.Sprintf("dumpKod: unexpected %T", c))
}

func dumpDest(c parser.IDestinationContext) *Dest {
	switch c := c.(type) {
	case *parser.DestAccountContext:
		return &Dest{K: "account", E: dumpExpr(c.Expression())}
	case *parser.DestInOrderContext:
		io := c.DestinationInOrder().(*parser.DestinationInOrderContext)
		d := &Dest{K: "inorder"}
		for i := range io.GetDests() {
			d.Maxes = append(d.Maxes, MaxDest{Amt: dumpExpr(io.GetAmounts()[i]), K: dumpKod(io.GetDests()[i])})
		}
		k := dumpKod(io.GetRemainingDest())
		d.Rem = &k
		return d
	case *parser.DestAllotmentContext:
		al := c.DestinationAllotment().(*parser.DestinationAllotmentContext)
		d := &Dest{K: "allot"}
		for i := range al.GetDests() {
			d.Allot = append(d.Allot, AllotDest{P: dumpPortion(al.GetPortions()[i]), K: dumpKod(al.GetDests()[i])})
		}
		return d
	}
	panic(fmt.Sprintf("dumpDest: unexpected %T", c))
}

func dumpStmt(c parser.IStatementContext) Stmt {
	switch c := c.(type) {
	case *parser.PrintContext:
		return Stmt{K: "print", E: dumpExpr(c.GetExpr())}
	case *parser.FailContext:
		return Stmt{K: "fail"}
	case *parser.SetTxMetaContext:
		return Stmt{K: "txmeta", Key: strings.Trim(c.GetKey().GetText(), `"`), E: dumpExpr(c.GetValue())}
	case *parser.SetAccountMetaContext:
		return Stmt{K: "accmeta", Key: strings.Trim(c.GetKey().GetText(), `"`), E: dumpExpr(c.GetValue()), Acc: dumpExpr(c.GetAcc())}
	case *parser.SaveFromAccountContext:
		s := Stmt{K: "save", Acc: dumpExpr(c.GetAcc())}
		if ma := c.GetMonAll(); ma != nil {
			s.All = dumpExpr(ma.GetAsset())
		} else {
			s.Mon = dumpExpr(c.GetMon())
		}
		return s
	case *parser.SendContext:
		s := Stmt{K: "send", Dest: dumpDest(c.GetDest())}
		if ma := c.GetMonAll(); ma != nil {
			s.All = dumpExpr(ma.GetAsset())
		} else {
			s.Mon = dumpExpr(c.GetMon())
		}
		switch src := c.GetSrc().(type) {
		case *parser.SrcContext:
			s.Src = &VASource{Src: dumpSource(src.Source())}
		case *parser.SrcAllotmentContext:
			sa := src.SourceAllotment().(*parser.SourceAllotmentContext)
			v := &VASource{}
			for i := range sa.GetSources() {
				v.Allot = append(v.Allot, AllotSrc{P: dumpPortion(sa.GetPortions()[i]), S: dumpSource(sa.GetSources()[i])})
			}
			s.Src = v
		}
		return s
	}
	panic(fmt.Sprintf("dumpStmt: unexpected %T", c))
}

// ---- interning and Coq printing ----------------------------------------------------------------------

type Names struct {
	Acc, Asset, Str, Var map[string]uint64
}

func NewNames() *Names {
	return &Names{Acc: map[string]uint64{"world": 0}, Asset: map[string]uint64{}, Str: map[string]uint64{}, Var: map[string]uint64{}}
}
func get(m map[string]uint64, s string) uint64 {
	if v, ok := m[s]; ok {
		return v
	}
	m[s] = uint64(len(m))
	return m[s]
}
func (n *Names) A(s string) string  { return fmt.Sprintf("%d%%N", get(n.Acc, s)) }
func (n *Names) S(s string) string  { return fmt.Sprintf("%d%%N", get(n.Asset, s)) }
func (n *Names) St(s string) string { return fmt.Sprintf("%d%%N", get(n.Str, s)) }
func (n *Names) V(s string) string  { return fmt.Sprintf("%d%%N", get(n.Var, s)) }

func Z(b *big.Int) string {
	if b.Sign() < 0 {
		return "(" + b.String() + ")%Z"
	}
	return b.String() + "%Z"
}
func zText(digits string) string {
	b, ok := new(big.Int).SetString(digits, 10)
	if !ok {
		return "0%Z"
	}
	return Z(b)
}

func Ratio(r *big.Rat) string {
	return fmt.Sprintf("(%s, %s%%positive)", Z(r.Num()), r.Denom().String())
}

// portion literal text -> option ratio, with the real ParsePortionSpecific
func portionOpt(text string) (out string) {
	// the real parser function is glue here; if it panics the compiler panics on the same text and the
	// C12 oracle reports that: the AST dump must survive
	defer func() {
		if r := recover(); r != nil {
			out = "None"
		}
	}()
	p, err := machine.ParsePortionSpecific(text)
	if err != nil || p == nil {
		return "None"
	}
	return "(Some " + Ratio(p.Specific) + ")"
}

func (n *Names) Expr(e *Expr) string {
	switch e.K {
	case "acc":
		return "(ELitAccount " + n.A(e.Text) + ")"
	case "asset":
		return "(ELitAsset " + n.S(e.Text) + ")"
	case "num":
		return "(ELitNumber " + zText(e.Text) + ")"
	case "str":
		return "(ELitString " + n.St(e.Text) + ")"
	case "portion":
		return "(ELitPortion " + portionOpt(e.Text) + ")"
	case "mon":
		return "(ELitMonetary " + n.Expr(e.Asset) + " " + zText(e.Text) + ")"
	case "var":
		return "(EVar " + n.V(e.Text) + ")"
	case "addsub":
		b := "false"
		if e.Add {
			b = "true"
		}
		return "(EAddSub " + b + " " + n.Expr(e.L) + " " + n.Expr(e.R) + ")"
	}
	panic("Expr: " + e.K)
}
func (n *Names) Portion(p APortion) string {
	switch p.K {
	case "const":
		return "(APConst " + portionOpt(p.Text) + ")"
	case "var":
		return "(APVar " + n.V(p.Text) + ")"
	}
	return "APRemaining"
}
func (n *Names) Source(s *Source) string {
	switch s.K {
	case "account":
		ov := "OvNone"
		if s.Ov == "specific" {
			ov = "(OvSpecific " + n.Expr(s.OvE) + ")"
		} else if s.Ov == "unbounded" {
			ov = "OvUnbounded"
		}
		return "(SAccount " + n.Expr(s.Acc) + " " + ov + ")"
	case "maxed":
		return "(SMaxed " + n.Expr(s.Max) + " " + n.Source(s.Src) + ")"
	}
	var xs []string
	for _, x := range s.Srcs {
		xs = append(xs, n.Source(x))
	}
	return "(SInOrder [" + strings.Join(xs, "; ") + "])"
}
func (n *Names) Kod(k Kod) string {
	if k.Kept {
		return "Kept"
	}
	return "(KTo " + n.Dest(k.D) + ")"
}
func (n *Names) Dest(d *Dest) string {
	switch d.K {
	case "account":
		return "(DAccount " + n.Expr(d.E) + ")"
	case "inorder":
		var xs []string
		for _, m := range d.Maxes {
			xs = append(xs, "("+n.Expr(m.Amt)+", "+n.Kod(m.K)+")")
		}
		return "(DInOrder [" + strings.Join(xs, "; ") + "] " + n.Kod(*d.Rem) + ")"
	}
	var xs []string
	for _, a := range d.Allot {
		xs = append(xs, "("+n.Portion(a.P)+", "+n.Kod(a.K)+")")
	}
	return "(DAllot [" + strings.Join(xs, "; ") + "])"
}
func (n *Names) amount(mon, all *Expr) string {
	if all != nil {
		return "(SendAll " + n.Expr(all) + ")"
	}
	return "(SendMon " + n.Expr(mon) + ")"
}
func (n *Names) Stmt(s Stmt) string {
	switch s.K {
	case "print":
		return "(StPrint " + n.Expr(s.E) + ")"
	case "fail":
		return "StFail"
	case "txmeta":
		return "(StTxMeta " + n.St(s.Key) + " " + n.Expr(s.E) + ")"
	case "accmeta":
		return "(StAccMeta " + n.Expr(s.Acc) + " " + n.St(s.Key) + " " + n.Expr(s.E) + ")"
	case "save":
		return "(StSave " + n.amount(s.Mon, s.All) + " " + n.Expr(s.Acc) + ")"
	}
	var src string
	if s.Src.Src != nil {
		src = "(VSrc " + n.Source(s.Src.Src) + ")"
	} else {
		var xs []string
		for _, a := range s.Src.Allot {
			xs = append(xs, "("+n.Portion(a.P)+", "+n.Source(a.S)+")")
		}
		src = "(VSrcAllot [" + strings.Join(xs, "; ") + "])"
	}
	return "(StSend " + n.amount(s.Mon, s.All) + " " + src + " " + n.Dest(s.Dest) + ")"
}
func VType(t string) string {
	return map[string]string{"account": "TAccount", "asset": "TAsset", "number": "TNumber", "string": "TString", "monetary": "TMonetary", "portion": "TPortion"}[t]
}
func (n *Names) Script(s *Script) string {
	var vs, ss []string
	for _, v := range s.Vars {
		o := "None"
		if v.Orig == "meta" {
			o = "(Some (OMeta " + n.Expr(v.Acc) + " " + n.St(v.Key) + "))"
		} else if v.Orig == "balance" {
			o = "(Some (OBalance " + n.Expr(v.Acc) + " " + n.Expr(v.AssetE) + "))"
		}
		vs = append(vs, "{| vd_type := "+VType(v.Ty)+"; vd_name := "+n.V(v.Name)+"; vd_orig := "+o+" |}")
	}
	for _, st := range s.Stmts {
		ss = append(ss, n.Stmt(st))
	}
	return "{| s_vars := [" + strings.Join(vs, "; ") + "]; s_stmts := [" + strings.Join(ss, "; ") + "] |}"
}
