package nsx

import (
	"fmt"

	"github.com/formancehq/ledger/verifx/vx"
)

// Input is one generated (or corpus) case for the Numscript pipeline.
type Input struct {
	Script    string                       `json:"script"`
	Vars      map[string]string            `json:"vars"`
	Balances  map[string]map[string]string `json:"balances"`
	Meta      map[string]map[string]string `json:"meta"`
	ExtraMeta map[string]string            `json:"extra_meta,omitempty"`
	Note      string                       `json:"note,omitempty"`
}

var accPool = []string{"world", "a", "b", "c", "d", "x:y", "cfg", "world:fees", "World"}
var assetPool = []string{"USD", "EUR", "COIN/2"}
var amtPool = []string{"0", "1", "2", "3", "5", "7", "10", "10", "10", "20", "50", "50", "99", "100", "100", "101", "1000", "100000000000000001", "9000000000000000000", "18446744073709551617", "340282366920938463463374607431768211456"}
var balPool = []string{"0", "1", "5", "10", "50", "100", "100", "200", "1000", "1000", "5000", "9100000000000000000", "18446744073709551621", "680564733841876926926749214863536422912", "-20", "-50"}
var keyPool = []string{"k", "src", "fee", "note"}

var splits = [][]string{
	{"1/2", "1/2"}, {"1/3", "2/3"}, {"1/4", "1/4", "1/2"}, {"10%", "90%"}, {"50%", "remaining"}, {"1/3", "1/3", "remaining"},
	{"$p", "remaining"}, {"1/7", "2/7", "remaining"}, {"33.3%", "remaining"}, {"33.33%", "remaining"}, {"3333/10000", "6667/10000"}, {"0%", "100%"}, {"remaining", "1/8"},
	{"1/3", "1/3", "1/3"}, {"$p", "1/10", "remaining"}, {"1/1"}, {"remaining"},
}
var badSplits = [][]string{
	{"1/2", "1/4"}, {"2/3", "2/3"}, {"100%", "remaining"}, {"$p", "1/2", "1/2"}, {"remaining", "remaining"}, {"$p", "1/2"},
	{"3/2"}, {"1/0", "remaining"}, {"$q", "remaining"},
}

type G struct {
	r       *vx.Rng
	vars    []VarDecl
	byType  map[string][]string
	depth   int
	used    map[string]bool // accounts already emptied by the current send's sources
	BadRate int // 1 in BadRate choices is deliberately ill-formed
	// Wild: an ill-formed choice in an account or monetary position is an expression of ANY type (literal of every
	// kind, arithmetic on numbers, variables of every type), not only the neighbouring type
	Wild   bool
	wdepth int
}

func NewG(r *vx.Rng) *G { return &G{r: r, byType: map[string][]string{}, used: map[string]bool{}, BadRate: 120} }

func (g *G) pick(xs []string) string { return xs[g.r.Intn(len(xs))] }
func (g *G) bad() bool               { return g.r.Intn(g.BadRate) == 0 }

func (g *G) varOf(ty string) *Expr {
	if vs := g.byType[ty]; len(vs) > 0 && g.r.Chance(1, 3) {
		return &Expr{K: "var", Text: g.pick(vs)}
	}
	return nil
}
func (g *G) accountExpr() *Expr {
	if g.bad() {
		if g.Wild {
			return g.anyExpr() // any type, incl. arithmetic on numbers and variables of every type
		}
		return g.monetary("")
	}
	if v := g.varOf("account"); v != nil {
		return v
	}
	return &Expr{K: "acc", Text: g.pick(accPool)}
}
func (g *G) nonWorldAccount() *Expr {
	if v := g.varOf("account"); v != nil {
		return v
	}
	return &Expr{K: "acc", Text: g.pick(accPool[1:])}
}
func (g *G) assetExpr(asset string) *Expr {
	if v := g.varOf("asset"); v != nil && asset == "" {
		return v
	}
	if asset == "" {
		asset = g.pick(assetPool)
	}
	return &Expr{K: "asset", Text: asset}
}
func (g *G) monLit(asset string) *Expr {
	return &Expr{K: "mon", Asset: g.assetExpr(asset), Text: g.pick(amtPool)}
}
func (g *G) monetary(asset string) *Expr {
	if g.bad() {
		if g.Wild && g.wdepth < 3 {
			g.wdepth++
			e := g.anyExpr()
			g.wdepth--
			return e
		}
		return &Expr{K: "num", Text: "5"}
	}
	switch g.r.Intn(8) {
	case 0:
		if v := g.varOf("monetary"); v != nil {
			return v
		}
	case 1:
		return &Expr{K: "addsub", Add: g.r.Chance(2, 3), L: g.monLit(asset), R: g.monLit(asset)}
	case 2:
		if vs := g.byType["monetary"]; len(vs) > 0 {
			return &Expr{K: "addsub", Add: g.r.Bool(), L: &Expr{K: "var", Text: g.pick(vs)}, R: g.monLit(asset)}
		}
	}
	return g.monLit(asset)
}
func (g *G) anyExpr() *Expr {
	switch g.r.Intn(9) {
	case 0:
		return &Expr{K: "acc", Text: g.pick(accPool)}
	case 1:
		return &Expr{K: "asset", Text: g.pick(assetPool)}
	case 2:
		return &Expr{K: "num", Text: g.pick(amtPool)}
	case 3:
		return &Expr{K: "str", Text: g.pick([]string{"hello", "a b", "a b", "", "x-1_y", " paid late ", "vip ", " x"})}
	case 4:
		if g.bad() {
			return &Expr{K: "portion", Text: g.pick([]string{"3/2", "1/0", "101%"})}
		}
		return &Expr{K: "portion", Text: g.pick([]string{"1/2", "25%", "3/7", "12.5%", "0%", "100%", "2.05%", "10.01%", "0.5%"})}
	case 5:
		return g.monetary("")
	case 6:
		return &Expr{K: "addsub", Add: g.r.Bool(), L: &Expr{K: "num", Text: g.pick(amtPool)}, R: &Expr{K: "addsub", Add: g.r.Bool(), L: &Expr{K: "num", Text: "4"}, R: &Expr{K: "num", Text: g.pick(amtPool)}}}
	case 7:
		if len(g.vars) > 0 {
			return &Expr{K: "var", Text: g.vars[g.r.Intn(len(g.vars))].Name}
		}
	}
	return &Expr{K: "num", Text: "1"}
}

func (g *G) source(asset string, depth int, allowUnbounded bool) *Source {
	k := g.r.Intn(10)
	if depth >= 3 {
		k = 0
	}
	switch {
	case k < 5:
		s := &Source{K: "account", Acc: g.accountExpr(), Ov: "none"}
		for try := 0; try < 8 && s.Acc.K == "acc" && g.used[s.Acc.Text] && !g.bad(); try++ {
			s.Acc = &Expr{K: "acc", Text: g.pick(accPool)}
		}
		if s.Acc.K == "acc" {
			g.used[s.Acc.Text] = true
		}
		switch g.r.Intn(8) {
		case 0:
			s.Ov, s.OvE = "specific", g.monetary(asset)
		case 1:
			if allowUnbounded || g.bad() {
				s.Ov = "unbounded"
			}
		}
		if s.Acc.K == "acc" && s.Acc.Text == "world" && s.Ov != "none" && !g.bad() {
			s.Ov = "none"
		}
		if s.Acc.K == "acc" && s.Acc.Text == "world" && !allowUnbounded && !g.bad() {
			s.Acc = g.nonWorldAccount()
		}
		return s
	case k < 7:
		return &Source{K: "maxed", Max: g.monetary(asset), Src: g.source(asset, depth+1, true)}
	default:
		n := 1 + g.r.Intn(3)
		s := &Source{K: "inorder"}
		for i := 0; i < n; i++ {
			s.Srcs = append(s.Srcs, g.source(asset, depth+1, allowUnbounded && i == n-1))
		}
		return s
	}
}

func (g *G) portions() []APortion {
	sp := splits[g.r.Intn(len(splits))]
	if g.bad() {
		sp = badSplits[g.r.Intn(len(badSplits))]
	}
	var ps []APortion
	for _, s := range sp {
		switch {
		case s == "remaining":
			ps = append(ps, APortion{K: "remaining"})
		case s[0] == '$':
			if vs := g.byType["portion"]; len(vs) > 0 {
				ps = append(ps, APortion{K: "var", Text: g.pick(vs)})
			} else if g.bad() {
				ps = append(ps, APortion{K: "var", Text: s[1:]})
			} else {
				ps = append(ps, APortion{K: "const", Text: "1/5"})
			}
		default:
			ps = append(ps, APortion{K: "const", Text: s})
		}
	}
	return ps
}

func (g *G) kod(asset string, depth int) Kod {
	if g.r.Chance(1, 5) {
		return Kod{Kept: true}
	}
	return Kod{D: g.dest(asset, depth+1)}
}
func (g *G) dest(asset string, depth int) *Dest {
	k := g.r.Intn(10)
	if depth >= 3 {
		k = 0
	}
	switch {
	case k < 5:
		return &Dest{K: "account", E: g.accountExpr()}
	case k < 8:
		d := &Dest{K: "inorder"}
		n := 1 + g.r.Intn(3)
		for i := 0; i < n; i++ {
			d.Maxes = append(d.Maxes, MaxDest{Amt: g.monetary(asset), K: g.kod(asset, depth)})
		}
		r := g.kod(asset, depth)
		d.Rem = &r
		return d
	default:
		d := &Dest{K: "allot"}
		for _, p := range g.portions() {
			d.Allot = append(d.Allot, AllotDest{P: p, K: g.kod(asset, depth)})
		}
		return d
	}
}

func (g *G) send() Stmt {
	asset := g.pick(assetPool)
	st := Stmt{K: "send"}
	g.used = map[string]bool{}
	all := g.r.Chance(1, 6)
	if all {
		st.All = g.assetExpr(asset)
	} else {
		st.Mon = g.monetary(asset)
	}
	if !all && g.r.Chance(1, 5) || all && g.bad() {
		v := &VASource{}
		for _, p := range g.portions() {
			v.Allot = append(v.Allot, AllotSrc{P: p, S: g.source(asset, 1, true)})
		}
		st.Src = v
	} else {
		// a send-all normally has bounded sources; one in three tries an unbounded account somewhere inside
		// (the compiler must refuse it wherever it sits)
		st.Src = &VASource{Src: g.source(asset, 0, !all || g.bad() || g.r.Chance(1, 3))}
	}
	st.Dest = g.dest(asset, 0)
	return st
}

func (g *G) stmt() Stmt {
	switch k := g.r.Intn(20); {
	case k < 13:
		return g.send()
	case k < 15:
		st := Stmt{K: "save", Acc: g.accountExpr()}
		if g.r.Chance(1, 3) {
			st.All = g.assetExpr("")
		} else {
			st.Mon = g.monetary("")
		}
		return st
	case k < 17:
		return Stmt{K: "txmeta", Key: g.pick(keyPool), E: g.anyExpr()}
	case k < 18:
		return Stmt{K: "accmeta", Key: g.pick(keyPool), E: g.anyExpr(), Acc: g.accountExpr()}
	case k < 19:
		return Stmt{K: "print", E: g.anyExpr()}
	}
	if g.r.Chance(1, 4) {
		return Stmt{K: "fail"}
	}
	return g.send()
}

// Case generates a script with variables, a store and variable bindings.
func (g *G) Case() Input {
	in := Input{Vars: map[string]string{}, Balances: map[string]map[string]string{}, Meta: map[string]map[string]string{}}
	sc := &Script{}
	nv := 0
	if g.r.Chance(1, 2) {
		nv = 1 + g.r.Intn(4)
	}
	names := []string{"acc", "dst", "mon", "p", "n", "s", "ass", "bal", "m2", "q"}
	for i := 0; i < nv; i++ {
		ty := g.pick([]string{"account", "account", "monetary", "monetary", "portion", "number", "string", "asset"})
		name := names[g.r.Intn(len(names))]
		if g.bad() {
			// keep a possible duplicate
		} else {
			dup := false
			for _, v := range g.vars {
				dup = dup || v.Name == name
			}
			if dup {
				continue
			}
		}
		vd := VarDecl{Ty: ty, Name: name}
		switch g.r.Intn(6) {
		case 0:
			vd.Orig, vd.Acc, vd.Key = "meta", &Expr{K: "acc", Text: g.pick(accPool[1:])}, g.pick(keyPool)
			if v := g.varOf("account"); v != nil {
				vd.Acc = v
			}
		case 1:
			if ty == "monetary" || g.bad() {
				vd.Orig, vd.Acc, vd.AssetE = "balance", &Expr{K: "acc", Text: g.pick(accPool[1:])}, g.assetExpr("")
			}
		}
		g.vars = append(g.vars, vd)
		g.byType[ty] = append(g.byType[ty], name)
		sc.Vars = append(sc.Vars, vd)
		if vd.Orig == "" {
			in.Vars[name] = g.varValue(ty)
		} else if vd.Orig == "meta" && !g.bad() {
			acc := vd.Acc.Text
			if vd.Acc.K == "var" {
				acc = in.Vars[vd.Acc.Text]
			}
			if in.Meta[acc] == nil {
				in.Meta[acc] = map[string]string{}
			}
			in.Meta[acc][vd.Key] = g.varValue(ty)
		}
	}
	if g.bad() && len(in.Vars) > 0 {
		for k := range in.Vars {
			delete(in.Vars, k)
			break
		}
	}
	if g.bad() {
		in.Vars["extra"] = "1"
	}
	ns := 1 + g.r.Intn(3)
	if g.r.Chance(1, 6) {
		ns += 2
	}
	for i := 0; i < ns; i++ {
		sc.Stmts = append(sc.Stmts, g.stmt())
	}
	in.Script = sc.Text2()
	for _, a := range accPool[1:] {
		for _, s := range assetPool {
			if g.r.Chance(2, 3) {
				if in.Balances[a] == nil {
					in.Balances[a] = map[string]string{}
				}
				in.Balances[a][s] = g.pick(balPool)
			}
		}
	}
	if g.r.Chance(1, 10) {
		in.ExtraMeta = map[string]string{g.pick(keyPool): g.pick([]string{"v", "v", "", " "})}
	}
	return in
}

func (g *G) varValue(ty string) string {
	if g.bad() {
		return g.pick([]string{"", "!!", "USD -5", "7/3", "a b", "-1", "null"})
	}
	switch ty {
	case "account":
		return g.pick(accPool)
	case "asset":
		return g.pick(assetPool)
	case "number":
		return g.pick(amtPool)
	case "monetary":
		return g.pick(assetPool) + " " + g.pick(amtPool)
	case "portion":
		return g.pick([]string{"1/2", "1/3", "25%", "0%", "100%", "7/13", "2.05%", "10.01%", "0.05%"})
	}
	return g.pick([]string{"hello", "", "x y"})
}

// SimpleSend builds a deterministic family of small sends (used for exhaustive enumeration of source shapes).
func SimpleSend(amount, source, dest string) string {
	return fmt.Sprintf("send %s (\n  source = %s\n  destination = %s\n)\n", amount, source, dest)
}
