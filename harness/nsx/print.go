package nsx

import "strings"

// Text renders an AST back to Numscript source (used by the generator; the real parser then re-reads it).
func (e *Expr) Text2() string {
	switch e.K {
	case "acc":
		return "@" + e.Text
	case "asset", "num", "portion":
		return e.Text
	case "str":
		return "\"" + e.Text + "\""
	case "mon":
		return "[" + e.Asset.Text2() + " " + e.Text + "]"
	case "var":
		return "$" + e.Text
	case "addsub":
		op := " - "
		if e.Add {
			op = " + "
		}
		return e.L.Text2() + op + e.R.Text2()
	}
	return "?"
}
func (p APortion) Text2() string {
	switch p.K {
	case "const":
		return p.Text
	case "var":
		return "$" + p.Text
	}
	return "remaining"
}
func ind(n int) string { return strings.Repeat("  ", n) }
func (s *Source) Text2(d int) string {
	switch s.K {
	case "account":
		t := s.Acc.Text2()
		if s.Ov == "specific" {
			t += " allowing overdraft up to " + s.OvE.Text2()
		} else if s.Ov == "unbounded" {
			t += " allowing unbounded overdraft"
		}
		return t
	case "maxed":
		return "max " + s.Max.Text2() + " from " + s.Src.Text2(d)
	}
	var b strings.Builder
	b.WriteString("{\n")
	for _, x := range s.Srcs {
		b.WriteString(ind(d+1) + x.Text2(d+1) + "\n")
	}
	b.WriteString(ind(d) + "}")
	return b.String()
}
func (k Kod) Text2(d int) string {
	if k.Kept {
		return "kept"
	}
	return "to " + k.D.Text2(d)
}
func (x *Dest) Text2(d int) string {
	switch x.K {
	case "account":
		return x.E.Text2()
	case "inorder":
		var b strings.Builder
		b.WriteString("{\n")
		for _, m := range x.Maxes {
			b.WriteString(ind(d+1) + "max " + m.Amt.Text2() + " " + m.K.Text2(d+1) + "\n")
		}
		b.WriteString(ind(d+1) + "remaining " + x.Rem.Text2(d+1) + "\n")
		b.WriteString(ind(d) + "}")
		return b.String()
	}
	var b strings.Builder
	b.WriteString("{\n")
	for _, a := range x.Allot {
		b.WriteString(ind(d+1) + a.P.Text2() + " " + a.K.Text2(d+1) + "\n")
	}
	b.WriteString(ind(d) + "}")
	return b.String()
}
func amountText(mon, all *Expr) string {
	if all != nil {
		return "[" + all.Text2() + " *]"
	}
	return mon.Text2()
}
func (s Stmt) Text2() string {
	switch s.K {
	case "print":
		return "print " + s.E.Text2()
	case "fail":
		return "fail"
	case "txmeta":
		return "set_tx_meta(\"" + s.Key + "\", " + s.E.Text2() + ")"
	case "accmeta":
		return "set_account_meta(" + s.Acc.Text2() + ", \"" + s.Key + "\", " + s.E.Text2() + ")"
	case "save":
		return "save " + amountText(s.Mon, s.All) + " from " + s.Acc.Text2()
	}
	var src string
	if s.Src.Src != nil {
		src = s.Src.Src.Text2(1)
	} else {
		var b strings.Builder
		b.WriteString("{\n")
		for _, a := range s.Src.Allot {
			b.WriteString(ind(2) + a.P.Text2() + " from " + a.S.Text2(2) + "\n")
		}
		b.WriteString(ind(1) + "}")
		src = b.String()
	}
	return "send " + amountText(s.Mon, s.All) + " (\n  source = " + src + "\n  destination = " + s.Dest.Text2(1) + "\n)"
}
func (s *Script) Text2() string {
	var b strings.Builder
	if len(s.Vars) > 0 {
		b.WriteString("vars {\n")
		for _, v := range s.Vars {
			b.WriteString("  " + v.Ty + " $" + v.Name)
			if v.Orig == "meta" {
				b.WriteString(" = meta(" + v.Acc.Text2() + ", \"" + v.Key + "\")")
			} else if v.Orig == "balance" {
				b.WriteString(" = balance(" + v.Acc.Text2() + ", " + v.AssetE.Text2() + ")")
			}
			b.WriteString("\n")
		}
		b.WriteString("}\n")
	}
	for i, st := range s.Stmts {
		if i > 0 {
			b.WriteString("\n")
		}
		b.WriteString(st.Text2())
	}
	b.WriteString("\n")
	return b.String()
}
