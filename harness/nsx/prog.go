package nsx

import (
	"encoding/binary"
	"fmt"
	"math/big"
	"sort"
	"strings"

	"github.com/formancehq/ledger/internal/machine"
	"github.com/formancehq/ledger/internal/machine/vm/program"
)

var opNames = map[byte]string{}

func init() {
	for b := byte(2); b < 40; b++ {
		n := program.OpcodeName(b)
		if strings.HasPrefix(n, "OP_") {
			opNames[b] = n
		}
	}
}

// Code decodes the byte string into the model's instruction list (APUSH carries its 2-byte address).
func Code(ins []byte) string {
	var xs []string
	for i := 0; i < len(ins); i++ {
		if ins[i] == program.OP_APUSH {
			if i+2 >= len(ins) {
				xs = append(xs, "IBad")
				break
			}
			xs = append(xs, fmt.Sprintf("IPush %d", binary.LittleEndian.Uint16(ins[i+1:i+3])))
			i += 2
			continue
		}
		if n, ok := opNames[ins[i]]; ok {
			xs = append(xs, "IOp "+n)
		} else {
			xs = append(xs, "IBad")
		}
	}
	return "[" + strings.Join(xs, "; ") + "]"
}

func (n *Names) Value(v machine.Value) string {
	switch v := v.(type) {
	case machine.AccountAddress:
		return "(VAccount " + n.A(string(v)) + ")"
	case machine.Asset:
		return "(VAsset " + n.S(string(v)) + ")"
	case *machine.MonetaryInt:
		if v == nil {
			return "(VNumber 0%Z (* nil *))"
		}
		return "(VNumber " + Z((*big.Int)(v)) + ")"
	case machine.String:
		return "(VString " + n.St(string(v)) + ")"
	case machine.Monetary:
		amt := big.NewInt(0)
		if v.Amount != nil {
			amt = (*big.Int)(v.Amount)
		}
		return "(VMonetary " + n.S(string(v.Asset)) + " " + Z(amt) + ")"
	case machine.Portion:
		if v.Remaining {
			return "(VPortion PRemaining)"
		}
		return "(VPortion (PSpecific " + Ratio(v.Specific) + "))"
	case machine.Allotment:
		var xs []string
		for i := range v {
			xs = append(xs, Ratio(&v[i]))
		}
		return "(VAllotment [" + strings.Join(xs, "; ") + "])"
	case machine.Funding:
		var xs []string
		for _, p := range v.Parts {
			xs = append(xs, "("+n.A(string(p.Account))+", "+Z((*big.Int)(p.Amount))+")")
		}
		return "(VFunding {| f_asset := " + n.S(string(v.Asset)) + "; f_parts := [" + strings.Join(xs, "; ") + "] |})"
	}
	return fmt.Sprintf("(VString 999999%%N (* unprintable %T *))", v)
}

func (n *Names) Resource(r program.Resource) string {
	switch r := r.(type) {
	case program.Constant:
		return "(RConst " + n.Value(r.Inner) + ")"
	case program.Variable:
		return "(RVar " + VType(r.Typ.String()) + " " + n.V(r.Name) + ")"
	case program.VariableAccountMetadata:
		return fmt.Sprintf("(RVarMeta %s %s %d %s)", VType(r.Typ.String()), n.V(r.Name), r.Account, n.St(r.Key))
	case program.VariableAccountBalance:
		return fmt.Sprintf("(RVarBalance %s %d %d)", n.V(r.Name), r.Account, r.Asset)
	case program.Monetary:
		return fmt.Sprintf("(RMonetary %d %s)", r.Asset, Z((*big.Int)(r.Amount)))
	}
	return "(RConst (VString 999998%N))"
}

// Program renders the compiled program canonically: sources ascending, needed balances sorted by key and value.
func (n *Names) Program(p *program.Program) string {
	var rs, ss, nb []string
	for _, r := range p.Resources {
		rs = append(rs, n.Resource(r))
	}
	src := append([]machine.Address{}, p.Sources...)
	sort.Slice(src, func(i, j int) bool { return src[i] < src[j] })
	for _, a := range src {
		ss = append(ss, fmt.Sprint(uint16(a)))
	}
	var keys []int
	for k := range p.NeededBalances {
		keys = append(keys, int(k))
	}
	sort.Ints(keys)
	for _, k := range keys {
		var as []int
		for a := range p.NeededBalances[machine.Address(k)] {
			as = append(as, int(a))
		}
		sort.Ints(as)
		var xs []string
		for _, a := range as {
			xs = append(xs, fmt.Sprint(a))
		}
		nb = append(nb, fmt.Sprintf("(%d, [%s])", k, strings.Join(xs, "; ")))
	}
	return "{| p_code := " + Code(p.Instructions) + "; p_res := [" + strings.Join(rs, "; ") + "]; p_sources := [" +
		strings.Join(ss, "; ") + "]; p_needed := [" + strings.Join(nb, "; ") + "]; p_vars := [] |}"
}
