// Package vx holds what every observation binary shares: the seeded PRNG, the case/shard writer that
// produces cases_NNN.v for coqc, and the summary the check driver turns into verdict and evidence.
package vx

import (
	"encoding/json"
	"flag"
	"fmt"
	"os"
	"path/filepath"
	"sort"
	"strings"
)

// Rng is splitmix64: every random choice of a run derives from one state, so a disagreement replays exactly.
type Rng struct{ s uint64 }

func NewRng(seed uint64) *Rng {
	// scramble the seed first: the state advances by a constant, so un-scrambled consecutive seeds
	// would give the same stream shifted by one
	z := seed + 0x632BE59BD9B4E019
	z = (z ^ (z >> 30)) * 0xBF58476D1CE4E5B9
	z = (z ^ (z >> 27)) * 0x94D049BB133111EB
	return &Rng{s: z ^ (z >> 31)}
}
func (r *Rng) U64() uint64 {
	r.s += 0x9E3779B97F4A7C15
	z := r.s
	z = (z ^ (z >> 30)) * 0xBF58476D1CE4E5B9
	z = (z ^ (z >> 27)) * 0x94D049BB133111EB
	return z ^ (z >> 31)
}
func (r *Rng) Intn(n int) int {
	if n <= 0 {
		return 0
	}
	return int(r.U64() % uint64(n))
}
func (r *Rng) Bool() bool          { return r.U64()&1 == 1 }
func (r *Rng) Chance(p, q int) bool { return r.Intn(q) < p }
func (r *Rng) Fork() *Rng           { return NewRng(r.U64()) }

// Failure is an oracle failure: the property, stated directly on observables, does not hold on this input.
type Failure struct {
	Signature string `json:"signature"` // specific: the observable that fails and the (shrunk) input class
	Input     any    `json:"input"`
	Detail    string `json:"detail"`
	Count     int    `json:"count"`
	Size      int    `json:"size"`
	Property  string `json:"property"` // which property's oracle failed (suites may serve several)
}

type Summary struct {
	Property           string         `json:"property"`
	Suite              string         `json:"suite"`
	Seed               uint64         `json:"seed"`
	Tier               string         `json:"tier"`
	Evaluations        int            `json:"evaluations"`
	DistinctNontrivial int            `json:"distinct_nontrivial"`
	Rule               string         `json:"rule"`
	Samples            []any          `json:"samples"`
	Distribution       map[string]int `json:"input_distribution"`
	Failures           []Failure      `json:"oracle_failures"`
	Shards             []string       `json:"shards"`
	Exhaustive         bool           `json:"exhaustive"`
	Notes              []string       `json:"notes,omitempty"`
	Extra              map[string]any `json:"extra,omitempty"`
}

// Run is the common command line and output directory handling.
type Run struct {
	Seed   uint64
	Tier   string
	Out    string
	Replay string
	Corpus string
	Sum    Summary
	nontr  map[string]bool
	shard  []string
	inputs []any
	header string
	ctype  string
	per    int
}

func Start(property, suite string) *Run {
	seed := flag.Uint64("seed", 1, "seed")
	tier := flag.String("tier", "quick", "quick|thorough")
	out := flag.String("out", "", "output directory")
	replay := flag.String("replay", "", "replay file")
	corpus := flag.String("corpus", "", "corpus directory (JSON inputs run first)")
	flag.Parse()
	if *out == "" {
		fmt.Fprintln(os.Stderr, "missing -out")
		os.Exit(2)
	}
	_ = os.MkdirAll(*out, 0o755)
	old, _ := filepath.Glob(filepath.Join(*out, "cases_*.v"))
	for _, f := range old {
		_ = os.Remove(f)
	}
	r := &Run{Seed: *seed, Tier: *tier, Out: *out, Replay: *replay, Corpus: *corpus, nontr: map[string]bool{}}
	r.Sum = Summary{Property: property, Suite: suite, Seed: *seed, Tier: *tier, Distribution: map[string]int{}}
	return r
}

func (r *Run) Thorough() bool { return r.Tier == "thorough" }

// Cases configures the Coq side: header (Require lines), the Coq type of one case, cases per shard.
func (r *Run) Cases(header, ctype string, perShard int) {
	r.header, r.ctype, r.per = header, ctype, perShard
}

// Case records one executed input: its Coq rendering (input, observation), its JSON form for replay,
// and a canonical key plus whether it is non-trivial by the suite's rule.
func (r *Run) Case(coq string, input any, key string, nontrivial bool) {
	r.Sum.Evaluations++
	if nontrivial {
		r.nontr[key] = true
	}
	if len(r.Sum.Samples) < 3 {
		r.Sum.Samples = append(r.Sum.Samples, input)
	}
	if coq != "" {
		r.shard = append(r.shard, coq)
		r.inputs = append(r.inputs, input)
		if len(r.shard) >= r.per {
			r.flush()
		}
	}
}

func (r *Run) Count(k string)               { r.Sum.Distribution[k]++ }
func (r *Run) Fail(sig string, in any, d string) { r.FailSized(sig, in, d, 0) }

// FailSized keeps, per signature, the smallest failing input seen (a cheap form of shrinking) and a count.
func (r *Run) FailSized(sig string, in any, d string, size int) {
	r.FailP(r.Sum.Property, sig, in, d, size)
}

// FailP is FailSized for a suite that serves several properties.
func (r *Run) FailP(prop, sig string, in any, d string, size int) {
	for i := range r.Sum.Failures {
		f := &r.Sum.Failures[i]
		if f.Signature == sig && f.Property == prop {
			f.Count++
			if size < f.Size {
				f.Input, f.Detail, f.Size = in, d, size
			}
			return
		}
	}
	r.Sum.Failures = append(r.Sum.Failures, Failure{sig, in, d, 1, size, prop})
}

func (r *Run) flush() {
	if len(r.shard) == 0 {
		return
	}
	n := len(r.Sum.Shards)
	name := fmt.Sprintf("cases_%03d", n)
	var b strings.Builder
	b.WriteString(r.header)
	b.WriteString("\nDefinition cases : list (" + r.ctype + ") := [\n")
	b.WriteString(strings.Join(r.shard, ";\n"))
	b.WriteString("\n].\n")
	b.WriteString("Definition bad := Eval vm_compute in bad_cases check_case 0 cases.\nPrint bad.\n")
	_ = os.WriteFile(filepath.Join(r.Out, name+".v"), []byte(b.String()), 0o644)
	js, _ := json.Marshal(r.inputs)
	_ = os.WriteFile(filepath.Join(r.Out, name+".inputs.json"), js, 0o644)
	r.Sum.Shards = append(r.Sum.Shards, name)
	r.shard, r.inputs = nil, nil
}

func (r *Run) Finish() {
	r.flush()
	r.Sum.DistinctNontrivial = len(r.nontr)
	if r.Sum.Failures == nil {
		r.Sum.Failures = []Failure{}
	}
	js, _ := json.MarshalIndent(r.Sum, "", " ")
	_ = os.WriteFile(filepath.Join(r.Out, "summary.json"), js, 0o644)
}

// ---- Coq term printing ------------------------------------------------------------------------------

func CoqBool(b bool) string {
	if b {
		return "true"
	}
	return "false"
}
func CoqList(xs []string) string { return "[" + strings.Join(xs, "; ") + "]" }
func CoqNat(n int) string        { return fmt.Sprintf("%d", n) }
func CoqN(n uint64) string       { return fmt.Sprintf("%d%%N", n) }
func CoqZ(s string) string {
	if strings.HasPrefix(s, "-") {
		return "(" + s + ")%Z"
	}
	return s + "%Z"
}
func CoqOpt(s string, ok bool) string {
	if ok {
		return "(Some " + s + ")"
	}
	return "None"
}

// CoqString renders a Go string as a Coq string literal (bytes ≥ 0x80 and controls via String (ascii_of_nat n)).
func CoqString(s string) string {
	plain := true
	for i := 0; i < len(s); i++ {
		if s[i] < 0x20 || s[i] >= 0x7f {
			plain = false
			break
		}
	}
	if plain {
		return "\"" + strings.ReplaceAll(s, "\"", "\"\"") + "\"%string"
	}
	var b strings.Builder
	b.WriteString("(bytes_to_string [")
	for i := 0; i < len(s); i++ {
		if i > 0 {
			b.WriteString(";")
		}
		fmt.Fprintf(&b, "%d", s[i])
	}
	b.WriteString("])")
	return b.String()
}

// Intern maps names to small numbers by first occurrence.
type Intern struct {
	m map[string]uint64
	n uint64
}

func NewIntern(reserved ...string) *Intern {
	it := &Intern{m: map[string]uint64{}}
	for _, s := range reserved {
		it.Get(s)
	}
	return it
}
func (it *Intern) Get(s string) uint64 {
	if v, ok := it.m[s]; ok {
		return v
	}
	it.m[s] = it.n
	it.n++
	return it.m[s]
}

func SortedKeys[V any](m map[string]V) []string {
	ks := make([]string, 0, len(m))
	for k := range m {
		ks = append(ks, k)
	}
	sort.Strings(ks)
	return ks
}

// Inputs returns the JSON documents to run before generation: the replay file alone when -replay is given
// (second result true), otherwise every *.json of the corpus directory in name order. A replay file may be
// the input itself or a document with an "input" member (as written by the check driver).
func (r *Run) Inputs() (docs [][]byte, replayOnly bool) {
	unwrap := func(b []byte) []byte {
		var w struct {
			Input json.RawMessage `json:"input"`
		}
		if json.Unmarshal(b, &w) == nil && len(w.Input) > 0 {
			return w.Input
		}
		return b
	}
	if r.Replay != "" {
		b, err := os.ReadFile(r.Replay)
		if err != nil {
			fmt.Fprintln(os.Stderr, "cannot read replay:", err)
			os.Exit(2)
		}
		return [][]byte{unwrap(b)}, true
	}
	if r.Corpus == "" {
		return nil, false
	}
	files, _ := filepath.Glob(filepath.Join(r.Corpus, "*.json"))
	sort.Strings(files)
	for _, f := range files {
		if b, err := os.ReadFile(f); err == nil {
			docs = append(docs, unwrap(b))
		}
	}
	return docs, false
}
