#!/bin/sh
# tools/applyfix.sh <name>  : apply /verif/fixes/<name>.diff to /repo, build, test touched packages, commit with <name>.msg
set -e
name="$1"
cd /repo
git apply --check "/verif/fixes/$name.diff"
git apply "/verif/fixes/$name.diff"
. /verif/tools/goenv.sh
go build ./... 
(cd libs && go build ./...)
pk=$(git status --short | awk '{print $2}' | grep '\.go$' | xargs -n1 dirname | sort -u)
for d in $pk; do
  case "$d" in
    libs/*) (cd libs && go test -mod=mod -vet=off -count=1 "./${d#libs/}/" 2>&1 | tail -2) ;;
    *) go test -mod=mod -vet=off -count=1 "./$d/" 2>&1 | tail -2 ;;
  esac
done
git add -A
git commit -q -F "/verif/fixes/$name.msg"
git log --oneline | head -1
