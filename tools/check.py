#!/usr/bin/env python3
"""Check driver: decides one property (DESIGN.md section 2.3).

  tools/check.py Cxx [--tier quick|thorough] [--replay FILE]

env: VERIF_SEED (int), VERIF_TIER, VERIF_REPO (default /repo: which working tree the harness is built against).

Steps: translators -> Coq cone (full coqc via make) -> grep gate -> Print Assumptions -> Go harness built from the
working tree with -tags verif -> implementation observations + per-property oracle -> the same cases evaluated
by the Coq model (vm_compute inside coqc) -> verdict -> evidence file.
"""
import fcntl
import glob
import hashlib
import json
import os
import re
import shutil
import subprocess
import sys
import time

ROOT = os.path.dirname(os.path.dirname(os.path.abspath(__file__)))
sys.path.insert(0, os.path.join(ROOT, "tools"))
from props import PROPS, COMMON_TRUSTED  # noqa: E402

COQ = os.path.join(ROOT, "coq")
BUILD = os.path.join(ROOT, "build")
REPO = os.environ.get("VERIF_REPO", "/repo")
GOENV = dict(os.environ, GOFLAGS="-mod=mod", GOPROXY="off", GOSUMDB="off", GOTOOLCHAIN="local",
             CARGO_NET_OFFLINE="true", PIP_NO_INDEX="1")
ALLOWED_AXIOMS = set()  # the development uses none; anything Print Assumptions lists is a failure of the check


def sh(cmd, cwd=None, env=None, timeout=3600, stdin=None):
    try:
        p = subprocess.run(cmd, cwd=cwd, env=env, timeout=timeout, stdout=subprocess.PIPE, stderr=subprocess.STDOUT,
                           text=True, shell=isinstance(cmd, str), input=stdin)
        return p.returncode, p.stdout
    except subprocess.TimeoutExpired as e:
        out = e.stdout if isinstance(e.stdout, str) else (e.stdout or b"").decode("utf8", "replace")
        return 124, out + "\n[timeout after %ss]" % timeout


class Lock:
    def __init__(self, name):
        os.makedirs(BUILD, exist_ok=True)
        self.path = os.path.join(BUILD, name + ".lock")

    def __enter__(self):
        self.f = open(self.path, "w")
        fcntl.flock(self.f, fcntl.LOCK_EX)

    def __exit__(self, *a):
        fcntl.flock(self.f, fcntl.LOCK_UN)
        self.f.close()


# ---------------------------------------------------------------------------------------------------------
# Coq side

FORBIDDEN = [r"\bAdmitted\b", r"\badmit\b", r"\bAxiom\b", r"\bAxioms\b", r"\bParameter\b", r"\bParameters\b",
             r"\bConjecture\b", r"Unset\s+Guard", r"bypass_check", r"type-in-type", r"impredicative-set",
             r"Admit\s+Obligations", r"Unset\s+Positivity", r"Unset\s+Universe", r"\bnative_compute\b",
             r"Program\s+Fixpoint", r"\bgive_up\b"]


def strip_comments(s):
    out, depth, i = [], 0, 0
    while i < len(s):
        if s.startswith("(*", i):
            depth += 1
            i += 2
        elif s.startswith("*)", i) and depth:
            depth -= 1
            i += 2
        else:
            if not depth:
                out.append(s[i])
            i += 1
    return "".join(out)


def grep_gate():
    """No Admitted/admit/Axiom/Parameter/... anywhere; Variable/Hypothesis/Context only inside a Section."""
    problems = []
    files = sorted(glob.glob(os.path.join(COQ, "theories", "**", "*.v"), recursive=True))
    files.append(os.path.join(COQ, "_CoqProject"))
    for f in files:
        txt = open(f).read()
        if f.endswith(".v"):
            txt = strip_comments(txt)
            # string literals may legitimately contain anything
            txt_ns = re.sub(r'"(?:[^"]|"")*"', '""', txt)
        else:
            txt_ns = txt
        for pat in FORBIDDEN:
            m = re.search(pat, txt_ns)
            if m:
                problems.append("%s: forbidden token %r" % (os.path.relpath(f, ROOT), m.group(0)))
        if f.endswith(".v"):
            depth = 0
            for sent in re.split(r"\.\s", txt_ns):
                s = sent.strip()
                if re.match(r"Section\s+\w+", s):
                    depth += 1
                elif re.match(r"End\s+\w+", s) and depth:
                    depth -= 1
                elif re.match(r"(Variables?|Hypothesis|Hypotheses|Context)\b", s) and depth == 0:
                    problems.append("%s: %s outside a Section" % (os.path.relpath(f, ROOT), s.split()[0]))
    return problems


COQPROJECT_HEAD = ("-Q theories FL\n"
                   "-arg -w -arg -notation-overridden,-deprecated-hint-without-locality,-deprecated-instance-without-locality\n")


def coq_makefile():
    """_CoqProject lists every theories/**/*.v (generated files included); Makefile is regenerated when it changes."""
    mk = os.path.join(COQ, "Makefile")
    cp = os.path.join(COQ, "_CoqProject")
    files = sorted(os.path.relpath(f, COQ) for f in glob.glob(os.path.join(COQ, "theories", "**", "*.v"), recursive=True))
    want = COQPROJECT_HEAD + "\n".join(files) + "\n"
    if not os.path.exists(cp) or open(cp).read() != want:
        open(cp, "w").write(want)
    if not os.path.exists(mk) or os.path.getmtime(mk) < os.path.getmtime(cp):
        sh(["coq_makefile", "-f", "_CoqProject", "-o", "Makefile"], cwd=COQ)


def coq_build(targets, force=()):
    """Full .vo build of the targets (and what they depend on). Returns (ok, log)."""
    with Lock("coq"):
        coq_makefile()
        for t in force:
            for ext in (".vo", ".vok", ".vos", ".glob"):
                p = os.path.join(COQ, t[:-3] + ext)
                if os.path.exists(p):
                    os.remove(p)
        rc, out = sh(["make", "-j16"] + list(targets), cwd=COQ, timeout=3000)
    return rc == 0, out


def cone_files(vfiles):
    """.v files of this development the given files depend on (transitively), via coqdep."""
    rc, out = sh(["coqdep", "-f", "_CoqProject"], cwd=COQ)
    deps = {}
    for line in out.splitlines():
        if ":" not in line:
            continue
        lhs, rhs = line.split(":", 1)
        tgt = [t for t in lhs.split() if t.endswith(".vo")]
        if not tgt:
            continue
        deps[tgt[0][:-1]] = [d[:-1] for d in rhs.split() if d.endswith(".vo")]
    seen, todo = set(), list(vfiles)
    while todo:
        v = todo.pop()
        if v in seen:
            continue
        seen.add(v)
        todo.extend(deps.get(v, []))
    return sorted(seen)


def theorem_names(vfile):
    txt = strip_comments(open(os.path.join(COQ, vfile)).read())
    return re.findall(r"^\s*(?:Theorem|Corollary)\s+(\w+)", txt, re.M), len(re.findall(r"^\s*Example\s+\w+", txt, re.M))


def print_assumptions(pid, prop_files, rundir):
    """Re-check on every run what each property theorem depends on."""
    lines, names = [], []
    for vf in prop_files:
        mod = "FL." + vf[len("theories/"):-2].replace("/", ".")
        lines.append("Require %s." % mod)
        th, _ = theorem_names(vf)
        for t in th:
            names.append(t)
            lines.append('Goal True. idtac "@@%s". exact I. Qed.' % t)
            lines.append("Print Assumptions %s.%s." % (mod, t))
    src = os.path.join(rundir, "assumptions_%s.v" % pid)
    open(src, "w").write("\n".join(lines) + "\n")
    rc, out = sh(["coqc", "-Q", os.path.join(COQ, "theories"), "FL", src], cwd=rundir, timeout=600)
    res, cur = {}, None
    for line in out.splitlines():
        if line.startswith("@@"):
            cur = line[2:].strip()
            res[cur] = []
        elif cur is not None and line.strip():
            res[cur].append(line.strip())
    return rc == 0, names, res, out


# ---------------------------------------------------------------------------------------------------------
# Go side

def gomod():
    """An alternate go.mod whose replace directives point at the working tree under test."""
    key = hashlib.sha1(REPO.encode()).hexdigest()[:10]
    d = os.path.join(BUILD, "gomod", key)
    os.makedirs(d, exist_ok=True)
    tmpl = open(os.path.join(ROOT, "harness", "go.mod.tmpl")).read().replace("@REPO@", REPO)
    mod = os.path.join(d, "go.mod")
    if not os.path.exists(mod) or "replace github.com/formancehq/ledger => %s\n" % REPO not in open(mod).read():
        open(mod, "w").write(tmpl)
    shutil.copyfile(os.path.join(REPO, "go.sum"), os.path.join(d, "go.sum"))
    root_mod = os.path.join(ROOT, "harness", "go.mod")
    if not os.path.exists(root_mod):
        open(root_mod, "w").write(open(os.path.join(ROOT, "harness", "go.mod.tmpl")).read().replace("@REPO@", "/repo"))
    return mod, key


def go_build(binary):
    mod, key = gomod()
    out_bin = os.path.join(BUILD, "bin", key, binary)
    os.makedirs(os.path.dirname(out_bin), exist_ok=True)
    with Lock("go-" + key):
        rc, out = sh(["go", "build", "-tags", "verif", "-modfile=" + mod, "-o", out_bin, "./cmd/" + binary],
                     cwd=os.path.join(ROOT, "harness"), env=GOENV, timeout=1500)
    return rc == 0, out, out_bin


def run_cases(rundir, shards):
    """Evaluate the shards with the Coq model; returns (list of (shard, index) disagreements, errors)."""
    procs = []
    bad, errors = [], []
    pending = list(shards)
    running = []
    while pending or running:
        while pending and len(running) < 16:
            s = pending.pop(0)
            p = subprocess.Popen(["timeout", "900", "coqc", "-Q", os.path.join(COQ, "theories"), "FL", s + ".v"],
                                 cwd=rundir, stdout=subprocess.PIPE, stderr=subprocess.STDOUT, text=True)
            running.append((s, p))
        s, p = running.pop(0)
        out, _ = p.communicate()
        m = re.search(r"bad\s*=\s*\[(.*?)\]\s*:\s*list nat", out, re.S)
        if p.returncode != 0 or not m:
            errors.append((s, out[-2000:]))
            continue
        idx = [int(x) for x in re.findall(r"\d+", m.group(1))]
        for i in idx:
            bad.append((s, i))
    for s in shards:
        for ext in (".vo", ".vok", ".vos", ".glob"):
            try:
                os.remove(os.path.join(rundir, s + ext))
            except OSError:
                pass
        try:
            os.remove(os.path.join(rundir, "." + s + ".aux"))
        except OSError:
            pass
    return bad, errors


def run_suite(pid, suite, tier, seed, rundir, replay=None, cone_ok=True):
    """Build and run one observation binary; evaluate its cases with the model."""
    res = dict(name=suite["bin"], build_ok=False, ran=False, summary=None, mismatches=[], case_errors=[],
               log="")
    ok, out, binp = go_build(suite["bin"])
    res["build_log"] = out[-4000:]
    if not ok:
        return res
    res["build_ok"] = True
    sdir = os.path.join(rundir, suite["bin"])
    os.makedirs(sdir, exist_ok=True)
    for f in glob.glob(os.path.join(sdir, "*")):
        if os.path.isfile(f):
            os.remove(f)
    cmd = [binp, "-seed", str(seed), "-tier", tier, "-out", sdir] + suite.get("args", [])
    corpus = os.path.join(ROOT, "corpus", suite.get("corpus", pid))
    if os.path.isdir(corpus):
        cmd += ["-corpus", corpus]
    if replay:
        cmd += ["-replay", replay]
    env = dict(GOENV, VERIF_REPO=REPO, VERIF_ROOT=ROOT)
    rc, out = sh(cmd, cwd=ROOT, env=env, timeout=suite.get("timeout", 3000))
    res["log"] = out[-4000:]
    sp = os.path.join(sdir, "summary.json")
    if rc != 0 or not os.path.exists(sp):
        res["run_rc"] = rc
        return res
    res["ran"] = True
    res["summary"] = json.load(open(sp))
    res["summary"]["shards"] = res["summary"].get("shards") or []
    if cone_ok and res["summary"].get("shards"):
        # the modules the case files import (the model and its check_case) are rebuilt from the current sources
        need = set()
        try:
            head = open(os.path.join(sdir, res["summary"]["shards"][0] + ".v")).read(4000)
            for m in re.finditer(r"From FL Require (?:Import|Export) ([\w. ]+?)\.\s", head):
                for mod in m.group(1).split():
                    need.add("theories/" + mod.replace(".", "/") + ".vo")
            for m in re.finditer(r"Require (?:Import|Export) ((?:FL\.[\w.]+\s*)+)\.\s", head):
                for mod in m.group(1).split():
                    need.add("theories/" + mod[3:].replace(".", "/") + ".vo")
        except OSError:
            pass
        if need:
            okc, outc = coq_build(sorted(need))
            if not okc:
                res["case_errors"] = [("model build", outc[-2000:])]
                return res
        bad, errs = run_cases(sdir, res["summary"]["shards"])
        for (s, i) in bad:
            inputs = json.load(open(os.path.join(sdir, s + ".inputs.json")))
            res["mismatches"].append(dict(shard=s, index=i, input=inputs[i] if i < len(inputs) else None))
        res["case_errors"] = errs
    return res


# ---------------------------------------------------------------------------------------------------------

def load_known(pid):
    p = os.path.join(ROOT, "known_findings.json")
    if not os.path.exists(p):
        return []
    return [k for k in json.load(open(p)) if k.get("property") == pid]


def coqmake_cli(targets):
    ok, out = coq_build(targets)
    print(out[-6000:])
    sys.exit(0 if ok else 1)


def sig_matches(entry, sig):
    if "signature" in entry and entry["signature"] == sig:
        return True
    if "signature_re" in entry and re.fullmatch(entry["signature_re"], sig):
        return True
    return False


def write_replay(pid, name, doc):
    d = os.path.join(BUILD, "replays")
    os.makedirs(d, exist_ok=True)
    safe = re.sub(r"[^A-Za-z0-9_.-]+", "_", name)[:80]
    p = os.path.join(d, "%s-%s.json" % (pid, safe))
    json.dump(doc, open(p, "w"), indent=1)
    return p


def main():
    args = sys.argv[1:]
    if args and args[0] == "coqmake":
        coqmake_cli(args[1:])
    if not args or args[0] not in PROPS:
        print("usage: check.py <%s> [--tier quick|thorough] [--replay FILE]" % "|".join(sorted(PROPS)))
        sys.exit(2)
    pid = args[0]
    tier = os.environ.get("VERIF_TIER", "quick")
    replay = None
    i = 1
    while i < len(args):
        if args[i] == "--tier":
            tier = args[i + 1]
            i += 2
        elif args[i] == "--replay":
            replay = os.path.abspath(args[i + 1])
            i += 2
        else:
            i += 1
    seed = int(os.environ.get("VERIF_SEED", "1") or "1")
    cfg = PROPS[pid]
    t0 = time.time()
    # one run directory per invocation: concurrent checks of the same property (another session, a scratch tree)
    # must never share shard files
    rundir = os.path.join(BUILD, "run", "%s-%d" % (pid, os.getpid()))
    os.makedirs(rundir, exist_ok=True)
    broken = []       # (kind, name, detail): proof obligations / correspondences / translators that no longer check
    check_fault = []  # failures of the check itself (forbidden tokens, unexpected axioms)
    cmds = []

    # 1. translators (regenerate model files from the working tree)
    for tr in cfg.get("translators", []):
        rc, out = sh(tr["cmd"].replace("@REPO@", REPO).replace("@ROOT@", ROOT), cwd=ROOT, env=GOENV, timeout=900)
        cmds.append(tr["cmd"])
        if rc != 0:
            broken.append(("translator", tr["name"], out[-1500:]))

    # 2. Coq cone
    targets = [f[:-2] + ".vo" for f in cfg["coq"]]
    force = targets if tier == "thorough" else ()
    ok, out = coq_build(targets, force)
    cmds.append("make -C coq -j16 " + " ".join(targets))
    cone_ok = ok
    if not ok:
        m = re.search(r'File "([^"]+)", line (\d+)', out)
        broken.append(("proof", m.group(1) + ":" + m.group(2) if m else "coq build", out[-1500:]))
    for p in grep_gate():
        check_fault.append(p)
    cone = cone_files([f for f in cfg["coq"]])
    n_qed = 0
    for v in cone:
        try:
            n_qed += len(re.findall(r"\b(Qed|Defined)\.", strip_comments(open(os.path.join(COQ, v)).read())))
        except OSError:
            pass
    assumptions = {}
    n_thm = 0
    if cone_ok:
        ok2, names, assumptions, aout = print_assumptions(pid, cfg["coq"], rundir)
        cmds.append("coqc assumptions_%s.v (Print Assumptions of every property theorem)" % pid)
        n_thm = len(names)
        if not ok2:
            broken.append(("proof", "Print Assumptions", aout[-1500:]))
        for t, lines in assumptions.items():
            txt = " ".join(lines)
            if "Closed under the global context" in txt:
                continue
            axs = [l.split(":")[0].strip() for l in lines if ":" in l and not l.startswith("Axioms")]
            for a in axs:
                if a not in cfg.get("allowed_axioms", ALLOWED_AXIOMS):
                    check_fault.append("theorem %s depends on %s" % (t, a))
    if tier == "thorough" and cone_ok:
        stamp = os.path.join(BUILD, "coqchk-%s.ok" % pid)
        mods = ["FL." + f[len("theories/"):-2].replace("/", ".") for f in cfg["coq"]]
        rc, out = sh(["coqchk", "-silent", "-o", "-Q", "theories", "FL"] + mods, cwd=COQ, timeout=3000)
        cmds.append("coqchk -silent -o -Q theories FL " + " ".join(mods))
        open(os.path.join(rundir, "coqchk.log"), "w").write(out)
        if rc != 0:
            broken.append(("proof", "coqchk", out[-1500:]))
        else:
            open(stamp, "w").write(out)

    # 3. harness suites
    suites = []
    for s in cfg["suites"]:
        suites.append(run_suite(pid, s, tier, seed, rundir, replay, cone_ok))
        cmds.append("go build -tags verif ./cmd/%s && %s -seed %d -tier %s ; coqc cases_*.v" % (s["bin"], s["bin"], seed, tier))

    known = load_known(pid)
    violations, known_lines = [], []

    def collect(suite_results, into_fail):
        for r in suite_results:
            if not r["build_ok"]:
                broken.append(("correspondence", r["name"] + " (harness does not build against the working tree)", r["build_log"][-1500:]))
                continue
            if not r["ran"]:
                broken.append(("correspondence", r["name"] + " (harness run failed)", r["log"][-1500:]))
                continue
            for f in r["summary"]["oracle_failures"]:
                if f.get("property", pid) != pid:
                    continue
                into_fail.append((r["name"], f))
            for m in r["mismatches"][:5]:
                broken.append(("correspondence", "%s: model and implementation differ" % r["name"], json.dumps(m)[:1500]))
            for (s, e) in r["case_errors"][:2]:
                broken.append(("correspondence", "%s: coqc failed on %s" % (r["name"], s), e[-1500:]))

    fails = []
    collect(suites, fails)

    def classify(fails):
        for (sname, f) in fails:
            ent = [k for k in known if k.get("status") == "known" and sig_matches(k, f["signature"])]
            if ent:
                line = "KNOWN-FINDING: property=%s %s [%s]" % (pid, ent[0].get("what", f["signature"]), f["signature"])
                if line not in known_lines:
                    known_lines.append(line)
            else:
                path = write_replay(pid, f["signature"], dict(property=pid, suite=sname, signature=f["signature"],
                                                              detail=f["detail"], input=f["input"], seed=seed))
                violations.append("VIOLATION property=%s replay=%s" % (pid, path))

    classify(fails)

    # C08 only: the property IS "the implementation computes what the source semantics defines", and the model's
    # compiler+machine are proved equal to that semantics (compile_correct); an input on which the implementation
    # and the model disagree is therefore itself a concrete failing input of the property
    if cfg.get("mismatch_is_violation") and not violations:
        for r in suites:
            for m in r["mismatches"][:1]:
                path = write_replay(pid, "differs-from-source-semantics", dict(property=pid, suite=r["name"],
                                    signature="implementation-differs-from-the-proved-source-semantics",
                                    detail="compiled program / run outcome differs from Numscript/Sem (see check_case / diagnose in Numscript/Corr.v)",
                                    input=m["input"], shard=m["shard"], index=m["index"], seed=seed))
                violations.append("VIOLATION property=%s replay=%s" % (pid, path))

    # 4. a tie is broken but no unlisted oracle failure yet: enlarge the search
    searched = False
    if broken and not violations and not replay:
        searched = True
        if tier != "thorough":
            more = []
            for s in cfg["suites"]:
                more.append(run_suite(pid, s, "thorough", seed + 7919, os.path.join(rundir, "search"), None, False))
            fails2 = []
            b0 = len(broken)
            collect(more, fails2)
            del broken[b0:]
            classify(fails2)
        if not violations:
            kind, name, detail = broken[0]
            path = write_replay(pid, "broken-" + kind, dict(property=pid, broken=[dict(kind=k, name=n, detail=d) for (k, n, d) in broken],
                                                             note="a proof obligation, translator or correspondence no longer checks; "
                                                                  "the search found no input on which the property itself fails"))
            violations.append("VIOLATION property=%s replay=%s no-failing-input-found" % (pid, path))

    # 5. evidence
    n_suites = len(cfg["suites"])
    obligations = n_thm + n_qed + n_suites + len(cfg.get("translators", []))
    failed_obl = len({(k, n) for (k, n, _) in broken})
    discharged = max(0, obligations - failed_obl) if not broken else max(0, min(obligations - 1, obligations - failed_obl))
    evals = sum(r["summary"]["evaluations"] for r in suites if r["summary"])
    dn = sum(r["summary"]["distinct_nontrivial"] for r in suites if r["summary"])
    samples, dist, rules, notes = [], {}, [], []
    for r in suites:
        if r["summary"]:
            samples += r["summary"]["samples"][:2]
            for k, v in r["summary"]["input_distribution"].items():
                dist[r["name"] + ":" + k] = v
            rules.append(r["name"] + ": " + r["summary"]["rule"])
            notes += r["summary"].get("notes") or []
    thm_samples = [{"theorem": t, "print_assumptions": " ".join(a)} for t, a in list(assumptions.items())[:3]]
    ev = {
        "property_id": pid, "tier": tier, "seed": seed, "level": "proof",
        "coverage": {
            "obligations": obligations, "discharged": discharged,
            "obligation_breakdown": {"property_theorems": n_thm, "supporting_Qed_in_cone": n_qed,
                                     "correspondence_suites": n_suites, "translators": len(cfg.get("translators", []))},
            "checker_cmd": " ; ".join(cmds),
            "trusted_base": COMMON_TRUSTED + cfg.get("trusted", []) +
                            ["Print Assumptions %s: %s" % (t, " ".join(a)) for t, a in assumptions.items()],
            "evaluations": evals, "distinct_nontrivial": dn, "rule": " | ".join(rules),
            "samples": samples + thm_samples,
            "traces_validated_against_impl": sum(len(r["summary"]["shards"]) and r["summary"]["evaluations"] or 0
                                                 for r in suites if r["summary"] and not r["mismatches"] and cone_ok),
            "input_distribution": dist,
            "model_impl_disagreements": sum(len(r["mismatches"]) for r in suites),
            "known_findings_replayed": known_lines,
            "broken_ties": [dict(kind=k, name=n) for (k, n, _) in broken],
            "search_enlarged": searched,
            "exhaustive": False,
            "cone_files": cone,
            "notes": notes,
        },
        "assumptions": cfg.get("assumptions", []),
        "wall_s": round(time.time() - t0, 1),
        "violations": len(violations),
    }
    if check_fault:
        ev["coverage"]["check_faults"] = check_fault
    # evidence is only ever written for runs against /repo itself; runs against a scratch tree (VERIF_REPO, used to
    # try seeded changes) keep theirs under build/
    evdir = os.path.join(ROOT, "evidence") if REPO == "/repo" else os.path.join(BUILD, "evidence-scratch")
    os.makedirs(evdir, exist_ok=True)
    json.dump(ev, open(os.path.join(evdir, pid + ".json"), "w"), indent=1)

    print("%s tier=%s seed=%d repo=%s: %d theorems, %d Qed in cone, %d suites, %d evaluations (%d distinct non-trivial), "
          "%d model/impl disagreements, %.1fs" % (pid, tier, seed, REPO, n_thm, n_qed, n_suites, evals, dn,
                                                  ev["coverage"]["model_impl_disagreements"], ev["wall_s"]))
    for (k, n, d) in broken:
        print("BROKEN-TIE %s: %s" % (k, n))
        print("    " + d.strip().replace("\n", "\n    ")[-1200:])
    for l in known_lines:
        print(l)
    for c in check_fault:
        print("CHECK-FAULT: " + c)
    for v in violations:
        print(v)
    if violations:
        sys.exit(1)          # the run directory is kept for inspection
    shutil.rmtree(rundir, ignore_errors=True)
    if check_fault:
        sys.exit(3)
    sys.exit(0)


if __name__ == "__main__":
    main()
