#!/bin/sh
# tools/confirm_mut.sh <mutdir> <i> <prop> [<check props...>]
# Confirms a seeded change in a scratch worktree: demo passes on the clean tree, change applies and builds,
# the touched packages' existing tests still pass, demo fails with the change; then runs our checks against it
# and stores everything under /verif/seeded/<prop>-<n>/.
mutdir="$1"; i="$2"; prop="$3"; shift 3
. /verif/tools/goenv.sh
wt=/tmp/confirm-$$
git -C /repo worktree add --detach "$wt" HEAD -q || exit 2
mkdir -p "$wt/_mut"; cp "$mutdir"/* "$wt/_mut/" 2>/dev/null
cmd=$(python3 -c "import json,sys; print(json.load(open('$mutdir/meta$i.json'))['demo_cmd'].replace('$(dirname $mutdir)', '$wt').replace('cd /tmp/mut-', 'cd /tmp/confirm-IGNORED-'))")
cd "$wt"
cmd=$(echo "$cmd" | sed "s#cd /tmp/confirm-IGNORED-[A-Za-z0-9]* *&& *##")
clean_out=$(sh -c "$cmd" 2>&1); clean_rc=$?
git clean -fdq -e _mut
git apply "_mut/mut$i.diff" || { echo "PATCH DOES NOT APPLY"; cd /; git -C /repo worktree remove --force "$wt"; exit 2; }
build_out=$(go build ./... 2>&1 && (cd libs && go build ./... 2>&1)); build_rc=$?
pk=$(git diff --name-only | grep '\.go$' | xargs -n1 dirname | sort -u)
runpk() {
  for d in $pk; do
    case "$d" in
      libs/*) (cd libs && go test -mod=mod -vet=off -count=1 "./${d#libs/}/" 2>&1 | tail -1 | awk '{print $1}') ;;
      *) go test -mod=mod -vet=off -count=1 "./$d/" 2>&1 | tail -1 | awk '{print $1}' ;;
    esac
  done | tr '\n' ' '
}
with_change=$(runpk)
git stash -q
baseline=$(runpk)
git stash pop -q
tests_out="touched packages: $pk | with change: $with_change | unmodified: $baseline"
tests_rc=0
[ "$with_change" = "$baseline" ] || tests_rc=1
mut_out=$(sh -c "$cmd" 2>&1); mut_rc=$?
git checkout -q -- . ; git clean -fdq -e _mut
cd /verif
echo "demo on clean tree rc=$clean_rc ; build rc=$build_rc ; existing tests of touched packages rc=$tests_rc ($tests_out) ; demo with change rc=$mut_rc"
ok=no
if [ $clean_rc -eq 0 ] && [ $build_rc -eq 0 ] && [ $tests_rc -eq 0 ] && [ $mut_rc -ne 0 ]; then ok=yes; fi
echo "CONFIRMED=$ok"
git -C /repo worktree remove --force "$wt"
if [ "$ok" = yes ]; then
  n=1; while [ -d "/verif/seeded/$prop-$n" ]; do n=$((n+1)); done
  dst="/verif/seeded/$prop-$n"; mkdir -p "$dst"
  cp "$mutdir/mut$i.diff" "$dst/patch.diff"
  for f in "$mutdir"/demo$i*; do cp -r "$f" "$dst/"; done
  results=""
  for p in "$@"; do
    out=$(tools/mutcheck.sh "$dst/patch.diff" "$p" 2>&1 | grep -E "^(== |VIOLATION)" | head -4 | tr '\n' ' ')
    results="$results$out | "
  done
  python3 - "$mutdir/meta$i.json" "$dst/meta.json" "$prop" "$clean_rc" "$mut_rc" "$tests_out" "$results" <<'PY'
import json,sys
m=json.load(open(sys.argv[1]))
m.update({"breaks_property":sys.argv[3],"confirmed":{"demo_on_clean_tree_rc":int(sys.argv[4]),"demo_with_change_rc":int(sys.argv[5]),"existing_tests_of_touched_packages":sys.argv[6],
  "what_i_ran":"tools/confirm_mut.sh: scratch worktree of /repo HEAD; demo_cmd on the clean tree (passes); git apply patch.diff; go build ./... in both modules; go test of the touched packages; demo_cmd again (fails)"},
  "our_checks":sys.argv[7]})
json.dump(m,open(sys.argv[2],"w"),indent=1)
PY
  echo "stored in $dst: $results"
fi
