#!/usr/bin/env python3
"""Refresh the 'thms / Qed' and 'quick' columns of DESIGN.md section 5 from evidence/*.json (quick tier, /repo)."""
import json, re, os
ROOT = os.path.dirname(os.path.dirname(os.path.abspath(__file__)))
d = open(os.path.join(ROOT, "DESIGN.md")).read().split("\n")
for i, line in enumerate(d):
    m = re.match(r"\| (C\d\d) \| (.*) \| (\d+ / \d+) \| ([^|]*) \| ([^|]*) \|$", line)
    if not m:
        continue
    pid = m.group(1)
    try:
        e = json.load(open(os.path.join(ROOT, "evidence", pid + ".json")))
    except OSError:
        continue
    if e.get("tier") != "quick":
        continue
    ob = e["coverage"]["obligation_breakdown"]
    ev = e["coverage"].get("inputs_evaluated") or e["coverage"].get("evaluations")
    if ev is None:
        s = json.dumps(e["coverage"])
        mm = re.search(r'"(?:evaluations|cases|inputs)[a-z_]*": (\d+)', s)
        ev = int(mm.group(1)) if mm else 0
    quick = "{:,}".format(ev).replace(",", " ") + ", %d s" % round(e["wall_s"])
    d[i] = "| %s | %s | %d / %d | %s | %s |" % (pid, m.group(2), ob["property_theorems"], ob["property_theorems"] + ob["supporting_Qed_in_cone"], m.group(4).strip(), quick)
open(os.path.join(ROOT, "DESIGN.md"), "w").write("\n".join(d))
