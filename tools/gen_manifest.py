#!/usr/bin/env python3
"""Regenerate MANIFEST.json (checks from tools/props/*.py) and known_findings.json (merge of known_findings.d/*.json)."""
import glob, json, os, sys
ROOT = os.path.dirname(os.path.dirname(os.path.abspath(__file__)))
sys.path.insert(0, os.path.join(ROOT, "tools"))
from props import PROPS
m = json.load(open(os.path.join(ROOT, "MANIFEST.json")))
m["checks"] = []
ids = [json.loads(l)["id"] for l in open(os.path.join(ROOT, "properties.jsonl"))]
for pid in ids:
    if pid not in PROPS or "manifest" not in PROPS[pid] or not PROPS[pid].get("ready"):
        continue
    mf = PROPS[pid]["manifest"]
    m["checks"].append({
        "property_id": pid, "quick_cmd": "./check %s --tier quick" % pid, "thorough_cmd": "./check %s --tier thorough" % pid,
        "evidence_file": "/verif/evidence/%s.json" % pid, "replay_cmd_template": "./check %s --replay {path}" % pid,
        "engine": "coq-model+correspondence",
        "level_claimed": {"category": mf.get("category", "proof"), "text": mf["text"], "design_ref": mf.get("design_ref", "DESIGN.md 5")},
        "level_note": mf["note"], "technique": mf["technique"]})
claimed = {c["property_id"] for c in m["checks"]}
old = {n["property_id"]: n["reason"] for n in m.get("not_applicable", [])}
m["not_applicable"] = [{"property_id": p, "reason": old.get(p, "not yet built (work in progress, see DESIGN.md section 5); will be claimed when its model, theorems and tie exist")}
                       for p in ids if p not in claimed]
m["engines"][0]["serves_properties"] = sorted(claimed)
hooks = os.path.join(ROOT, "hooks", "commits.txt")
if os.path.exists(hooks):
    m["hooks"]["source_commits"] = [l.split()[0] for l in open(hooks) if l.strip()]
json.dump(m, open(os.path.join(ROOT, "MANIFEST.json"), "w"), indent=1)
kf = []
for f in sorted(glob.glob(os.path.join(ROOT, "known_findings.d", "*.json"))):
    kf += json.load(open(f))
json.dump(kf, open(os.path.join(ROOT, "known_findings.json"), "w"), indent=1)
print("claimed:", sorted(claimed))
