#!/bin/sh
# tools/mutcheck.sh <patch.diff> <Cxx> [Cyy ...] : apply a seeded change to a scratch worktree of /repo and run the
# listed checks against it (VERIF_REPO), print their verdict lines, remove the worktree.
patch="$1"; shift
wt=/tmp/mutcheck-$$
git -C /repo worktree add --detach "$wt" HEAD -q || exit 2
# a seeded change was written against the tree of its day; later fix: commits may have moved its context. A sibling
# patch.rebased.diff (same change ported by hand) takes precedence; else exact apply, 3-way, then fuzzy patch(1).
reb="$(dirname "$patch")/patch.rebased.diff"
[ -f "$reb" ] && patch="$reb"
if ! git -C "$wt" apply "$patch" 2>/dev/null; then
  if ! git -C "$wt" apply --3way "$patch" 2>/dev/null; then
    git -C "$wt" checkout -q -- . 2>/dev/null
    if ! (cd "$wt" && patch -p1 -F3 -s --no-backup-if-mismatch < "$patch" >/dev/null 2>&1); then
      echo "PATCH DOES NOT APPLY"; git -C /repo worktree remove --force "$wt"; exit 2
    fi
  fi
  (cd "$wt" && . /verif/tools/goenv.sh && go build ./... >/dev/null 2>&1) || { echo "PATCH DOES NOT APPLY (applied with fuzz but does not build)"; git -C /repo worktree remove --force "$wt"; exit 2; }
fi
cd /verif
for p in "$@"; do
  out=$(VERIF_REPO="$wt" VERIF_SEED="${VERIF_SEED:-1}" ./check "$p" --tier "${VERIF_TIER:-quick}" 2>&1)
  rc=$?
  echo "== $p rc=$rc"
  echo "$out" | grep -E "^(VIOLATION|KNOWN-FINDING|BROKEN-TIE|CHECK-FAULT|C[0-9]+ tier)" | cut -c1-260
  case " $* " in *" C19 "*) ;; esac
done
git -C /repo worktree remove --force "$wt"
rm -rf /verif/build/gomod/$(printf %s "$wt" | sha1sum | cut -c1-10) /verif/build/bin/$(printf %s "$wt" | sha1sum | cut -c1-10)
case " $* " in *" C19 "*) ./check C19 >/dev/null 2>&1 ;; esac
