#!/bin/sh
# tools/mutcheck.sh <patch.diff> <Cxx> [Cyy ...] : apply a seeded change to a scratch worktree of /repo and run the
# listed checks against it (VERIF_REPO), print their verdict lines, remove the worktree.
patch="$1"; shift
wt=/tmp/mutcheck-$$
git -C /repo worktree add --detach "$wt" HEAD -q || exit 2
if ! git -C "$wt" apply "$patch"; then echo "PATCH DOES NOT APPLY"; git -C /repo worktree remove --force "$wt"; exit 2; fi
cd /verif
for p in "$@"; do
  out=$(VERIF_REPO="$wt" VERIF_SEED="${VERIF_SEED:-1}" ./check "$p" --tier "${VERIF_TIER:-quick}" 2>&1)
  rc=$?
  echo "== $p rc=$rc"
  echo "$out" | grep -E "^(VIOLATION|KNOWN-FINDING|BROKEN-TIE|CHECK-FAULT|C[0-9]+ tier)" | cut -c1-260
  case " $* " in *" C19 "*) ;; esac
done
git -C /repo worktree remove --force "$wt"
rm -rf /verif/build/gomod/$(printf %s "$wt" | sha1sum | cut -c1-10) /verif/build/bin/$(printf %s "$wt" | sha1sum | cut -c1-10)
case " $* " in *" C19 "*) ./check C19 >/dev/null 2>&1 ;; esac
