"""Per-property configuration of the check driver: one file tools/props/Cxx.py per property, each defining PROP."""
import glob
import importlib.util
import os

COMMON_TRUSTED = [
    "Coq 8.16.1 kernel (coqc, full .vo build; no -vos, no native_compute; vm_compute used for witnesses, finite tables and case evaluation)",
    "no Axiom/Parameter/Admitted/admit in the development (grep gate on every run); expected Print Assumptions: Closed under the global context",
    "harness glue: input generators, canonical printers of observations into Coq terms, name interning (tools/check.py, harness/vx)",
]

PROPS = {}
for _f in sorted(glob.glob(os.path.join(os.path.dirname(os.path.abspath(__file__)), "props", "C*.py"))):
    _spec = importlib.util.spec_from_file_location("prop_" + os.path.basename(_f)[:-3], _f)
    _m = importlib.util.module_from_spec(_spec)
    _spec.loader.exec_module(_m)
    PROPS[os.path.basename(_f)[:-3]] = _m.PROP
