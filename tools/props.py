"""Per-property configuration of the check driver (tools/check.py)."""

COMMON_TRUSTED = [
    "Coq 8.16.1 kernel (coqc, full .vo build; no -vos, no native_compute; vm_compute used for witnesses, finite tables and case evaluation)",
    "no Axiom/Parameter/Admitted/admit in the development (grep gate on every run); expected Print Assumptions: Closed under the global context",
    "harness glue: input generators, canonical printers of observations into Coq terms, name interning (tools/check.py, harness/vx)",
]

PROPS = {
    "C18": dict(
        coq=["theories/Properties/C18.v"],
        suites=[dict(bin="obs-bulk")],
        trusted=[
            "hand-written model Bulk/Model.v of internal/api/v2/bulk.go + controllers_bulk.go, tied by correspondence: "
            "real ProcessBulk and real v2 router/bulkHandler vs `process` on the same requests (calls, results, flag, status)",
            "scripted backend.Ledger (harness/fakeapi) stands for the engine; encoding/json, chi are exercised, not modelled",
        ],
        assumptions=[
            "each element causes at most one backend call, so an arbitrary backend is an arbitrary outcome per element",
            "JSON decoding of the bulk body and of each element's data is abstracted to decodable/undecodable (both classes generated)",
        ],
    ),
}
