PROP = {"ready": True, 'assumptions': [],
 'coq': ['theories/Properties/C01.v', "theories/Properties/C01_per_send.v"],
 'manifest': {'design_ref': 'DESIGN.md 5 C01',
              'note': 'Transfer from Sem to the bytecode machine is by the differential correspondence (and compile_correct, C08), not by a Coq '
                      'theorem here. Trusted as C08.',
              'technique': 'Coq proof (invariant over statements of the source semantics) + differential correspondence',
              'text': 'Coq theorems over the source semantics Sem, for every script (single, ordered, capped, portioned sources and '
                      'nested/kept/portioned destinations to any depth, save, several sends), every variable environment and every balance table '
                      '(unbounded Z, zero/negative/huge, no well-formedness hypothesis on the table): C01_floor - when the run succeeds, replaying '
                      "its postings in order on the machine's initial table, every posting from a non-world account takes at most max 0 (running "
                      'balance + overdraft the script grants that (account, asset): unbounded for `allowing unbounded overdraft`, else the largest '
                      '`overdraft up to` bound, at least 0), funds received earlier in the transaction counting; C01_sources_tracked - every '
                      "posting's (source, asset) is a pair of the initial table; C01_resolve_balances_snapshot + C01_floor_store + "
                      'C01_floor_pipeline - ResolveBalances yields a snapshot of the store, so the same floor holds against the store balances, end '
                      'to end over sem_pipeline with no hypothesis left; C01_fallback_is_world_or_unbounded - the withdrawAlways operand is the '
                      'world literal or an account with an unbounded clause; C01_reject (an error outcome has no result, by typing) and '
                      'C01_reject_exact (a single-source send [A n] without overdraft is refused with insufficient funds iff max 0 balance < n). '
                      'Witnesses of the two repaired defects: C01_refuted_before_fix (save [A *] on a negative balance, 0ffb9a4) and '
                      'C01_store_floor_refuted_before_fix (save creating an entry for an unloaded asset, 2ef37df). '
                      'Strengthening (Properties/C01_per_send.v): C01_floor_per_send - the postings of an accepted run cut into one group per '
                      'statement (what the statement appended), a non-send statement appends nothing and every posting of a send takes at most '
                      'max 0 (real running balance when reached, all earlier postings of the script applied, + the overdraft granted by the '
                      'clauses of THAT send only), for every script / environment / table; C01_per_send_implies_floor - it implies C01_floor; '
                      'C01_per_send_refutes_writeback_bug - a withdraw_always that does not store the debit back is accepted by the per-script '
                      'floor and refuted by the per-send one (harness oracle overdraw:per-send on literal scripts).'},
 'suites': [{'bin': 'obs-numscript', 'corpus': 'numscript'}],
 'trusted': ['hand-written models Numscript/{Funding,VM,Syntax,Compiler,Run,Sem}.v of internal/machine/{funding,allotment,portion,monetary}.go, '
             'vm/{machine,run,stack}.go, script/compiler/*.go; tied on every run by correspondence: real compiler + machine vs model on generated '
             'programs x variable maps x stores (bytecode, resources, sources, needed balances, lock sets, postings, metadata, printed values, error '
             'class, panic flag), and Sem (source semantics) vs the real run end to end',
             'the real ANTLR lexer/parser produces the AST the model consumes (parse-tree dump harness/nsx/ast.go is mechanical glue); '
             'machine.NewValueFromString / ParsePortionSpecific enter as harness-computed tables',
             'math/big, encoding/json are exercised, not modelled; Go aliasing inside a shared *Program is covered by the run-twice oracle only']}
