PROP = {"ready": True, 'coq': ['theories/Properties/C03.v'],
 'suites': [{'bin': 'obs-numscript', 'corpus': 'numscript'}],
 'trusted': ['hand-written models Numscript/{Funding,VM,Syntax,Compiler,Run,Sem}.v of internal/machine/{funding,allotment,portion,monetary}.go, '
             'vm/{machine,run,stack}.go, script/compiler/*.go; tied on every run by correspondence: real compiler + machine vs model on generated '
             'programs x variable maps x stores (bytecode, resources, sources, needed balances, lock sets, postings, metadata, printed values, error '
             'class, panic flag), and Sem (source semantics) vs the real run end to end',
             'the real ANTLR lexer/parser produces the AST the model consumes (parse-tree dump harness/nsx/ast.go is mechanical glue); '
             'machine.NewValueFromString / ParsePortionSpecific enter as harness-computed tables',
             'math/big, encoding/json are exercised, not modelled; Go aliasing inside a shared *Program is covered by the run-twice oracle only'],
 'assumptions': ['exact allotments: the clauses `a destination without kept leaves nothing over` (C03_send_anatomy, C03_conservation_*) and `a '
                 'portioned source hands over exactly n` (C03_conservation_stated) have the hypotheses dest_exact / src_exact: every portioned node, '
                 'once its portions are evaluated, has a `remaining` entry or sums to 1. This is NOT an assumption for scripts the compiler accepts: '
                 'C03_compiler_enforces_exactness proves it from `compile sc = Some p` (compiler.VisitAllotment, model Compiler.visit_allotment, '
                 "rejects 'the sum of portions might be less than 100%'), C03_static_exact gives the syntactic criterion. It is needed only because "
                 'Sem by itself accepts a variable portion that makes the sum < 1 and then silently repays the unsent part '
                 '(C03_exactness_needed_example). All other clauses (postings + leftover = amount handed over, non-negativity, caps, shares, order, '
                 'Sem refines Spec) hold without it.',
                 'all theorems are about sends that SUCCEED in Sem (SOk); the known over-commit failure of ordered destinations with `kept` before a '
                 "larger `max` (F-C08c, witness C03_overcommit_example) is a spurious failure and is C08's finding, not a C03 violation.",
                 "balances are the machine's view (the table ResolveBalances loaded, @world = 0 and never repaid); `everything its sources can "
                 'provide` for [A *] is relative to that table (C03_capacity_account: max 0 (balance + overdraft)).'],
 'manifest': {'text': 'Coq theorems (closed under the global context; all amounts in Z, all lists, all source/destination trees, all balance tables '
                      'and variable environments) over Funding/Allotment and the source semantics Sem: (d) C03_allocate_spec (shares sum to the '
                      'amount, share_i = floor(amount*q_i) + [i < leftover], leftover < number of entries, no negative share), C03_new_allotment, '
                      'C03_floor_share_scaling; (a)/(b) funding algebra C03_take_loop_conservation/_spec, C03_take, C03_take_fails_iff, '
                      'C03_take_max, C03_concat, C03_reverse, C03_assemble (totals and the order of unit coins); per send C03_send_anatomy (postings '
                      ">= 0, of the send's asset, coins of the handed-over funding = coins moved ++ coins left over, postings + leftover = handed "
                      'over, nothing left over without `kept`), C03_conservation_stated (handed over = n, postings + kept = n, 0 <= n), '
                      'C03_conservation_all with C03_capacity_account / C03_capacity_inorder / C03_cap_source (capacity of sources; `max m from S` '
                      'gives min(m, S) or m with a fallback), C03_nonneg (no script produces a negative posting); (c) C03_cap_dest (entry i of an '
                      'ordered destination receives at most max_i), C03_dest_shares (entries of a portioned destination receive allocate a (total)); '
                      '(e) C03_order_sources_stated/_all (a later ordered source or the fallback pays only when every earlier one gave its whole '
                      'funding), C03_order_source_max, and the refinement Sem refines Spec (Numscript/Spec.v: send_parts computed from AST + '
                      'balances, demands from AST + amount, flow): C03_source_refines_spec, C03_dest_refines_spec, C03_order_partial (the k-th coin '
                      'moved comes from the k-th coin provided and goes to the k-th coin demanded, every source and destination shape incl. `kept` '
                      'and portioned sources), C03_order_normalised_partial (posting list = flow after dropping zero postings and merging adjacent '
                      'postings with equal source and destination). C03_compiler_enforces_exactness + C03_static_exact discharge the exactness '
                      'hypotheses for compiled scripts. Only the un-merged list equality C03_order_full_statement is left unproved. Witnesses: '
                      'C03_overcommit_example (F-C08c), C03_exactness_needed_example.',
              'note': 'Trusted as C08 (models tied to the real compiler + VM by correspondence on every run; C08_compile_correct transfers Sem-level '
                      'statements to the machine).',
              'technique': 'Coq proof (funding algebra on unit-coin sequences, Z.div arithmetic, structural induction on source/destination trees '
                           'with custom nested induction principles, refinement to a readable flow specification) + differential correspondence',
              'design_ref': 'DESIGN.md 5 C03; design.d/C03.md'}}
