PROP = dict(
    ready=True,
    coq=["theories/Properties/C04.v"],
    suites=[dict(bin="obs-storage", timeout=3000)],
    trusted=[
        "harness/minipg (Go): tokenizer + recursive-descent parser + interpreter of the SQL / PL/pgSQL subset used by "
        "0-init-schema.sql and by the statements bun renders for ledgerstore.Store. It STANDS IN FOR PostgreSQL, which does not "
        "exist in the sandbox; its semantics are the assumptions of this property (harness/minipg/doc.go, block SEMANTICS): "
        "three-valued logic (IF/WHERE/ON take the branch only on TRUE); SELECT INTO without a row assigns NULL and FOUND=false; "
        "reading a field of a NULL composite is NULL, assigning one instantiates it; NULL arithmetic; bigserial draws nextval at "
        "every INSERT attempt (also ON CONFLICT DO UPDATE), never rolled back; row-level AFTER triggers fire per affected row after "
        "the statement, none when ON CONFLICT's WHERE is not true; unique indexes and NOT NULL enforced, a failing statement has no "
        "effect; text::timestamp without time zone keeps the wall-clock fields and ignores a zone suffix; jsonb -> ->> || - @> "
        "jsonb_each_text (jsonb key order: shorter first, then bytewise) jsonb_array_elements (array order); ORDER BY is a stable sort "
        "over insertion order, NULLS FIRST for DESC; DISTINCT ON without ORDER BY sorts by its expressions; an unnamed CASE whose ELSE "
        "is a column takes that column's name; user aggregates from CREATE AGGREGATE (strict sfunc skips NULL).",
        "hand-written model Storage/Model.v of the schema (tables, 5 triggers, write and read functions) and of the Go-built "
        "single-row reads; tied on every run: the current schema text is re-parsed and EXECUTED on generated histories written through "
        "the real ledgerstore.Store.InsertLogs; all six tables and all reads are compared with the model evaluated inside coqc",
        "list queries (GetTransactions, GetAccountsWithVolumes, GetLogs, Count*) and filters: tied by SQL TEXT only (every table "
        "reference restricted to the ledger); executed by minipg in its own tests but not part of the model",
        "bun/pgdialect rendering and scanning, encoding/json, lib/pq CopyIn text: exercised (closed loop), not modelled",
    ],
    assumptions=[
        "timestamps are integers, microseconds in the store, in the generated histories and in the model (several dates inside one "
        "second, points in time 1 us / a fraction / a second around every date); names are interned in an order-"
        "preserving way (ORDER BY / GROUP BY / jsonb key order agree with the numbers)",
        "metadata values are strings (metadata.Metadata); a transaction's metadata is a JSON object, accountMetadata is a JSON object "
        "(a Go nil map is rendered as JSON null, on which jsonb_each_text raises: outside the model)",
        "volumes 'as of an insertion date' assume the ledger's log dates never go back (dates_monotone); stated as a hypothesis",
        "transactions.sources/destinations(_arrays), hash, idempotency_key columns are not modelled (they feed list filters and C07)",
    ],
    manifest=dict(
        text="PARTIAL. Coq theorems over an executable model (M4) of 0-init-schema.sql for EVERY list of log entries (any ledgers "
             "interleaved, any effective dates, reverts, metadata set/delete): C04_reads_depend_on_own_log / C04_isolation (every "
             "ledger-scoped read is a function of that ledger's own entries; unconditional, by a projection of the shared tables onto "
             "per-ledger machines), C04_account_meta (current account metadata = fold of the log; unconditional), and, each with the "
             "full statement refuted by a vm_compute witness and proved under an executable exclusion of the defective class: "
             "C04_volumes / C04_balance / C04_double_entry (no self-transfer on a not-yet-existing account), C04_effective "
             "(+ timestamps in UTC, + no move back-dated before the first move of its account/asset), C04_tx (timestamps in UTC), "
             "C04_aggregate / C04_aggregate_balanced (GetAggregatedBalances = replay per asset and is zero), C04_account_meta_pit and "
             "C04_tx_pit (as of a date; under monotone log dates and the exclusions of the < / <= and foreign-date findings, at most "
             "one revert per transaction). The per-transaction volume aggregates are refuted by witnesses (known findings) and have no "
             "positive theorem. The model is tied to the working tree on every run by re-parsing the schema text and executing it "
             "(through the real Store.InsertLogs and the real single-row Store reads) on generated histories with a Go stand-in for "
             "PostgreSQL, and comparing all tables and reads with the model inside coqc; an independent Go fold of the log is the oracle.",
        note="Trusted: Coq kernel; the stand-in interpreter minipg IS the semantics of PostgreSQL here (assumptions listed in the "
             "evidence); the hand-written model is validated by correspondence only; list/aggregate query builders are tied by SQL "
             "text shape (ledger restriction) only. SQL-level findings are reproduced on minipg, not on a real PostgreSQL. No axioms.",
        technique="Coq proof (refinement of the shared tables onto per-ledger machines + invariants by induction over the log) + "
                  "translation tie (schema text parsed and executed every run) + closed loop through the real Store",
        design_ref="DESIGN.md 5 C04 ; design.d/C04.md",
    ),
)
