PROP = {"mismatch_is_violation": True, "ready": True, 'coq': ['theories/Properties/C08.v', 'theories/Properties/C08_typing.v'],
 'suites': [{'bin': 'obs-numscript', 'corpus': 'numscript'}],
 'trusted': ['hand-written models Numscript/{Funding,VM,Syntax,Compiler,Run,Sem}.v of '
             'internal/machine/{funding,allotment,portion,monetary}.go, vm/{machine,run,stack}.go, script/compiler/*.go; tied on every run '
             'by correspondence: real compiler + machine vs model on generated programs x variable maps x stores (bytecode, resources, '
             'sources, needed balances, lock sets, postings, metadata, printed values, error class, panic flag), and Sem (source '
             'semantics) vs the real run end to end',
             'the real ANTLR lexer/parser produces the AST the model consumes (parse-tree dump harness/nsx/ast.go is mechanical glue); '
             'machine.NewValueFromString / ParsePortionSpecific enter as harness-computed tables',
             'math/big, encoding/json are exercised, not modelled; Go aliasing inside a shared *Program is covered by the run-twice oracle '
             'only'],
 'assumptions': ['front-end side conditions of the theorems, both executable (Numscript/CompileCorrectProps.v in_fragment = norm_script && '
                 'statement list non-empty): ratio literals reach the model in lowest terms (they are big.Rat values, math/big keeps them '
                 "normalised; the compiler's constant table compares ratios by cross-multiplication, so the unconditional statement is "
                 'false of the model: C08_unconditional_refuted_unnormalised_ratio) and a script has at least one statement (NumScript.g4 '
                 '`script` rule; an empty program makes Machine.Execute index Instructions[0]: C08_unconditional_refuted_empty_script)',
                 'typing of the values handed over by the glue: every value SetVarsFromJSON stores for a resource Variable{Typ,Name} has '
                 'type Typ (vars_typed (p_res p) vars; implied by the script-level form "every supplied plain variable has its declared type", vars_typed_script, theorems *_script) and every NewValueFromString(Typ, raw) result has type Typ (parse_typed store); '
                 'both functions type-check in Go and enter the model as harness-computed tables; without it the model predicts a panic '
                 '(C12_no_panic_without_typing_refuted)',
                 'cache: gcache.Get returns only what an earlier Set stored under that key (cache_sound is preserved by cache_after for '
                 'any eviction / failed Set); SHA-256 is injective on the script texts offered (hypothesis of C08_cache_sequence); key '
                 'comparison is string equality'],
 'manifest': {'text': 'Coq theorem C08_compile_correct (Numscript/CompileCorrect.v, closed under the global context, no fragment '
                      'restriction: expressions, account/max/in-order/allotment sources with all overdraft forms, '
                      'account/in-order-with-kept/allotment destinations, send, save, metadata, print, fail, variables with '
                      'meta()/balance() origins): for every script the model compiler accepts and every resolved resource table, balance '
                      'table and set of extra metadata keys, the model machine running the compiled code returns exactly what the source '
                      'semantics Sem returns - same postings, transaction/account metadata, printed values, same error class; hence never '
                      "a panic. C08_resolve_establishes + C08_pipeline: ResolveResources/ResolveBalances establish the theorem's "
                      'hypothesis, so compile -> set vars -> resolve -> run equals Sem on what was resolved, for every variable map and '
                      'store. C08_reject_no_run: a rejected program is not run. C08_cache_transparent / C08_cache_sequence: a cache that '
                      'is any partial map of (sha text -> compile text) entries, under any eviction and any call sequence, answers as '
                      'fresh compilations. Models tied to the working tree on every run: bytecode/resources/sources/needed-balances '
                      'equality with the real compiler and outcome equality of both the model machine and Sem with the real machine on '
                      'generated programs. C08_reject_sound (Properties/C08_typing.v; judgement Numscript/Typing.v, proofs '
                      'Numscript/TypingProofs.v): the model compiler accepts a script iff it is well_formed - a declarative, syntax-only '
                      'judgement (typing environment from the vars block, expression types, account/max/ordered sources with the '
                      'overdraft, unbounded-only-last and no-account-emptied-twice rules, allotment sum rules, destinations, '
                      'statements) - for every script within the two implementation limits (32768 variables, syntactic resource bound '
                      '<= 65536); the direction accepted => well-formed, hence ill-formed => compile error => not run '
                      '(C08_ill_formed_not_run), holds without any size hypothesis.',
              'note': 'Trusted: Coq kernel; hand-written models validated by correspondence only; ANTLR parser not modelled (real parser '
                      'feeds the model). Side conditions of the theorem (lowest-terms ratio literals, non-empty statement list, typed glue '
                      'values) are stated in assumptions with refutation witnesses showing each is necessary. The '
                      "declarative judgement of C08_reject_sound is about the model compiler (tied to the real one by correspondence); sem-refines-spec "
                      'is C03. SHA-256 injectivity on the offered texts is a hypothesis. Known finding F-C08c (ordered destination with '
                      'kept before a later max over-commits) is a property of Sem itself and is preserved, not introduced, by compilation.',
              'technique': 'Coq proof (compiler correctness by structural induction on the AST - custom induction principles for nested '
                           'sources and mutual destinations - over a straight-line stack VM; Hoare-style lemmas for the compiler state '
                           'monad) + differential correspondence model vs real compiler/VM',
              'design_ref': 'DESIGN.md 5 C08'}}
