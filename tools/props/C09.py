PROP = dict(
    ready=True,
    coq=["theories/Properties/C09.v"],
    suites=[{'bin': 'obs-httpwrite', 'corpus': 'httpwrite'}, dict(bin="obs-posting")],
    trusted=[
        "hand-written model Posting/Model.v of internal/numscript.go (TxToScriptData), internal/posting.go (Postings.Validate, "
        "Postings.Reverse), internal/account.go + asset.go (the two patterns as character-class recursions), transaction.go "
        "(TransactionData.Reverse, TransactionRequest.ToRunScript) and the posting branch of the v1 / v2 / bulk create-transaction "
        "handlers; tied on every run by correspondence: the real TxToScriptData text through the real ANTLR parser must give the "
        "model's AST (variable block in sort.Strings order included) and the real SetVarsFromJSON the model's variable values; "
        "Validate / ValidateAddress / AssetIsValid vs the model on raw strings (all strings up to length 3 resp. 5 over the 7 "
        "characters that matter, boundary lengths, random long ones); Reverse vs reverse_postings; handlers vs `handler`",
        "Numscript/{Funding,VM,Syntax,Compiler,Run,Sem}.v (M1, validated by obs-numscript for C01/C03/C08/C12): the theorems are "
        "about Sem; every posting case is also run through the real compiler + machine and compared with Sem AND with the closed "
        "form the theorems give (`predict`: the request itself or insufficient funds, decided by replay_ok)",
        "scripted backend.Ledger (harness/fakeapi) stands for the engine in the handler cases; persistence of the committed "
        "transaction (C09_committed of DESIGN) belongs to the engine model M2, not claimed here",
        "name interning of accounts / assets by the harness is checked injective per case (`interned_ok`)",
    ],
    assumptions=[
        "C09_success_iff / C09_failure_class assume the machine balance table has an entry for the source of every posting "
        "(`tracks`), which is what ResolveBalances builds from Program.NeededBalances; that it does so for this script is "
        "checked by correspondence (model compile + real run), not proved",
        "C09_exact, C09_all_or_nothing, C09_metadata_passthrough have no hypothesis on the balance table",
        "the empty posting list is not translated by the API (ToRunScript / v1 take the script branch); TxToScriptData of an empty "
        "list yields a text the parser rejects and is outside the model",
    ],
    manifest=dict(
        text="Coq theorems over the source semantics Sem of the script TxToScriptData produces, for every posting list and balance "
             "table: C09_exact (a successful run emits exactly the requested postings: order, accounts, assets, amounts; one posting "
             "per send including the zero-amount and @world/overdraft paths), C09_all_or_nothing, C09_success_iff / C09_rejected_iff "
             "(success exactly when replaying the postings in order never asks an ordinary source for more than it holds, earlier "
             "credits counting; forced mode only needs non-negative amounts), C09_failure_class (only insufficient funds, never in "
             "forced mode), C09_metadata_passthrough (the script sets no metadata, the override check cannot fire), C09_keys_present "
             "(the panics of TxToScriptData are unreachable). The model of TxToScriptData / Validate / Reverse / handlers is tied to "
             "the working tree on every run by running the real functions, parser, compiler, machine and HTTP handlers on generated "
             "requests and evaluating the same cases with the model inside coqc.",
        note="Trusted: Coq kernel; hand-written models validated by correspondence only; fake backend behind the handlers; the "
             "persisted log entry is outside this property's machinery (engine model). No axioms.",
        technique="Coq proof (per-send lemma by case analysis on the funding primitives, induction over the posting list with a "
                  "table/abstract-balance agreement invariant) + differential correspondence model vs real code",
        design_ref="DESIGN.md 5 C09; design.d/C09.md",
    ),
)
