PROP = {"ready": True, 'coq': ['theories/Properties/C12.v'],
 'suites': [{'bin': 'obs-numscript', 'corpus': 'numscript'}],
 'trusted': ['hand-written models Numscript/{Funding,VM,Syntax,Compiler,Run,Sem}.v of '
             'internal/machine/{funding,allotment,portion,monetary}.go, vm/{machine,run,stack}.go, script/compiler/*.go; tied on every run '
             'by correspondence: real compiler + machine vs model on generated programs x variable maps x stores (bytecode, resources, '
             'sources, needed balances, lock sets, postings, metadata, printed values, error class, panic flag), and Sem (source '
             'semantics) vs the real run end to end',
             'the real ANTLR lexer/parser produces the AST the model consumes (parse-tree dump harness/nsx/ast.go is mechanical glue); '
             'machine.NewValueFromString / ParsePortionSpecific enter as harness-computed tables',
             'math/big, encoding/json are exercised, not modelled; Go aliasing inside a shared *Program is covered by the run-twice oracle '
             'only'],
 'assumptions': ['front-end side conditions of the theorems, both executable (Numscript/CompileCorrectProps.v in_fragment = norm_script && '
                 'statement list non-empty): ratio literals reach the model in lowest terms (they are big.Rat values, math/big keeps them '
                 "normalised; the compiler's constant table compares ratios by cross-multiplication, so the unconditional statement is "
                 'false of the model: C08_unconditional_refuted_unnormalised_ratio) and a script has at least one statement (NumScript.g4 '
                 '`script` rule; an empty program makes Machine.Execute index Instructions[0]: C08_unconditional_refuted_empty_script)',
                 'typing of the values handed over by the glue: every value SetVarsFromJSON stores for a resource Variable{Typ,Name} has '
                 'type Typ (vars_typed (p_res p) vars; implied by the script-level form "every supplied plain variable has its declared type", vars_typed_script, theorems *_script) and every NewValueFromString(Typ, raw) result has type Typ (parse_typed store); '
                 'both functions type-check in Go and enter the model as harness-computed tables; without it the model predicts a panic '
                 '(C12_no_panic_without_typing_refuted)',
                 'the ANTLR parser terminates and does not panic (fuzzed by the malformed-input stream, not proved)',
                 'C12_deterministic / C12_no_residue hold of the model by construction (pure function, immutable program value); absence '
                 'of shared mutable state in the Go *Program is covered by the run-twice / concurrent oracle of the harness only'],
 'manifest': {'text': 'Coq theorems over the validated models: C12_no_panic - for every script of the language, variable map, store and '
                      'extra metadata keys, neither the outcome of compile -> set vars -> ResolveResources nor the run result '
                      '(ResolveBalances -> Execute -> vm.Run) is a Panic; every Go panic site (typed pop, empty pop, BUMP range, nil-map '
                      'write in REPAY/SAVE, resolve type assertions, empty program, non-empty final stack, unprintable metadata) is an '
                      'explicit Panic constructor of the model; corollary of compiler correctness (C08) since the source semantics has no '
                      'panic, plus panic-freedom of resource/balance resolution on compiled programs. C12_terminates / '
                      'C12_tick_loop_is_fold: the Go tick loop with explicit program counter needs at most len(Instructions) ticks and '
                      'equals the structural fold (no jumps: P strictly increases). C12_error_classes (unconditional): every failure is of '
                      'a class defined for its stage. C12_deterministic / C12_no_residue: the outcome is a function of (program, '
                      "variables, store) - by construction of the model. Partial for the clause 'every byte string': the ANTLR front end "
                      'is not modelled; the harness fuzzes it.',
              'note': 'Trusted as C08. Parser panic/hang freedom and Go-level aliasing are covered by the harness (recover, watchdog, '
                      'run-twice), not by a theorem. The model is of the repaired tree: the three pre-repair panics (source allotment not '
                      'summing to 100 %, save from a non-source account, two balance() variables on one account) are fixed in /repo and '
                      'kept as corpus replays; C12_example exercises the latter two shapes on the repaired model.',
              'technique': 'Coq proof (no Panic outcome; structural termination) + differential correspondence + malformed-input stream '
                           'with recover/watchdog',
              'design_ref': 'DESIGN.md 5 C12'}}
