PROP = dict(
    ready=True,
    coq=["theories/Properties/C13.v"],
    suites=[dict(bin="obs-logcodec"), dict(bin="obs-engine", corpus="engine")],  # the engine suite re-verifies every entry the real Commander writes
    trusted=[
        "hand-written model LogCodec/Model.v of internal/log.go (payloads, MarshalJSON/UnmarshalJSON, HydrateLog, ComputeHash, "
        "ChainLog), transaction.go, posting.go, and Logs.ToCore of ledgerstore/logs.go; tied by correspondence on every run: the "
        "real ChainLog/json.Marshal/json.Unmarshal/ToCore vs to_json, of_json, of_row, and the exact bytes fed to SHA-256 vs "
        "render_go(hash_input_json), on generated chains",
        "encoding/json (value <-> bytes), math/big, base64 and crypto/sha256 are exercised, not modelled: in the theorems SHA-256 "
        "is an arbitrary function H and the printing of a JSON value an arbitrary function render",
        "PostgreSQL is absent: the jsonb column is simulated by the harness (members de-duplicated and reordered by key length "
        "then bytes, text re-printed), the `date timestamp` column by dropping the zone designator at microsecond precision",
    ],
    assumptions=[
        "codec_ok: ParseTime(Format(t)) = t for every ledger.Time held in memory (microsecond-rounded, year 0..9999, any zone) "
        "-- a hypothesis of every theorem, discharged empirically by the harness on each generated time incl. years 0/1/9999, "
        "sub-microsecond digits, offsets up to +-23:59 (oracle clause time-text)",
        "codec_ok: base64 decoding inverts base64 encoding of a hash",
        "strings are valid UTF-8 without NUL (what JSON request bodies decode to; encoding/json replaces invalid bytes by U+FFFD "
        "and PostgreSQL refuses \\u0000 at insertion); strings that enter through a URL path parameter or the Idempotency-Key header "
        "can violate it on the unrepaired tree: known finding F-C13d, oracle clause invalid-utf8:<position> (entry path of obs-logcodec), "
        "repair fixes/C13-invalid-utf8.diff makes the Commander refuse them",
        "the model covers the values the system writes: non-nil transaction, ids and amounts; target ids of type string / *big.Int; "
        "log type consistent with the payload type",
        "row path: the log date is UTC (the commander dates every log with ledger.Now())",
    ],
    manifest=dict(
        text="Coq theorems C13_roundtrip / C13_roundtrip_row / C13_rehash / C13_chain / C13_chain_rows over the executable model of "
             "the log codec (to_json, of_json, of_row, hash_input, chain_log) for every entry of the five payload kinds on both "
             "target types, unbounded amounts and ids, nil/empty/arbitrary metadata, arbitrary strings, and chains of any length "
             "(induction), for any hash function and any JSON printer; the model is tied to the working tree on every run by "
             "running the real ChainLog, json.Marshal, json.Unmarshal(ChainedLog), Logs.ToCore and re-chaining on generated "
             "chains and evaluating the same cases with the model inside coqc (JSON value, decoded entry on both read paths, "
             "and the exact SHA-256 input bytes).",
        note="Trusted: Coq kernel; hand-written model validated by correspondence only; Go time text round trip and base64 are "
             "hypotheses (codec_ok) checked empirically; PostgreSQL jsonb/timestamp columns simulated. No axioms. Found and "
             "repaired: DELETE_METADATA unreadable (panic), transaction target id >= 2^64 unreadable, timestamp rounding up to "
             "year 10000 unreadable.",
        technique="Coq proof (structural round-trip lemmas, canonical association lists, induction over the chain) + differential "
                  "correspondence model vs real codec",
        design_ref="DESIGN.md 4 M9, 5 C13; design.d/C13.md",
    ),
)
