PROP = dict(
    ready=True,
    coq=["theories/Properties/C15.v"],
    suites=[dict(bin="obs-lock", timeout=2400)],
    trusted=[
        "hand-written model Lock/Model.v of internal/engine/command/lock.go (DefaultLocker) + libs/collectionutils/linked_list.go, tied by "
        "correspondence: schedules of the real DefaultLocker driven through the internal/verifhook yield points are replayed step by "
        "step through the model inside coqc (fast path vs queue, grants of every recheck pass in order, select branch, outcome per "
        "request, final lock table)",
        "the yield-point scheduler of harness/cmd/obs-lock (one goroutine runs at a time; parks at lock.enqueued and lock.select.done; "
        "lock.grant is a notification under the locker mutex) and the add-only hook lines in lock.go",
        "free-running stress search in obs-lock (all cores, random cancellations, timing perturbed through the hooks and through the "
        "logger the locker calls under its mutex): non-deterministic, reports only violations observed on the real code; it widens what a "
        "seeded change can hit between yield points and is not part of the model/implementation tie",
        "Go runtime: which branch a select takes when both channels are ready is not controlled by the scheduler; the model enables "
        "both branches and the trace records the one taken",
    ],
    assumptions=[
        "one model action = one critical section of lock.go under the locker mutex (or one select outcome); Go data races between "
        "LinkedList's own mutex and the locker mutex and memory-model effects are outside the model (go test -race observations only)",
        "the unlock function is called at most once per successful Lock (ARelease is enabled only for a holder)",
        "liveness is stated as a safety invariant: every waiter conflicts with a current holder; fairness of holders (they release) and "
        "of the Go scheduler is not modelled, and the fast path may overtake the queue (no anti-starvation claim)",
    ],
    manifest=dict(
        text="Coq theorems C15_exclusion / C15_table_exact / C15_no_leak / C15_progress / C15_fifo / C15_cancel / C15_no_panic over the "
             "executable transition system of DefaultLocker (lock, release+recheck, cancel, wake with either select branch, abort) for "
             "every action sequence (invariant of all reachable states, induction over the sequence and over the recheck pass), plus "
             "C15_cancel_refuted / C15_leak_is_permanent for the code before the repair; the model is tied to the working tree on every "
             "run by driving the real DefaultLocker through enumerated and seeded schedules at verifhook yield points and replaying each "
             "observed trace through the model inside coqc.",
        note="Trusted: Coq kernel; hand-written model (Lock/Model.v) validated by trace correspondence only; the scheduler harness; "
             "Go's select fairness modelled as nondeterminism. Data races on LinkedList are outside the model. No axioms.",
        technique="Coq proof (invariant over a labelled transition system) + schedule-controlled trace validation of the real locker",
        design_ref="DESIGN.md 4 M3, 5 C15",
    ),
)
