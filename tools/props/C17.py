PROP = dict(
    ready=True,
    coq=["theories/Properties/C17.v"],
    suites=[dict(bin="obs-paginate")],
    trusted=[
        "hand-written model Paginate/Model.v of libs/bun/bunpaginate (pagination_column.go, pagination_offset.go, pagination.go) and of the "
        "JSON form of the libs/query builders, tied by correspondence on every run: every real UsingColumn / UsingOffset / EncodeCursor / "
        "UnmarshalCursor / GetPageSize call of the suite is re-evaluated by the model inside coqc (page, page_off, enc/dec, get_page_size)",
        "the database is abstracted as `fetch` = first size+1 keys satisfying the bound in the effective order; harness/fakesql/tabledrv "
        "(a database/sql driver answering SELECT .. WHERE .. ORDER BY .. LIMIT .. OFFSET from an in-memory table, stable sort) stands for "
        "PostgreSQL; bun, database/sql, encoding/json, base64, chi are exercised, not modelled",
        "the ledgerstore list methods and the v1/v2 list handlers are not modelled: they are tied by running them (NewStoreForVerif) over the "
        "driver and checking on the captured statements that the listing is restricted to its ledger (hypothesis of C17_listing_restricted), "
        "that the filter part of the statement is the same on every page, and by the walk oracle on the items returned",
        "uniqueness of (ledger, id) / (ledger, address) is the unique indexes of 0-init-schema.sql (read, not executed: no PostgreSQL here)",
    ],
    assumptions=[
        "sort keys and ids are integers (Z); page sizes, offsets are nat (the code uses uint64/int; no overflow below 2^63)",
        "filter values are JSON values whose numbers are integers (|z| < 2^53); the PIT is carried as its RFC3339Nano text",
        "the table does not change during a walk (C17 is about one collection; concurrent inserts are outside the property)",
        "offset pagination: the caller's ORDER BY is deterministic (accounts: ledger-restricted, ordered by the unique address)",
    ],
    manifest=dict(
        text="Coq theorems C17_walk / C17_exactly_once / C17_previous (column pagination), C17_offset_walk / C17_offset_previous, "
             "C17_cursor_roundtrip(_offset), C17_page_size_positive, C17_listing_restricted over the executable model of bunpaginate: for every "
             "table with distinct sort keys, every page size >= 1, both orders and every filter payload, following `next` from the first page "
             "enumerates the collection exactly once in order, hasMore is false exactly on the last page, every page but the last is full, j "
             "steps along `previous` show page k-j, and every cursor decodes to the query it encodes, filter included (induction over the walk; "
             "strictly sorted lists are determined by their elements). The model is tied to the working tree on every run by running the real "
             "UsingColumn/UsingOffset/cursor codec/GetPageSize, the real ledgerstore listings and the real v1/v2 list handlers over a "
             "table-serving database/sql driver and re-evaluating every call with the model inside coqc.",
        note="Trusted: Coq kernel; hand-written model (Paginate/Model.v) validated by correspondence only; the in-memory SQL driver stands for "
             "PostgreSQL (WHERE/ORDER BY/LIMIT/OFFSET of the listing statements only); store and handler glue tied by execution and captured SQL, "
             "not modelled. Hypotheses n >= 1 and distinct keys are forced (C17_walk_refuted_size0 / _duplicates) and discharged at the glue "
             "(C17_page_size_positive, C17_listing_restricted). No axioms.",
        technique="Coq proof (induction over the walk, uniqueness of strictly sorted lists) + differential correspondence model vs real pagination code on a fake SQL driver + captured-SQL checks of the store glue",
        design_ref="DESIGN.md 5 C17",
    ),
)
