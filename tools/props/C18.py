PROP = dict(
    ready=True,
    coq=["theories/Properties/C18.v"],
    suites=[dict(bin="obs-bulk")],
    trusted=[
        "hand-written model Bulk/Model.v of internal/api/v2/bulk.go + controllers_bulk.go, tied by correspondence: "
        "real ProcessBulk and real v2 router/bulkHandler vs `process` on the same requests (calls, results, flag, status)",
        "scripted backend.Ledger (harness/fakeapi) stands for the engine; encoding/json, chi are exercised, not modelled",
    ],
    assumptions=[
        "each element causes at most one backend call, so an arbitrary backend is an arbitrary outcome per element",
        "JSON decoding of the bulk body and of each element's data is abstracted to decodable/undecodable (both classes generated)",
    ],
    manifest=dict(
        text="Coq theorems C18_order/positions/stop/continue/flag over the executable model of ProcessBulk+bulkHandler for every "
             "element list, backend outcome pattern and flag (induction over the list); the model is tied to the working tree on "
             "every run by running the real ProcessBulk and the real v2 router on generated requests and evaluating the same "
             "requests with the model inside coqc.",
        note="Trusted: Coq kernel; hand-written model (Bulk/Model.v) validated by correspondence only; scripted backend stands "
             "for the engine; JSON decodability abstracted to two classes. No axioms.",
        technique="Coq proof (induction over the element list) + differential correspondence model vs real handler",
        design_ref="DESIGN.md 5 C18",
    ),
)
