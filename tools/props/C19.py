PROP = dict(
    ready=True,
    coq=["theories/Properties/C19.v"],
    suites=[dict(bin="obs-router")],
    translators=[
        dict(name="routes2coq",
             # go/ast only: reads @REPO@/internal/api/{router.go,read_only.go,v1,v2}; exits non-zero when the source no longer
             # has the shape it understands. Writes RoutesGen.v only when its content changes.
             cmd="cd @ROOT@/harness && go run ./cmd/routes2coq -repo @REPO@ -out @ROOT@/coq/theories/Router/RoutesGen.v"),
    ],
    trusted=[
        "translator harness/cmd/routes2coq + harness/internal/routetab (go/ast): route tree, handler -> reachable write methods "
        "(syntactic, over-approximating: any mention of CreateTransaction/RevertTransaction/SaveMeta/DeleteMetadata/ProcessBulk or of a "
        "package function that mentions them), position and guard of mux.Use(ReadOnly), method list of the ReadOnly condition; "
        "cross-checked on every run against chi.Walk of the real router and against the writes the recording backend sees",
        "hand-written model Router/Model.v of chi v5.0.8 dispatch (static > {param} > mount wildcard, depth first; a mount commits; "
        "a parameter is one whole segment and is not empty at the end of the path; unknown methods get 405), tied by correspondence: "
        "the endpoint pattern chi records (RoutePatterns) must be the model's for every generated request",
        "recording backend.Backend/backend.Ledger (harness/fakeapi) stands for the engine; chi, cors, otelchi, auth, encoding/json and the "
        "controllers are exercised, not modelled; handlers served by another package (healthController.Check) are assumed not to write",
    ],
    assumptions=[
        "chi's method-dispatch contract: an endpoint registered for method m is reached only by requests whose method is m "
        "(this is how `route` is defined; checked by correspondence on every run)",
        "middlewares installed after the gate neither rewrite r.Method / the URL / chi's RoutePath nor write: the translator rejects a "
        "middleware that assigns them or is not on its list of known external middlewares",
        "a write in the sense of C19 is a call of CreateTransaction, RevertTransaction, SaveMeta or DeleteMetadata on backend.Ledger; "
        "backend.CreateLedger (v1 auto-creation on GET) is outside the property and reported as a note",
    ],
    manifest=dict(
        text="Coq theorem C19_no_write: for every request (any method string, any path) served in read-only mode, the endpoint reached "
             "by the model of chi's dispatch over the route tree is not a writer; derived from a general lemma about the ReadOnly gate, "
             "the model's method-dispatch, and a vm_compute check of the finite route table, which harness/cmd/routes2coq regenerates from "
             "router.go, read_only.go, v1/routes.go, v2/routes.go and the handlers' bodies on every run. The real api.NewRouter "
             "(readOnly=true and false) over a recording backend is sent every registered route x 15 methods x variants and seeded "
             "random requests; the model's outcome and the translator's writer classification are compared with what the router did.",
        note="Trusted: Coq kernel; the go/ast translator; the hand-written dispatch model (validated by correspondence only); chi's "
             "method dispatch is an assumption; the recording backend stands for the engine. No axioms.",
        technique="Coq proof (structural induction over the route tree + vm_compute over the regenerated finite table) + "
                  "translation of the route registrations + differential correspondence against the real router",
        design_ref="DESIGN.md 5 C19",
    ),
)
