PROP = dict(
    ready=True,
    coq=["theories/Properties/C20.v"],
    suites=[dict(bin="obs-sqltext")],
    trusted=[
        "hand-written model SqlText/Model.v of ledgerstore/utils.go (filterAccountAddress, filterAccountAddressOnTransactions, "
        "checkAddressFilter), the query contexts of accounts.go/transactions.go/balances.go/logs.go, libs/query Build, "
        "encoding/json string escaping, bun v1.1.16 Formatter.append / AppendString / AppendJSON; tied by correspondence: "
        "the WHERE fragment the recording driver receives for generated filters (list and count variants) must equal the "
        "model's text, for the filter and for its harmless twin",
        "bun's statement assembly around the WHERE fragment, pgdialect, database/sql, chi and the v1/v2 handlers are exercised "
        "by the harness (captured SQL, oracle) but not modelled",
        "the quote automaton (scan/blank) is this development's reading of PostgreSQL's lexer with "
        "standard_conforming_strings=on; PostgreSQL itself is not available in the sandbox; the oracle's Go port of it is "
        "tied to the Coq definition by the cases (blanked text and token count compared)",
        "recording database/sql driver harness/fakesql/recorder (empty result sets)",
    ],
    assumptions=[
        "standard_conforming_strings = on (PostgreSQL default since 9.1): a backslash inside '...' is an ordinary character",
        "no named arguments are registered on the bun formatter for the WHERE text (theorem: after the repair the text "
        "contains no ?name / ?(..) / ?N placeholder, so none can be looked up)",
        "numbers in filters are modelled for integers only (strconv float formatting is not modelled; floats are covered by the oracle)",
    ],
    manifest=dict(
        text="Coq theorems C20_inert / C20_same_structure / C20_token_shape / C20_bound_arg_inert over an executable model of "
             "the filter-to-SQL path (address filter functions with the segment-grammar check, the key x operator tables of the "
             "four listings, libs/query Build, bun's placeholder parser and argument quoting, encoding/json escaping): for "
             "every filter tree and every byte string, the filter is rejected or every client character is consumed inside a "
             "literal of PostgreSQL's quote automaton and the blanked statement equals that of the harmless twin. The model is "
             "tied to the working tree on every run by capturing the SQL text of the real store (recording driver, list and "
             "count, also through the v1/v2 handlers) for generated hostile filters and comparing the WHERE fragment with the "
             "model's inside coqc.",
        note="Trusted: Coq kernel; hand-written model validated by correspondence only; the automaton is a reading of "
             "PostgreSQL's lexer (no PostgreSQL in the sandbox); bun's assembly of the statement around the fragment is "
             "covered by the oracle only. No axioms.",
        technique="Coq proof (induction over strings, JSON values and filter trees; reflective checks on query templates) + "
                  "differential correspondence model vs captured SQL of the real store",
        design_ref="DESIGN.md 4 M8, 5 C20, design.d/C20.md",
    ),
)
