#!/bin/sh
# tools/refresh_seeded.sh [N] : re-run our checks against every seeded change (N at a time, default 3; the C19 ones one
# after the other at the end, because the translator writes one shared RoutesGen.v) and record the verdict lines in meta.json
cd /verif
par="${1:-3}"
one() {
  d="$1"; id=$(basename "$d"); p=${id%-*}
  extra=""
  case "$id" in C08-2|C03-2) extra="C01";; C13-1) extra="C05";; C10-2) extra="C09";; C04-8) extra="C17";; C02-9) extra="C01";; esac
  res=""
  for q in $p $extra; do
    out=$(tools/mutcheck.sh "/verif/seeded/$id/patch.diff" "$q" 2>&1 | grep -E "^(== |VIOLATION|PATCH)" | head -4 | sed 's#/verif/build/replays/##' | tr '\n' ' ')
    res="$res$out | "
  done
  python3 - "/verif/seeded/$id/meta.json" "$res" <<'PY'
import json,sys
m=json.load(open(sys.argv[1])); m["our_checks"]=sys.argv[2]
m["caught"]= "VIOLATION" in sys.argv[2]
m["caught_with_replay"]= ("VIOLATION" in sys.argv[2]) and any(("VIOLATION" in part and "no-failing-input-found" not in part) for part in sys.argv[2].split("|"))
json.dump(m,open(sys.argv[1],"w"),indent=1)
PY
  echo "$id: $res" | cut -c1-220
}
if [ "$1" = "--one" ]; then one "$2"; exit 0; fi
ls -d seeded/*/ | grep -v "seeded/C19-" | xargs -P "$par" -I{} sh tools/refresh_seeded.sh --one {}
for d in seeded/C19-*/; do one "$d"; done
