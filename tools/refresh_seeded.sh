#!/bin/sh
# re-run our checks against every seeded change and record the verdict lines in its meta.json
cd /verif
for d in seeded/*/; do
  id=$(basename "$d"); p=${id%-*}
  extra=""
  case "$id" in C08-2|C03-2) extra="C01";; C13-1) extra="C05";; C10-2) extra="C09";; esac
  res=""
  for q in $p $extra; do
    out=$(tools/mutcheck.sh "/verif/$d/patch.diff" "$q" 2>&1 | grep -E "^(== |VIOLATION)" | head -4 | sed 's#/verif/build/replays/##' | tr '\n' ' ')
    res="$res$out | "
  done
  python3 - "$d/meta.json" "$res" <<'PY'
import json,sys
m=json.load(open(sys.argv[1])); m["our_checks"]=sys.argv[2]
m["caught"]= "VIOLATION" in sys.argv[2]
m["caught_with_replay"]= ("VIOLATION" in sys.argv[2]) and any(("VIOLATION" in part and "no-failing-input-found" not in part) for part in sys.argv[2].split("|"))
json.dump(m,open(sys.argv[1],"w"),indent=1)
PY
  echo "$id: $res" | cut -c1-200
done
