#!/bin/sh
# tools/runall.sh [quick|thorough] : run every claimed check against /repo (4 at a time), summarise
cd /verif
tier="${1:-quick}"
ids=$(python3 -c "import json; print(' '.join(c['property_id'] for c in json.load(open('MANIFEST.json'))['checks']))")
mkdir -p build/runall
echo $ids | tr ' ' '\n' | xargs -P 4 -I{} sh -c "./check {} --tier $tier > build/runall/{}.log 2>&1; echo {} rc=\$? \$(grep -c '^VIOLATION' build/runall/{}.log) violations \$(grep -c '^KNOWN-FINDING' build/runall/{}.log) known \$(grep -c '^CHECK-FAULT' build/runall/{}.log) faults"
