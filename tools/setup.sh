#!/bin/sh
# Build the framework from files on disk only (offline): Coq development (full .vo), harness binaries.
set -e
cd "$(dirname "$0")/.."
. tools/goenv.sh
mkdir -p build evidence
( cd coq && coq_makefile -f _CoqProject -o Makefile && timeout 3000 make -j16 )
python3 - <<'PY'
import sys, os
sys.path.insert(0, "tools")
import check
from props import PROPS
bins = sorted({s["bin"] for p in PROPS.values() for s in p["suites"]})
for b in bins:
    ok, out, path = check.go_build(b)
    print("go build", b, "ok" if ok else "FAILED")
    if not ok:
        print(out)
        sys.exit(1)
PY
