#!/bin/sh
# Build the framework from files on disk only (offline): Coq development (full .vo), harness binaries.
set -e
cd "$(dirname "$0")/.."
. tools/goenv.sh
mkdir -p build evidence
python3 - <<'PY'
import sys
sys.path.insert(0, "tools")
import check
from props import PROPS
import json
claimed = {c["property_id"] for c in json.load(open("MANIFEST.json"))["checks"]}
PROPS = {k: v for k, v in PROPS.items() if k in claimed}
check.coq_makefile()
targets = sorted({f[:-2] + ".vo" for p in PROPS.values() for f in p["coq"]})
ok, out = check.coq_build(targets)
print(out[-3000:])
if not ok:
    print("coq build FAILED")
    sys.exit(1)
bins = sorted({s["bin"] for p in PROPS.values() for s in p["suites"]})
for b in bins:
    ok, out, path = check.go_build(b)
    print("go build", b, "ok" if ok else "FAILED")
    if not ok:
        print(out)
        sys.exit(1)
PY
