#!/bin/sh
# tools/soak.sh SEED... : every claimed check at quick tier with other seeds on /repo (2 at a time); a line per run.
# Any rc != 0 on the unchanged tree is a false alarm (or a real finding) to be looked at. Evidence files are
# overwritten by these runs: finish with tools/runall.sh quick.
cd /verif
ids=$(python3 -c "import json; print(' '.join(c['property_id'] for c in json.load(open('MANIFEST.json'))['checks']))")
mkdir -p build/soak
for seed in "$@"; do
  echo $ids | tr ' ' '\n' | xargs -P 4 -I{} sh -c "VERIF_SEED=$seed ./check {} --tier quick > build/soak/{}-$seed.log 2>&1; echo seed=$seed {} rc=\$? \$(grep -c '^VIOLATION' build/soak/{}-$seed.log) violations \$(grep -c '^CHECK-FAULT' build/soak/{}-$seed.log) faults"
done
